"""M0 for the state selection of structs.rs (`struct_property`, `has_default`): the real TypeSpace against Model/StructProps.lean
(drv_sprop) over the whole lattice
   kind of the member's type  x  member in `required` or not  x  the `default` its schema carries
one document per point; the member's state (Required / Optional / Default(value)) and whether its type got wrapped in `Option`
are read off the IR dump. A point whose default typify refuses when the schema is added (it is validated later, against the
type) is counted and not compared."""
import json
import vlib

S, I = {"type": "string"}, {"type": "integer"}
# name -> (member schema, kind as has_default sees it, place the holder before / after the definition `Mid` it may refer to)
KINDS = {
    "string": (S, "string"), "string_len": ({"type": "string", "maxLength": 40}, "other"), "integer": (I, "integer"),
    "uint8": ({"type": "integer", "format": "uint8"}, "integer"), "boolean": ({"type": "boolean"}, "boolean"),
    "number": ({"type": "number"}, "other"), "null": ({"type": "null"}, "unit"), "vec": ({"type": "array", "items": S}, "vec"),
    "set": ({"type": "array", "items": S, "uniqueItems": True}, "other"), "map": ({"type": "object", "additionalProperties": I}, "map"),
    "anymap": ({"type": "object"}, "map"), "option": ({"type": ["string", "null"]}, "option"),
    "option_oneof": ({"oneOf": [{"type": "integer"}, {"type": "null"}]}, "option"),
    "tuple": ({"type": "array", "items": [S, I], "minItems": 2, "maxItems": 2}, "other"),
    "struct": ({"type": "object", "properties": {"a": I}}, "other"), "any": ({}, "other"),
    "ref_resolved": ({"$ref": "#/definitions/Mid"}, "other"), "ref_unresolved": ({"$ref": "#/definitions/Mid"}, "unresolved"),
}
MID = {"Mid": {"type": "string", "enum": ["x", "y"]}}
NODEFAULT = object()
DEFAULTS = [NODEFAULT, None, False, True, 0, 0.0, 5, -0.0, 1e-20, 0.5, 1e-310, "", "x", " ", [], ["a"], [[]], {}, {"k": 1},     # zero, and what is nearly zero
            1e300, 1e19, -1e19, 9007199254740993, 18446744073709551615, [1e19], {"k": 1e300}, 2.0]     # the far ends of the number line (kept as they are)

def points():
    out = []
    for kn, (schema, kind) in KINDS.items():
        for req in (False, True):
            for d in DEFAULTS:
                m = dict(schema)
                if d is not NODEFAULT:
                    if "$ref" in m and d is not NODEFAULT: m = dict(m, default=d)
                    else: m["default"] = d
                # definitions are converted in key order: `Aholder` before `Mid` (the reference does not resolve yet), `Zholder` after
                hname = "Aholder" if kind == "unresolved" else "Zholder"
                holder = {"type": "object", "properties": {"m": m, "other": S}, "required": ["other"] + (["m"] if req else [])}
                doc = {"definitions": dict(MID, **{hname: holder})}
                reqline = {"kind": kind, "required": req}
                # (the default of an in-line OBJECT schema becomes the default of the struct type generated for it; convert_schema
                # hands no metadata back, so `has_default` sees none)
                if d is not NODEFAULT and kn != "struct": reqline["default"] = d
                out.append((kn, hname, doc, reqline))
    return out

def stage(ctx):
    import m2, irutil
    pts = points()
    ans = m2.tvh_ir([{"settings": {}, "calls": [{"defs": doc["definitions"]}]} for _, _, doc, _ in pts])
    model = vlib.run_side("model", "sprop", [json.dumps(r) for _, _, _, r in pts], "sprop")
    stats = {"points": len(pts), "compared": 0, "refused_when_added": 0, "by_state": {}}
    dis = []
    for (kn, hname, doc, r), a, m in zip(pts, ans, model):
        if not (a.get("calls") and a["calls"][-1].startswith("ok")):
            stats["refused_when_added"] += 1; continue
        es = irutil.entries(a["dump"]); nm = irutil.named(a["dump"])
        e = nm.get(hname, (None, None))[1]
        p = next((p for p in (e or {}).get("props", []) if p["name"] == "m"), None)
        if p is None: dis.append({"point": r, "kind": kn, "real": "no member", "model": m}); continue
        st = p["state"]
        real = st if isinstance(st, str) else "default " + json.dumps(st["default"], separators=(",", ":"))
        wrapped = es.get(p["type_id"], {}).get("kind") == "option" and r["kind"] != "option"
        real += " option" if wrapped else ""
        # JSON text on both sides: compare parsed
        def norm(x):
            if x.startswith("default "):
                body = x[8:]; opt = body.endswith(" option"); body = body[:-7] if opt else body
                try: return ("default", json.loads(body), opt)          # compared as values: -0.0 is 0.0
                except Exception: return ("default", body, opt)
            return (x,)
        stats["compared"] += 1
        stats["by_state"][real.split(" ")[0] + (" option" if wrapped else "")] = stats["by_state"].get(real.split(" ")[0] + (" option" if wrapped else ""), 0) + 1
        if norm(real) != norm(m): dis.append({"point": r, "kind": kn, "real": real, "model": m})
    return stats, dis

if __name__ == "__main__":
    class Ctx: pass
    st, dis = stage(Ctx())
    print(st); print(len(dis))
    for d in dis[:30]: print(json.dumps(d))

#!/bin/sh
# run every check (default: quick) on the current tree; one line per check (exit status, seconds, VIOLATION lines)
# usage: tools/run_all.sh [quick|thorough] [logdir]   (logs default to /tmp)
cd "$(dirname "$0")/.."
L=${2:-/tmp}; mkdir -p "$L"
for p in C01 C02 C03 C04 C05 C06 C07 C08 C09 C10 C11 C12 C13 C14 C15 C16 C17 C18 C19; do
  s=$(date +%s); ./check $p ${1:-quick} > "$L/runall_$p.log" 2>&1; rc=$?
  echo "$p rc=$rc t=$(( $(date +%s) - s )) $(grep -c '^VIOLATION' "$L/runall_$p.log") violations $(grep -c '^KNOWN-FINDING' "$L/runall_$p.log") known"
  grep '^VIOLATION\|Traceback\|Error' "$L/runall_$p.log" | head -3
done

"""Schema / instance / mutant generators for the typify verification framework (stdlib only).

Everything random is drawn from a caller-supplied ``random.Random``; nothing here touches the
global PRNG, the clock or the network, so a (seed, arguments) pair reproduces a case exactly.

Public API (details in the docstrings)
  gen_universe(rng, size, features=None) -> doc        type-directed schema document (schemars 0.8 shape)
  gen_universe_ex(rng, size, features=None) -> (doc, meta)   + the type universe (IR) and injected-invalid-default pointers
  FEATURE_SETS / DEFAULT_FEATURES / ALL_FEATURES       named feature fragments
  idiom_sites(doc, kinds=None) / apply_idiom(doc, kind, ptr, rng) / mutate_idioms(rng, doc, k, kinds)
  gen_valid(rng, doc, schema, depth=3) -> value        valid by construction (raises Unsat when impossible)
  gen_boundary(rng, doc, schema, depth=3, float_ints=False) -> [(value, label)]
  MUTATORS, mutants(rng, doc, schema, value) and the eight mut_* functions  (C05)
  only_declared(doc, schema, value), prune(value), contained(a, b)   (C03)
  enum_schemas(max_nodes, closed=False)                small-scope exhaustive enumerator
  fixture_docs()                                       [(name, document)] of the repository's fixtures
  describe(doc) / merge_descriptions(list)             construct distribution for evidence
  lite_valid(doc, schema, value)                       small internal validator (branch selection only; NOT the oracle)
  find_defaults(doc)                                   [(pointer, schema-without-default, default)]
  run_oracle(requests)                                 bulk verdicts through `python3-vt tools/oracle.py`
"""
import copy, itertools, json, math, os, re, subprocess, sys

VERIF = os.path.dirname(os.path.dirname(os.path.abspath(__file__)))
REPO = os.environ.get("VERIF_REPO", "/repo")
DRAFT7 = "http://json-schema.org/draft-07/schema#"


class Unsat(Exception):
    """no instance can be generated (schema false / unsatisfiable / outside the supported fragment)"""


# --------------------------------------------------------------------------- feature flags
DEFAULT_FEATURES = frozenset({
    "struct", "closed", "required_nullable", "enum_external", "enum_internal", "enum_adjacent",
    "enum_untagged", "strenum", "newtype", "constrained_string", "tuple", "array", "vec", "set",
    "map", "option", "int_formats", "int_ranges", "number", "bool", "refs", "inline",
})
OPTIONAL_FEATURES = frozenset({
    "string_formats",     # uuid / date-time / date / ipv4 / ipv6
    "recursion",          # $ref cycles through Option / Vec / map / later enum variants
    "root_ref",           # {"$ref": "#"} back to the root (needs recursion)
    "allof",              # allOf of object schemas: disjoint + identical overlapping properties
    "allof_closed",       # ... one branch closed (additionalProperties:false) and covering the others
    "allof_unsat",        # ... unsatisfiable conjunctions (gen_valid raises Unsat)
    "allof_refine",       # ... one property declared twice with DIFFERENT compatible schemas (length/range vs enum, number vs enum)
    "not",                # {"type":"string","not":{"enum":[...]}} deny lists
    "not_untyped",        # {"not":{"enum":[...]}} as in the repository fixture (wider than the Rust type)
    "null_props",         # properties of type null (Rust `()`), required or not
    "map_keys",           # maps with constrained keys (propertyNames / one patternProperties entry) and any-valued maps
    "defaults",           # valid defaults on properties and named types
    "invalid_defaults",   # some defaults are NOT valid for their schema (pointers in meta["invalid_defaults"])
    "hostile_names",      # names from the hostile pool
    "any",                # the `true` / {} schema (serde_json::Value)
    "float_bounds",       # schemars-style "minimum": 0.0 on unsigned formats
    "lone_bounds",        # integers with just one of minimum / maximum
    "const",              # print single-valued enums as const
    "grouped_units",      # externally tagged: unit variants grouped in one {"enum":[a,b,c]}
    "set_any",            # sets of arbitrary item types (default: strings / integers only)
    "titles",             # title annotations on inline subschemas
    "idioms",             # apply 0-4 idiom mutations to the printed document
    "root_enum",          # the root schema may be an enum rather than a struct
    "int_enums",          # integer enumerations with a format, the format's own bounds among the values
    "req_undeclared",     # an open struct may require a member it does not declare (any value / the additional schema's)
    "typed_addl",         # structs with `additionalProperties: <schema>` next to their properties (a flattened map member)
    "objunion",           # oneOf / anyOf whose branches are ALL objects (told apart by required / closed members; non-exclusive anyOf)
    "def_descriptions",   # definitions carry a `description` (annotations must not change the generated shape)
})
ALL_FEATURES = DEFAULT_FEATURES | OPTIONAL_FEATURES
FEATURE_SETS = {
    "default": DEFAULT_FEATURES,
    "formats": DEFAULT_FEATURES | {"string_formats", "int_enums"},
    "recursive": DEFAULT_FEATURES | {"recursion", "root_ref"},
    "allof": DEFAULT_FEATURES | {"allof", "allof_closed", "allof_refine"},
    "not": DEFAULT_FEATURES | {"not"},
    "defaults": DEFAULT_FEATURES | {"defaults"},
    "idioms": DEFAULT_FEATURES | {"idioms", "const", "def_descriptions"},
    # C05: only constructs whose constraints typify claims to enforce
    "c05": frozenset({"struct", "closed", "enum_external", "enum_internal", "enum_adjacent", "strenum",
                      "newtype", "constrained_string", "tuple", "array", "vec", "map", "option",
                      "int_formats", "bool", "refs", "inline", "not"}),
    "c06": DEFAULT_FEATURES | {"defaults", "invalid_defaults"},
    "c09": frozenset({"struct", "closed", "strenum", "vec", "map", "option", "int_formats", "bool",
                      "refs", "allof", "allof_closed", "allof_unsat", "allof_refine"}),
    "hostile": DEFAULT_FEATURES | {"hostile_names"},
    "maps": DEFAULT_FEATURES | {"map_keys", "any", "defaults", "typed_addl", "req_undeclared"},
    "unions": DEFAULT_FEATURES | {"objunion", "allof", "typed_addl", "req_undeclared", "int_enums", "def_descriptions"},
    "all": ALL_FEATURES - {"hostile_names", "invalid_defaults", "allof_unsat", "not_untyped"},
}

# --------------------------------------------------------------------------- name pools
DEF_NAMES = ["Alpha", "Bravo", "Charlie", "Delta", "Echo", "Foxtrot", "Golf", "Hotel", "India",
             "Juliet", "Kilo", "Lima", "Mike", "November", "Oscar", "Papa", "Quebec", "Romeo",
             "Sierra", "Tango", "Uniform", "Victor", "Whiskey", "Xray", "Yankee", "Zulu"]
PROP_NAMES = ["id", "name", "count", "size", "label", "flag", "items", "owner", "state", "value",
              "width", "height", "tags", "notes", "limit", "offset", "parent", "child", "left",
              "right", "first", "last", "color", "shape", "weight", "price", "code", "level"]
VARIANT_NAMES = ["Red", "Green", "Blue", "Circle", "Square", "Triangle", "North", "South", "East",
                 "West", "Small", "Medium", "Large", "Start", "Stop", "Pause", "Open", "Shut"]
ENUM_VALUES = ["red", "green", "blue", "on", "off", "low", "mid", "high", "alpha", "beta", "gamma",
               "north", "south", "up", "down", "Fast", "Slow", "kebab-case", "snake_case", "v1", "v2"]
TAG_NAMES = ["type", "kind", "tag", "variant", "op"]
CONTENT_NAMES = ["content", "data", "payload", "args"]

HOSTILE_NAMES = [
    # keywords in several casings, path keywords
    "type", "Type", "TYPE", "struct", "enum", "fn", "impl", "match", "ref", "mod", "use", "loop",
    "async", "await", "dyn", "try", "yield", "box", "move", "where", "self", "Self", "crate", "super",
    "Option", "Vec", "String", "Box", "Result", "Default", "None", "Some", "Ok", "Err",
    # digit-initial, punctuation only, empty, whitespace
    "1st", "2", "007", "3d-model", "-", "_", "__", "--", "$", "@", "+", "-1", "!", "?", ".", " ", "",
    "a b", " lead", "trail ",
    # pairs differing only in case / separators
    "foo-bar", "foo_bar", "fooBar", "FooBar", "foo bar", "FOO_BAR", "foo.bar", "foo--bar", "Foo",
    "foo", "FOO", "a_b", "a-b", "aB", "ab", "x1", "x_1", "X1",
    # braces, quotes, backslash, other punctuation
    "{", "}", "{}", "{0}", "a{b}c", "\"", "quo\"te", "\\", "back\\slash", "'", "a'b", "#", "a#b",
    "a/b", "a~b", "~0", "%", "a%20b", "<T>", "a::b", "r#type", "a;b", "a,b", "(x)", "[0]", "*", "&",
    # multi-byte / non-ASCII (written with escapes so the source stays unambiguous)
    "\u00e9", "e\u0301", "na\u00efve", "\u00df", "\u65e5\u672c\u8a9e", "\u00dcn\u00efc\u00f6d\u00e9",
    "\U0001F600", "a\U0001F600b", "\ufb01", "\u0130", "\u01c5", "\u00a0", "\u200b", "\u00f6_\u00f6",
    "\u03a9mega", "\u00f1", "\u0661\u0662", "\u212a",
]
_DEF_UNSAFE = set("/~%#")       # typify keys a $ref by the text after the last '/', never unescapes


class _Names:
    def __init__(self, rng, hostile):
        self.rng, self.hostile = rng, hostile

    def pick(self, pool, n, avoid=(), is_def=False):
        """n distinct names from `pool` (or the hostile pool)"""
        if self.hostile:
            src = [x for x in HOSTILE_NAMES if not (is_def and (x == "" or set(x) & _DEF_UNSAFE))]
            # mix: mostly hostile, a few benign so documents stay legible
            src = src + list(pool[:4])
        else:
            src = list(pool)
        src = [x for x in src if x not in avoid]
        if n > len(src):
            src = src + ["%s%d" % (pool[i % len(pool)], i) for i in range(n - len(src) + 1)]
        if self.hostile and n >= 2 and self.rng.random() < 0.35:
            # a collision cluster: one name together with re-spellings that the identifier rules may map to the same Rust name
            # (case changes, the trailing underscore of keyword escaping, separators)
            base = self.rng.choice([x for x in src if x.strip("_- ")] or src)
            alts = [a for a in dict.fromkeys([base + "_", base.capitalize(), base.lower(), base.upper(), "_" + base, base + "-", base.strip("_")])
                    if a != base and a not in avoid and not (is_def and (a == "" or set(a) & _DEF_UNSAFE))]
            take = [base] + self.rng.sample(alts, min(len(alts), self.rng.randint(1, 2), n - 1))
            rest = [x for x in src if x not in take]
            out = take + self.rng.sample(rest, n - len(take))
            self.rng.shuffle(out)
            return out
        return self.rng.sample(src, n)


# --------------------------------------------------------------------------- JSON helpers
def jtype(v):
    if v is None: return "null"
    if isinstance(v, bool): return "boolean"
    if isinstance(v, int): return "integer"
    if isinstance(v, float): return "integer" if (math.isfinite(v) and v == int(v)) else "number"
    if isinstance(v, str): return "string"
    if isinstance(v, list): return "array"
    if isinstance(v, dict): return "object"
    raise TypeError(type(v))


def _isnum(v):
    return isinstance(v, (int, float)) and not isinstance(v, bool)


def jeq(a, b):
    """JSON equality: numbers numerically, booleans never equal to numbers, containers structurally"""
    if _isnum(a) and _isnum(b): return a == b
    if isinstance(a, bool) or isinstance(b, bool): return isinstance(a, bool) and isinstance(b, bool) and a == b
    if type(a) is not type(b): return False
    if isinstance(a, list): return len(a) == len(b) and all(jeq(x, y) for x, y in zip(a, b))
    if isinstance(a, dict): return a.keys() == b.keys() and all(jeq(a[k], b[k]) for k in a)
    return a == b


def canon(v):
    return json.dumps(v, sort_keys=True, ensure_ascii=False, separators=(",", ":"))


def ptr_escape(tok): return str(tok).replace("~", "~0").replace("/", "~1")
def ptr_unescape(tok): return tok.replace("~1", "/").replace("~0", "~")
def ptr_join(ptr, tok): return ptr + "/" + ptr_escape(tok)
def ptr_split(ptr): return [ptr_unescape(t) for t in ptr.split("/")[1:]] if ptr else []


def ptr_get(doc, ptr):
    cur = doc
    for t in ptr_split(ptr):
        cur = cur[int(t)] if isinstance(cur, list) else cur[t]
    return cur


def ptr_set(doc, ptr, value):
    """functional update: returns a deep copy of doc with value at ptr ("" replaces the whole)"""
    if ptr == "": return copy.deepcopy(value)
    doc = copy.deepcopy(doc)
    toks = ptr_split(ptr)
    cur = doc
    for t in toks[:-1]:
        cur = cur[int(t)] if isinstance(cur, list) else cur[t]
    if isinstance(cur, list): cur[int(toks[-1])] = copy.deepcopy(value)
    else: cur[toks[-1]] = copy.deepcopy(value)
    return doc


def ptr_del(doc, ptr):
    doc = copy.deepcopy(doc)
    toks = ptr_split(ptr)
    cur = doc
    for t in toks[:-1]:
        cur = cur[int(t)] if isinstance(cur, list) else cur[t]
    if isinstance(cur, list): del cur[int(toks[-1])]
    else: del cur[toks[-1]]
    return doc


def resolve_ref(doc, ref):
    """'#', '#/definitions/X', '#/$defs/X' or any local JSON pointer; raises KeyError when dangling"""
    if ref == "#": return doc
    if not ref.startswith("#/"): raise KeyError("non-local $ref " + ref)
    try:
        return ptr_get(doc, ref[1:])
    except (KeyError, IndexError, ValueError, TypeError):
        raise KeyError("dangling $ref " + ref)


def deref(doc, schema, limit=32):
    """follow $ref chains (draft-07: siblings of $ref are ignored)"""
    while isinstance(schema, dict) and "$ref" in schema and limit > 0:
        schema = resolve_ref(doc, schema["$ref"]); limit -= 1
    return schema


def def_ref(name):
    return "#/definitions/" + ptr_escape(name)


# --------------------------------------------------------------------------- integer formats
INT_FORMATS = {
    "int8": (-2**7, 2**7 - 1), "int16": (-2**15, 2**15 - 1), "int32": (-2**31, 2**31 - 1),
    "int64": (-2**63, 2**63 - 1), "int": (-2**63, 2**63 - 1),
    "uint8": (0, 2**8 - 1), "uint16": (0, 2**16 - 1), "uint32": (0, 2**32 - 1),
    "uint64": (0, 2**64 - 1), "uint": (0, 2**64 - 1),
}


def int_bounds(schema):
    """(lo, hi) admitted by format-as-range & minimum/maximum/exclusive*; None = unbounded"""
    lo, hi = INT_FORMATS.get(schema.get("format"), (None, None))
    def tighten_lo(x):
        nonlocal lo
        x = math.ceil(x)
        lo = x if lo is None else max(lo, x)
    def tighten_hi(x):
        nonlocal hi
        x = math.floor(x)
        hi = x if hi is None else min(hi, x)
    if _isnum(schema.get("minimum")): tighten_lo(schema["minimum"])
    if _isnum(schema.get("maximum")): tighten_hi(schema["maximum"])
    if _isnum(schema.get("exclusiveMinimum")): tighten_lo(math.floor(schema["exclusiveMinimum"]) + 1)
    if _isnum(schema.get("exclusiveMaximum")): tighten_hi(math.ceil(schema["exclusiveMaximum"]) - 1)
    return lo, hi


# --------------------------------------------------------------------------- lite validator
def _type_ok(t, v):
    jt = jtype(v)
    if t == "number": return jt in ("number", "integer")
    return jt == t


_LV_STEPS = [0]
_IN_GEN = [0]      # > 0 while gen_valid runs: its lite_valid calls share ONE work budget

def lite_valid(doc, schema, v, _fuel=None):
    """Small draft-07 validator for the fragment (string formats are ignored, integer formats are
    ranges). Used for branch selection inside the generators; the judge is tools/oracle.py.
    Bounded in depth (_fuel) AND in total work: a union whose branches refer back to it would otherwise cost 2^depth."""
    if _fuel is None:
        if _IN_GEN[0] == 0: _LV_STEPS[0] = 0
        _fuel = 200
    _LV_STEPS[0] += 1
    if _LV_STEPS[0] > 300000: return False
    if schema is True: return True
    if schema is False: return False
    if not isinstance(schema, dict): return True
    if _fuel <= 0: return False
    f = _fuel - 1
    if "$ref" in schema:
        return lite_valid(doc, resolve_ref(doc, schema["$ref"]), v, f)
    t = schema.get("type")
    if t is not None:
        ts = t if isinstance(t, list) else [t]
        if not any(_type_ok(x, v) for x in ts): return False
    if "enum" in schema and not any(jeq(v, e) for e in schema["enum"]): return False
    if "const" in schema and not jeq(v, schema["const"]): return False
    if _isnum(v):
        if "minimum" in schema and v < schema["minimum"]: return False
        if "maximum" in schema and v > schema["maximum"]: return False
        if "exclusiveMinimum" in schema and _isnum(schema["exclusiveMinimum"]) and v <= schema["exclusiveMinimum"]: return False
        if "exclusiveMaximum" in schema and _isnum(schema["exclusiveMaximum"]) and v >= schema["exclusiveMaximum"]: return False
        if "multipleOf" in schema and schema["multipleOf"]:
            q = v / schema["multipleOf"]
            if q != int(q): return False
        if jtype(v) == "integer" and schema.get("format") in INT_FORMATS:
            lo, hi = INT_FORMATS[schema["format"]]
            if not (lo <= int(v) <= hi): return False
    if isinstance(v, str):
        if "minLength" in schema and len(v) < schema["minLength"]: return False
        if "maxLength" in schema and len(v) > schema["maxLength"]: return False
        if "pattern" in schema:
            try:
                if not re.search(ecma_to_py(schema["pattern"]), v): return False
            except re.error:
                pass
    if isinstance(v, list):
        if "minItems" in schema and len(v) < schema["minItems"]: return False
        if "maxItems" in schema and len(v) > schema["maxItems"]: return False
        if schema.get("uniqueItems"):
            for i in range(len(v)):
                for j in range(i):
                    if jeq(v[i], v[j]): return False
        items = schema.get("items")
        if isinstance(items, list):
            for i, x in enumerate(v):
                if i < len(items):
                    if not lite_valid(doc, items[i], x, f): return False
                elif "additionalItems" in schema:
                    if not lite_valid(doc, schema["additionalItems"], x, f): return False
        elif items is not None:
            if not all(lite_valid(doc, items, x, f) for x in v): return False
        if "contains" in schema and not any(lite_valid(doc, schema["contains"], x, f) for x in v): return False
    if isinstance(v, dict):
        if "minProperties" in schema and len(v) < schema["minProperties"]: return False
        if "maxProperties" in schema and len(v) > schema["maxProperties"]: return False
        for r in schema.get("required", []):
            if r not in v: return False
        props = schema.get("properties", {})
        pats = schema.get("patternProperties", {})
        for k, x in v.items():
            hit = False
            if k in props:
                hit = True
                if not lite_valid(doc, props[k], x, f): return False
            for p, ps in pats.items():
                if re.search(ecma_to_py(p), k):
                    hit = True
                    if not lite_valid(doc, ps, x, f): return False
            if not hit and "additionalProperties" in schema:
                if not lite_valid(doc, schema["additionalProperties"], x, f): return False
        if "propertyNames" in schema and not all(lite_valid(doc, schema["propertyNames"], k, f) for k in v): return False
        for k, dep in schema.get("dependencies", {}).items():
            if k in v:
                if isinstance(dep, list):
                    if not all(d in v for d in dep): return False
                elif not lite_valid(doc, dep, v, f): return False
    if "allOf" in schema and not all(lite_valid(doc, s, v, f) for s in schema["allOf"]): return False
    if "anyOf" in schema and not any(lite_valid(doc, s, v, f) for s in schema["anyOf"]): return False
    if "oneOf" in schema and sum(1 for s in schema["oneOf"] if lite_valid(doc, s, v, f)) != 1: return False
    if "not" in schema and lite_valid(doc, schema["not"], v, f): return False
    if "if" in schema:
        if lite_valid(doc, schema["if"], v, f):
            if "then" in schema and not lite_valid(doc, schema["then"], v, f): return False
        elif "else" in schema and not lite_valid(doc, schema["else"], v, f): return False
    return True


def ecma_to_py(pattern):
    """Translate the one place where Python `re` and ECMA-262 / Rust `regex` differ on the safe
    pattern pool: an unescaped `$` outside a character class matches only at the very end of the
    input in ECMA/Rust, while Python's `$` also matches before a trailing newline -> use `\\Z`."""
    out, i, in_cls = [], 0, False
    while i < len(pattern):
        c = pattern[i]
        if c == "\\" and i + 1 < len(pattern):
            out.append(pattern[i:i + 2]); i += 2; continue
        if in_cls:
            if c == "]": in_cls = False
        elif c == "[":
            in_cls = True
        elif c == "$":
            out.append("\\Z"); i += 1; continue
        elif c == ".":
            # ECMA-262 `.` excludes the four line terminators, Python's only \n; `\S`/`\s` agree on the pool's probes
            out.append("[^\\n\\r\\u2028\\u2029]"); i += 1; continue
        out.append(c); i += 1
    return "".join(out)


# --------------------------------------------------------------------------- strings: pattern pool, formats
MULTIBYTE = ["\u00e9", "\u20ac", "\U0001F600", "\u00df", "\u65e5", "\u0301", "\u0130"]   # 2,3,4,2,3,2,2 bytes in UTF-8
_LOWER = "abcdefghijklmnopqrstuvwxyz"
_DIGITS = "0123456789"


def _rs(rng, alphabet, n): return "".join(rng.choice(alphabet) for _ in range(n))


def _any_chars(rng, n, multibyte=True):
    pool = list(_LOWER + "XYZ _-09") + (MULTIBYTE * 2 if multibyte else [])
    return "".join(rng.choice(pool) for _ in range(n))


# pattern -> (min_len, max_len|None, gen(rng, n) -> matching string of n scalar values,
#             brk(rng, s) -> same-length non-matching string)
PATTERNS = {
    "^[a-z]+$": (1, None, lambda rng, n: _rs(rng, _LOWER, n),
                 lambda rng, s: s[:-1] + rng.choice("A0_\u00e9")),
    "^[0-9]{3}$": (3, 3, lambda rng, n: _rs(rng, _DIGITS, 3),
                   lambda rng, s: rng.choice(["x" + s[1:], s[:2] + "\u00e9", s[0] + "-" + s[2]])),
    "^a.*z$": (2, None, lambda rng, n: "a" + _any_chars(rng, n - 2) + "z",
               lambda rng, s: rng.choice(["b" + s[1:], s[:-1] + "y", "A" + s[1:]])),
    "^[A-Z][a-z0-9_]*$": (1, None, lambda rng, n: rng.choice("ABCXYZ") + _rs(rng, _LOWER + _DIGITS + "_", n - 1),
                          lambda rng, s: rng.choice([s[0].lower() + s[1:], "-" + s[1:]])),
    "^x-": (2, None, lambda rng, n: "x-" + _any_chars(rng, n - 2),
            lambda rng, s: rng.choice(["y" + s[1:], "x_" + s[2:], "X" + s[1:]])),
    "^[a-f0-9]{2,8}$": (2, 8, lambda rng, n: _rs(rng, "abcdef" + _DIGITS, n),
                        lambda rng, s: s[:-1] + rng.choice("gG-")),
    # patterns that look vacuous but are not: `.` does not match a line terminator, `$` (no multiline flag) only the end
    "^.*$": (0, None, lambda rng, n: _any_chars(rng, n),
             lambda rng, s: (lambda k: s[:k] + rng.choice("\n\r\u2028") + s[k + 1:])(rng.randrange(len(s)))),
    "^(.*)$": (0, None, lambda rng, n: _any_chars(rng, n),
               lambda rng, s: (lambda k: s[:k] + "\n" + s[k + 1:])(rng.randrange(len(s)))),
    "^.+$": (1, None, lambda rng, n: _any_chars(rng, n),
             lambda rng, s: (lambda k: s[:k] + rng.choice("\n\r") + s[k + 1:])(rng.randrange(len(s)))),
    "^\\S+$": (1, None, lambda rng, n: _rs(rng, _LOWER + "XYZ_-09", n - 1) + rng.choice(["\u00e9", "z"]),
               lambda rng, s: (lambda k: s[:k] + rng.choice(" \t\u00a0") + s[k + 1:])(rng.randrange(len(s)))),
    "^[^/]+$": (1, None, lambda rng, n: _any_chars(rng, n),
                lambda rng, s: (lambda k: s[:k] + "/" + s[k + 1:])(rng.randrange(len(s)))),
}
SAFE_PATTERNS = list(PATTERNS)


def gen_format_string(rng, fmt, mode="random"):
    """a canonical valid string for the recognised string formats"""
    if fmt == "uuid":
        h = _rs(rng, "0123456789abcdef", 32)
        if mode == "max": h = h.upper()
        if mode == "min": h = "0" * 32
        return "%s-%s-%s-%s-%s" % (h[:8], h[8:12], h[12:16], h[16:20], h[20:])
    if fmt in ("date", "date-time"):
        y, mo, d = rng.randint(1971, 2037), rng.randint(1, 12), rng.randint(1, 28)
        if mode == "min": y, mo, d = 1970, 1, 1
        if mode == "max": y, mo, d = 2096, 2, 29
        date = "%04d-%02d-%02d" % (y, mo, d)
        if fmt == "date": return date
        t = "%02d:%02d:%02d" % (rng.randint(0, 23), rng.randint(0, 59), rng.randint(0, 59))
        if mode == "min": return date + "T00:00:00Z"
        if mode == "max": return date + "T23:59:59.999999999Z"
        frac = rng.choice(["", "", ".5", ".250", ".123456"])
        off = rng.choice(["Z", "Z", "+00:00", "-07:00", "+05:30"])
        return date + "T" + t + frac + off
    if fmt == "time":
        # RFC 3339 full-time: the offset is part of it
        return "%02d:%02d:%02d%s%s" % (rng.randint(0, 23), rng.randint(0, 59), rng.randint(0, 59), rng.choice(["", "", ".5", ".125"]),
                                      rng.choice(["Z", "Z", "+01:00", "-07:00", "+05:30"]))
    if fmt in ("ipv4", "ip") and (fmt == "ipv4" or rng.random() < 0.5):
        if mode == "min": return "0.0.0.0"
        if mode == "max": return "255.255.255.255"
        return ".".join(str(rng.randint(0, 255)) for _ in range(4))
    if fmt in ("ipv6", "ip"):
        if mode == "min": return "::"
        if mode == "max": return ":".join(["ffff"] * 8)
        return rng.choice(["::1", "fe80::1", "2001:db8::%x" % rng.randint(1, 0xffff),
                           ":".join("%x" % rng.randint(0, 0xffff) for _ in range(8))])
    raise Unsat("unknown string format " + str(fmt))


STRING_FORMATS = ["uuid", "date-time", "date", "ipv4", "ipv6"]
UNRECOGNISED_STRING_FORMATS = ["time", "hostname", "email", "uri", "duration", "regex", "idn-email"]
IGNORED_STRING_FORMATS = {None}     # formats gen_string treats as free text are decided in _gen_string


def _gen_string(rng, schema, mode):
    fmt = schema.get("format")
    if fmt in ("uuid", "date", "date-time", "time", "ipv4", "ipv6", "ip"):
        return gen_format_string(rng, fmt, mode)
    lo = schema.get("minLength", 0)
    hi = schema.get("maxLength")
    pat = schema.get("pattern")
    if pat is not None:
        if pat not in PATTERNS: raise Unsat("pattern outside the safe pool: " + pat)
        pmin, pmax, g, _ = PATTERNS[pat]
        lo = max(lo, pmin)
        if pmax is not None: hi = pmax if hi is None else min(hi, pmax)
    if hi is not None and lo > hi: raise Unsat("empty length range")
    if mode == "min": n = lo
    elif mode == "max": n = hi if hi is not None else lo + 6
    else: n = rng.randint(lo, hi if hi is not None else lo + 6)
    if pat is not None: return g(rng, n)
    return _any_chars(rng, n, multibyte=(mode in ("min", "max", "multibyte") or rng.random() < 0.3))


# --------------------------------------------------------------------------- the type universe (IR)
# A type is a dict {"k": kind, ...}:
#   bool | int{fmt,lo,hi} | num{fmt} | str{fmt,min,max,pat} | strenum{values} | any | deny{values,typed}
#   opt{t,idiom: "type"|"oneOf"|"anyOf"} | vec{t} | set{t} | arr{t,n} | tuple{ts} | map{t} | ref{name}
#   struct{props:[{name,t,state: "required"|"required_nullable"|"optional"|"default"}], closed}
#   enum{tagging: "external"|"internal"|"adjacent"|"untagged", tag, content, comb, variants:[{name,shape,t|props|ts}]}
#        shape: "unit" | "newtype" | "tuple" | "struct"
#   allof{parts:[struct|ref]}
_JCLASS = {"bool": "boolean", "int": "number", "num": "number", "str": "string", "strenum": "string",
           "deny": "string", "vec": "array", "set": "array", "arr": "array", "tuple": "array",
           "map": "object", "struct": "object", "allof": "object"}


class _Universe:
    def __init__(self, rng, size, F):
        self.rng, self.F, self.size = rng, F, size
        self.names = _Names(rng, "hostile_names" in F)
        self.defs = {}            # name -> type (filled from the last definition backwards)
        self.order = []           # definition names in document order
        self.cur = None           # index of the definition being generated
        self.root = None

    # ---- helpers
    def has(self, f): return f in self.F
    def coin(self, p): return self.rng.random() < p

    def jclass(self, t):
        """JSON type class of a type, None when unknown / mixed"""
        k = t["k"]
        if k == "ref":
            tgt = self.defs.get(t["name"])
            return self.jclass(tgt) if tgt is not None else None
        if k == "enum":
            if t["tagging"] in ("internal", "adjacent"): return "object"
            return None
        if k == "raw": return {"string": "string", "integer": "number", "number": "number", "boolean": "boolean"}.get(t["schema"].get("type"))
        return _JCLASS.get(k)

    def nullable(self, t):
        k = t["k"]
        if k in ("opt", "any", "null"): return True
        if k == "ref":
            tgt = self.defs.get(t["name"])
            return True if tgt is None else self.nullable(tgt)
        if k == "enum" and t["tagging"] == "untagged":
            return any(v["shape"] == "newtype" and self.nullable(v["t"]) for v in t["variants"])
        return False

    # ---- scalars
    def t_int(self):
        r = self.rng
        fmt = lo = hi = None
        if self.has("int_formats") and self.coin(0.7):
            fmt = r.choice(["int8", "int16", "int32", "int64", "uint8", "uint16", "uint32", "uint64"])
        if self.has("int_ranges") and self.coin(0.35):
            flo, fhi = INT_FORMATS.get(fmt, (-1000, 1000))
            flo, fhi = max(flo, -10**6), min(fhi, 10**6)
            a, b = sorted([r.randint(flo, fhi), r.randint(flo, fhi)])
            if self.coin(0.3) and (fmt is None or fmt.startswith("u")) and max(flo, 0) <= b: a = max(flo, 0)
            lo, hi = a, b
            if self.has("lone_bounds") and self.coin(0.4):
                if self.coin(0.5): lo = None
                else: hi = None
        return {"k": "int", "fmt": fmt, "lo": lo, "hi": hi}

    def t_num(self):
        return {"k": "num", "fmt": self.rng.choice([None, "float", "double", "double"])}

    def t_str(self, constrained=None):
        r = self.rng
        t = {"k": "str", "fmt": None, "min": None, "max": None, "pat": None}
        if constrained is None:
            constrained = self.has("constrained_string") and self.coin(0.3)
        if self.has("string_formats") and not constrained and self.coin(0.35):
            # mostly the formats typify gives a Rust type of their own; now and then one it does not know (such a string stays a
            # `String`: every valid value is accepted)
            t["fmt"] = r.choice(STRING_FORMATS) if not self.coin(0.25) else r.choice(UNRECOGNISED_STRING_FORMATS)
            return t
        if constrained:
            what = r.choice(["len", "len", "pat", "both", "min", "max"])
            if what in ("pat", "both"):
                t["pat"] = r.choice(SAFE_PATTERNS)
            pmin, pmax = (0, None) if t["pat"] is None else PATTERNS[t["pat"]][:2]
            if what != "pat":
                a = r.randint(max(pmin, 0), max(pmin, 0) + 4)
                b = a + r.randint(0, 5)
                if pmax is not None: a, b = min(a, pmax), min(b, pmax)
                if what in ("len", "both"): t["min"], t["max"] = a, b
                elif what == "min": t["min"] = max(a, 1) if r.random() < 0.85 else 0
                else: t["max"] = b
                if pmax is not None and t["min"] is not None: t["min"] = min(t["min"], pmax)
            # a format typify does not recognise next to string constraints (an annotation for the validator used here)
            if self.has("string_formats") and self.coin(0.3): t["fmt"] = r.choice(["hostname", "email", "uri", "regex", "password"])
        return t

    def t_strenum(self):
        n = self.rng.randint(1, 4)
        return {"k": "strenum", "values": self.names.pick(ENUM_VALUES, n)}

    def t_int_enum(self):
        r = self.rng
        fmt = r.choice(["int8", "int16", "int32", "int64", "uint8", "uint16", "uint32", "uint64"])
        lo, hi = INT_FORMATS[fmt]
        vals = sorted(set(r.sample([lo, hi, 0, 1, hi - 1, lo + 1, 7, 1024 if hi >= 1024 else 100, hi // 2], r.randint(2, 4))))
        return {"k": "raw", "schema": {"type": "integer", "format": fmt, "enum": vals}}

    def t_scalar(self):
        if self.has("int_enums") and self.coin(0.08): return self.t_int_enum()
        opts = [("str", 4)]
        if self.has("bool"): opts.append(("bool", 2))
        if self.has("int_formats") or self.has("int_ranges") or True: opts.append(("int", 4))
        if self.has("number"): opts.append(("num", 1))
        k = _weighted(self.rng, opts)
        return {"bool": lambda: {"k": "bool"}, "int": self.t_int, "num": self.t_num, "str": self.t_str}[k]()

    # ---- references
    def ref_candidates(self, guarded):
        """names this position may refer to: later definitions always; earlier ones (and self)
        only in guarded positions when recursion is on"""
        if not self.has("refs"): return []
        c = list(self.order[self.cur + 1:]) if self.cur is not None else list(self.order)
        if guarded and self.has("recursion") and self.cur is not None:
            c += self.order[:self.cur + 1]
        return c

    def t_ref(self, guarded, pred=None):
        c = self.ref_candidates(guarded)
        if pred: c = [n for n in c if n in self.defs and pred(self.defs[n])]
        if not c: return None
        # prefer back references a little so cycles actually occur
        back = [n for n in c if n not in self.defs or self.order.index(n) <= (self.cur or 0)]
        if back and guarded and self.coin(0.5): return {"k": "ref", "name": self.rng.choice(back)}
        return {"k": "ref", "name": self.rng.choice(c)}

    # ---- composite types
    def t_any(self, depth, guarded=False, allow_opt=True, inline=True):
        """a type for a property / item / payload position"""
        r = self.rng
        opts = [("scalar", 10)]
        if self.has("strenum"): opts.append(("strenum", 2))
        if self.ref_candidates(guarded): opts.append(("ref", 8 if not guarded else 12))
        if depth > 0:
            if self.has("vec"): opts.append(("vec", 3))
            if self.has("set"): opts.append(("set", 1))
            if self.has("map"): opts.append(("map", 2))
            if self.has("tuple"): opts.append(("tuple", 1.5))
            if self.has("array"): opts.append(("arr", 1))
            if self.has("option") and allow_opt: opts.append(("opt", 3))
            if self.has("inline") and inline and self.has("struct"): opts.append(("struct", 2))
            if self.has("inline") and inline and self._taggings(): opts.append(("enum", 1.5))
            if self.has("not"): opts.append(("deny", 1))
        if self.has("any"): opts.append(("any", 0.7))
        k = _weighted(r, opts)
        if k == "scalar": return self.t_scalar()
        if k == "strenum": return self.t_strenum()
        if k == "any": return {"k": "any"}
        if k == "deny": return self.t_deny()
        if k == "ref":
            t = self.t_ref(guarded)
            return t or self.t_scalar()
        if k == "vec": return {"k": "vec", "t": self.t_any(depth - 1, True, allow_opt=False)}
        if k == "map":
            m = {"k": "map", "t": self.t_any(depth - 1, True, allow_opt=False)}
            if self.has("map_keys") and self.coin(0.6):
                m["keys"] = r.choice([{"maxLength": r.randint(3, 63)}, {"minLength": 1}, {"pattern": "^[a-z][a-z0-9_-]*$"},
                                      {"enum": r.sample(ENUM_VALUES, 3)}, {"pattern": "^x-"}, {"format": "uuid"}])
                m["via"] = "patternProperties" if "pattern" in m["keys"] and self.coin(0.5) else "propertyNames"
                if self.coin(0.4): m["t"] = {"k": "any"}
            return m
        if k == "set": return {"k": "set", "t": self.t_setitem(depth - 1)}
        if k == "arr":
            return {"k": "arr", "t": self.t_any(depth - 1, False, allow_opt=False, inline=False), "n": r.randint(1, 4)}
        if k == "tuple":
            n = r.randint(2, 4)
            return {"k": "tuple", "ts": [self.t_any(depth - 1, False, allow_opt=False, inline=False) for _ in range(n)]}
        if k == "opt": return self.t_opt(depth, guarded)
        if k == "struct": return self.t_struct(depth - 1, small=True)
        if k == "enum": return self.t_enum(depth - 1, small=True)
        raise AssertionError(k)

    def t_setitem(self, depth):
        if self.has("set_any"): return self.t_any(depth, False, allow_opt=False)
        return self.t_int() if self.coin(0.4) else self.t_str(constrained=False)

    def t_opt(self, depth, guarded):
        inner = self.t_any(depth - 1, True, allow_opt=False)
        tries = 0
        while self.nullable(inner) and tries < 5:
            inner = self.t_any(depth - 1, False, allow_opt=False); tries += 1
        if self.nullable(inner): inner = self.t_scalar()
        if inner["k"] == "ref": idiom = _weighted(self.rng, [("anyOf", 6), ("oneOf", 2)])
        elif inner["k"] in ("enum", "allof", "deny"): idiom = _weighted(self.rng, [("oneOf", 2), ("anyOf", 2)])
        else: idiom = _weighted(self.rng, [("type", 6), ("oneOf", 2), ("anyOf", 1)])
        return {"k": "opt", "t": inner, "idiom": idiom}

    def t_deny(self):
        typed = not (self.has("not_untyped") and self.coin(0.5))
        return {"k": "deny", "values": self.names.pick(ENUM_VALUES, self.rng.randint(1, 3)), "typed": typed}

    def props(self, depth, n, avoid=()):
        names = self.names.pick(PROP_NAMES, n, avoid=avoid)
        out = []
        for nm in names:
            st = _weighted(self.rng, [("required", 5), ("optional", 3),
                                      ("required_nullable", 1 if self.has("required_nullable") and self.has("option") else 0),
                                      ("default", 2 if self.has("defaults") else 0)])
            guarded = st != "required"
            if st == "required_nullable":
                t = self.t_opt(depth, True)
            elif st == "optional" and self.has("option") and self.coin(0.5):
                t = self.t_opt(depth, True)
            elif st == "default" and self.has("option") and self.coin(0.2):
                # a defaulted member in the nullable `type: [T, "null"]` spelling (the default then reaches T through Option)
                inner = self.t_int() if self.coin(0.6) else self.t_scalar()
                t = {"k": "opt", "t": inner, "idiom": "type"}
            elif self.has("null_props") and st in ("required", "optional") and self.coin(0.12):
                t = {"k": "null"}
            else:
                t = self.t_any(depth, guarded=False, allow_opt=False)
                if guarded and self.has("recursion") and self.coin(0.3):
                    # optional, non-nullable, possibly recursive: Option<Box<X>> by omission
                    t = self.t_ref(True) or t
            out.append({"name": nm, "t": t, "state": st})
        return out

    def t_struct(self, depth, small=False):
        n = self.rng.randint(1, 3) if small else self.rng.randint(1, 2 + min(self.size, 4))
        st = {"k": "struct", "props": self.props(depth, n), "closed": self.has("closed") and self.coin(0.3)}
        if self.has("req_undeclared") and not st["closed"] and self.coin(0.12):
            st["req_extra"] = self.names.pick(PROP_NAMES, 1, avoid={p["name"] for p in st["props"]})
        if self.has("typed_addl") and not st["closed"] and self.coin(0.3):
            st["addl"] = self.t_scalar() if self.coin(0.7) else {"k": "vec", "t": self.t_scalar()}
        return st

    def _taggings(self):
        return [t for t in ("external", "internal", "adjacent", "untagged") if self.has("enum_" + t)]

    def t_enum(self, depth, small=False, tagging=None):
        r = self.rng
        tagging = tagging or r.choice(self._taggings())
        if tagging == "untagged": return self.t_untagged(depth)
        n = r.randint(2, 3 if small else 4)
        vnames = self.names.pick(VARIANT_NAMES, n)
        tag = r.choice(TAG_NAMES)
        content = r.choice(CONTENT_NAMES)
        variants = []
        # look-alike: an internally tagged union whose variants all carry ONE member of the same name (what an
        # adjacently tagged union looks like when that member is required everywhere); members optional in some variants
        lookalike = tagging == "internal" and self.coin(0.25)
        shared = r.choice(CONTENT_NAMES + ["value", "body", "data"]) if lookalike else None
        for i, vn in enumerate(vnames):
            guarded = i > 0          # variant 0 never refers backwards: keeps every enum inhabited
            if lookalike and not (i > 0 and self.coin(0.2)):
                st = r.choice(["required", "optional", "required", "default" if self.has("defaults") else "optional"])
                t = self.t_scalar() if self.coin(0.6) else self.t_any(max(depth - 1, 0), guarded, allow_opt=False, inline=False)
                variants.append({"name": vn, "shape": "struct", "closed": False,
                                 "props": [{"name": shared if shared != tag else shared + "_", "t": t, "state": st}]})
                continue
            shapes = [("unit", 3), ("struct", 3)]
            if tagging != "internal": shapes += [("newtype", 3), ("tuple", 1 if self.has("tuple") else 0)]
            sh = _weighted(r, shapes)
            v = {"name": vn, "shape": sh}
            if sh == "newtype":
                v["t"] = self.t_any(depth, guarded, allow_opt=False, inline=False)
                if guarded and self.has("recursion") and self.coin(0.4): v["t"] = self.t_ref(True) or v["t"]
            elif sh == "tuple":
                v["ts"] = [self.t_any(depth, guarded, allow_opt=False, inline=False) for _ in range(r.randint(2, 3))]
            elif sh == "struct":
                v["props"] = self.props(depth - 1 if depth > 0 else 0, r.randint(1, 3), avoid=(tag, content))
                if not guarded:
                    for p in v["props"]:
                        pass
                v["closed"] = self.has("closed") and self.coin(0.2)
            variants.append(v)
        # twins: two struct variants declare a member of ONE name with DIFFERENT in-line object schemas (the types generated for
        # them are named after the enum, the variant and / or the member: two shapes must stay two types)
        svs = [v for v in variants if v.get("shape") == "struct"]
        if len(svs) >= 2 and self.has("inline") and self.coin(0.3):
            tw = r.choice(["target", "detail", "info", "spec"])
            if all(tw not in {p["name"] for p in v["props"]} for v in svs) and tw not in (tag, content):
                shapes = [{"branch": {"type": "string"}}, {"reason": {"type": "string"}, "merged": {"type": "boolean"}}, {"n": {"type": "integer"}, "branch": {"type": "boolean"}}]
                r.shuffle(shapes)
                for v, sh_ in zip(svs[:2], shapes):
                    v["props"].append({"name": tw, "t": {"k": "raw", "schema": {"type": "object", "properties": sh_}}, "state": r.choice(["required", "optional"])})
        return {"k": "enum", "tagging": tagging, "tag": tag, "content": content, "comb": "oneOf",
                "variants": variants}

    def t_objunion(self, depth):
        """a union of object schemas only. The branches are told apart by members, not by JSON type:
        req_closed       oneOf, every branch closed with its own required member
        closed_opt_first oneOf, a closed all-optional branch, then branches with a required member the first does not declare
                         (closed, open, or with a typed additionalProperties schema)
        anyof_disjoint   anyOf of open objects without required members and with disjoint member names (not exclusive)
        anyof_ref        the same with one branch a reference to an object definition (struct or allOf)"""
        r = self.rng
        names = self.names.pick(PROP_NAMES, 7)
        def sc():
            return {"k": "raw", "schema": r.choice([{"type": "integer"}, {"type": "string"}, {"type": "boolean"},
                                                     {"type": "string", "enum": r.sample(ENUM_VALUES, 2)}, {"type": "integer", "minimum": 0, "maximum": 255},
                                                     {"type": "array", "items": {"type": "string"}}])}
        def obj(req, opt, closed=False, addl=None):
            sch = {"type": "object", "properties": {}}
            for n in req + opt: sch["properties"][n] = sc()["schema"]
            if req: sch["required"] = list(req)
            if closed: sch["additionalProperties"] = False
            if addl is not None: sch["additionalProperties"] = addl
            return {"k": "raw", "schema": sch}
        mode = r.choice(["req_closed", "closed_opt_first", "closed_opt_first", "anyof_disjoint", "anyof_ref"])
        comb = "oneOf"; branches = []
        if mode == "req_closed":
            n = r.randint(2, 3)
            for i in range(n):
                branches.append(obj([names[i]], [names[3 + i]] if self.coin(0.6) else [], closed=True))
        elif mode == "closed_opt_first":
            branches.append(obj([], names[0:r.randint(1, 2)], closed=True))
            for i in range(r.randint(1, 2)):
                style = r.choice(["closed", "open", "typed"])
                branches.append(obj([names[2 + i]], [names[4 + i]] if self.coin(0.5) else [], closed=style == "closed",
                                    addl={"type": r.choice(["integer", "string", "boolean"])} if style == "typed" else None))
            if self.coin(0.3): comb = "anyOf"
        else:
            comb = "anyOf"
            k = 0
            for i in range(r.randint(2, 3)):
                m = r.randint(1, 2)
                branches.append(obj([], names[k:k + m])); k += m
            if mode == "anyof_ref":
                used = set(names)
                def disjoint(d):
                    if d["k"] == "struct": return not d["closed"] and not ({q["name"] for q in d["props"]} & used)
                    if d["k"] == "allof":
                        ps = set()
                        for part in d["parts"]:
                            pp = part if part["k"] == "struct" else self.defs.get(part.get("name"), {"k": "x"})
                            if pp["k"] != "struct" or pp.get("closed"): return False
                            ps |= {q["name"] for q in pp["props"]}
                        return d.get("mode") in ("plain", "overlap") and not (ps & used)
                    return False
                ref = self.t_ref(False, disjoint)
                if ref is not None: branches[r.randrange(len(branches))] = ref
        return {"k": "enum", "tagging": "untagged", "tag": None, "content": None, "comb": comb, "objunion": mode,
                "variants": [{"name": "V%d" % i, "shape": "newtype", "t": b} for i, b in enumerate(branches)]}

    def t_untagged(self, depth):
        """type-disjoint branches: at most one branch per JSON type class"""
        r = self.rng
        if self.has("objunion") and self.coin(0.5): return self.t_objunion(depth)
        classes = ["string", "number", "boolean", "array", "object"]
        r.shuffle(classes)
        k = r.randint(2, 3)
        variants = []
        for cls in classes[:k]:
            if cls == "string":
                t = self.t_ref(False, lambda d: self.jclass(d) == "string") if self.coin(0.3) else None
                t = t or (self.t_strenum() if self.has("strenum") and self.coin(0.3) else self.t_str())
            elif cls == "number":
                t = self.t_num() if self.has("number") and self.coin(0.25) else self.t_int()
            elif cls == "boolean":
                t = {"k": "bool"}
            elif cls == "array":
                t = None
                if self.has("tuple") and self.coin(0.25):
                    # two array branches told apart by their fixed length only (same leading item types)
                    base = [self.t_scalar() for _ in range(3)]
                    variants.append({"name": "V%d" % len(variants), "shape": "newtype", "t": {"k": "tuple", "ts": copy.deepcopy(base[:2])}})
                    t = {"k": "tuple", "ts": base}
                if t is None and self.coin(0.3): t = self.t_ref(False, lambda d: self.jclass(d) == "array")
                if t is None and self.has("tuple") and self.coin(0.3):
                    t = {"k": "tuple", "ts": [self.t_scalar() for _ in range(r.randint(2, 3))]}
                t = t or {"k": "vec", "t": self.t_scalar()}
            else:
                t = None
                if self.coin(0.5): t = self.t_ref(False, lambda d: self.jclass(d) == "object" and d["k"] != "allof")
                if t is None and self.has("map") and self.coin(0.3): t = {"k": "map", "t": self.t_scalar()}
                t = t or self.t_struct(max(depth - 1, 0), small=True)
            variants.append({"name": "V%d" % len(variants), "shape": "newtype", "t": t})
        return {"k": "enum", "tagging": "untagged", "tag": None, "content": None,
                "comb": "anyOf" if self.coin(0.7) else "oneOf", "variants": variants}

    def t_allof(self, depth):
        """allOf of object schemas: refs to struct definitions and inline open structs with
        disjoint property names; `overlap` repeats one property with the identical schema"""
        r = self.rng
        parts, used = [], set()
        nparts = r.randint(2, 3)
        for i in range(nparts):
            ref = None
            if self.coin(0.5):
                ref = self.t_ref(False, lambda d: d["k"] == "struct" and not d["closed"]
                                 and not ({p["name"] for p in d["props"]} & used))
            if ref is not None:
                parts.append(ref); used |= {p["name"] for p in self.defs[ref["name"]]["props"]}
            else:
                s = {"k": "struct", "props": self.props(depth, r.randint(1, 2), avoid=used), "closed": False}
                parts.append(s); used |= {p["name"] for p in s["props"]}
        inl = [p for p in parts if p["k"] == "struct"]
        every = []
        for p in parts:
            every += (p if p["k"] == "struct" else self.defs[p["name"]])["props"]
        mode = "plain"
        if inl and self.coin(0.35):
            # overlapping property: same schema, possibly different requiredness
            src = r.choice(every)
            tgt = r.choice(inl)
            if src["name"] not in {p["name"] for p in tgt["props"]}:
                q = copy.deepcopy(src); q["state"] = r.choice(["required", "optional"])
                if q["state"] == "optional" and src["state"] == "default": q["state"] = "optional"
                if self.coin(0.5): q["desc"] = "the same member, described on this side only"     # differs in an annotation only
                tgt["props"].append(q); mode = "overlap"
        if self.has("allof_refine") and self.coin(0.4):
            # the same property on two sides with different, compatible constraints: the merge has to intersect them
            nm = self.names.pick(PROP_NAMES, 1, avoid=used)[0]; used.add(nm)
            kind = r.choice(["len_enum", "len_enum", "num_enum", "range_enum", "pat_enum", "len_len"])
            if kind == "len_enum":
                n = r.randint(1, 4)
                pool = ["a" * n, "\u00e9" * n, "\u65e5" * n, "x" + "\u00e9" * (n - 1), "\U0001F600" * n, "b" * max(n - 1, 0), "z" * (n + 1), "\u00e9" * (n + 1), "abcdefgh"]
                a = {"type": "string", "maxLength": n}; b = {"type": "string", "enum": sorted(set(r.sample(pool, 5)) | {"a" * n, "\u00e9" * n})}
            elif kind == "num_enum":
                a = {"type": r.choice(["number", ["number", "null"]])}; b = {"enum": r.sample([1, 2, 2.5, 4, 0.5, -3, 10], 4)}
            elif kind == "range_enum":
                a = {"type": "integer", "minimum": 0, "maximum": 10}; b = {"type": "integer", "enum": sorted(r.sample([-1, 0, 3, 7, 10, 11, 100], 4) + [5])}
            elif kind == "pat_enum":
                a = {"type": "string", "pattern": "^[a-z]+$"}; b = {"type": "string", "enum": ["abc", "x", "A", "a1", "\u00e9t\u00e9", "zz"]}
            else:
                a = {"type": "string", "minLength": 1}; b = {"type": "string", "maxLength": r.randint(1, 5)}
            if self.coin(0.5): a, b = b, a
            hosts = inl[:2] if len(inl) >= 2 else None
            if hosts is None:
                extra = {"k": "struct", "props": [], "closed": False}; parts.append(extra); inl.append(extra)
                if len(inl) < 2:
                    extra2 = {"k": "struct", "props": [], "closed": False}; parts.append(extra2); inl.append(extra2)
                hosts = inl[:2]
            hosts[0]["props"].append({"name": nm, "t": {"k": "raw", "schema": a}, "state": r.choice(["required", "optional"])})
            hosts[1]["props"].append({"name": nm, "t": {"k": "raw", "schema": b}, "state": r.choice(["required", "optional"])})
            mode = "refine"
        if self.has("allof_closed") and self.coin(0.3):
            # a closed branch that declares every property of the others (still satisfiable)
            cover = []
            seen = set()
            for p in every:
                if p["name"] in seen: continue
                seen.add(p["name"]); q = copy.deepcopy(p); q["state"] = "optional" if q["state"] != "required_nullable" else "optional"
                cover.append(q)
            parts.append({"k": "struct", "props": cover, "closed": True}); mode = "closed"
        if self.has("allof_unsat") and self.coin(0.25):
            src = r.choice(every)
            kind = r.choice(["type", "closed"])
            if kind == "type":
                clash = {"k": "bool"} if self.jclass(src["t"]) != "boolean" and not self.nullable(src["t"]) else {"k": "tuple", "ts": [{"k": "bool"}, {"k": "bool"}]}
                parts.append({"k": "struct", "closed": False,
                              "props": [{"name": src["name"], "t": clash, "state": "required"}]})
            else:
                req = [p for p in every if p["state"] == "required"]
                if req:
                    parts.append({"k": "struct", "closed": True, "props":
                                  [{"name": self.names.pick(PROP_NAMES, 1, avoid=used)[0], "t": {"k": "bool"}, "state": "optional"}]})
                else:
                    kind = None
            if kind: mode = "unsat"
        r.shuffle(parts)
        return {"k": "allof", "parts": parts, "mode": mode}

    # ---- named definitions
    def t_named(self, depth):
        r = self.rng
        opts = []
        if self.has("struct"): opts.append(("struct", 8))
        for tg in self._taggings(): opts.append(("enum_" + tg, 2))
        if self.has("strenum"): opts.append(("strenum", 2))
        if self.has("newtype"): opts.append(("newtype", 2))
        if self.has("constrained_string"): opts.append(("cstr", 2))
        if self.has("tuple"): opts.append(("tuple", 1))
        if self.has("array"): opts.append(("arr", 0.5))
        if self.has("vec"): opts.append(("vec", 0.7))
        if self.has("map"): opts.append(("map", 0.7))
        if self.has("set"): opts.append(("set", 0.3))
        if self.has("allof"): opts.append(("allof", 5))
        if self.has("not"): opts.append(("deny", 2))
        if not opts: opts = [("newtype", 1)]
        k = _weighted(r, opts)
        if k == "struct": return self.t_struct(depth)
        if k.startswith("enum_"): return self.t_enum(depth, tagging=k[5:])
        if k == "strenum": return self.t_strenum()
        if k == "newtype": return self.t_scalar()
        if k == "cstr": return self.t_str(constrained=True)
        if k == "tuple":
            return {"k": "tuple", "ts": [self.t_any(depth - 1, False, allow_opt=False, inline=False) for _ in range(r.randint(2, 4))]}
        if k == "arr": return {"k": "arr", "t": self.t_any(depth - 1, False, allow_opt=False, inline=False), "n": r.randint(1, 4)}
        if k == "vec": return {"k": "vec", "t": self.t_any(depth - 1, True, allow_opt=False)}
        if k == "map": return {"k": "map", "t": self.t_any(depth - 1, True, allow_opt=False)}
        if k == "set": return {"k": "set", "t": self.t_setitem(depth - 1)}
        if k == "allof": return self.t_allof(depth)
        if k == "deny": return self.t_deny()
        raise AssertionError(k)

    def build(self):
        r = self.rng
        ndefs = max(1, r.randint(max(1, self.size // 2), max(1, self.size)))
        self.order = self.names.pick(DEF_NAMES, ndefs, avoid=("Root",), is_def=True)
        depth = 2 if self.size >= 3 else 1
        for i in range(ndefs - 1, -1, -1):
            self.cur = i
            self.defs[self.order[i]] = self.t_named(depth)
        self.cur = -1       # the root may refer to every definition
        if self.has("root_enum") and self._taggings() and self.coin(0.3):
            self.root = self.t_enum(depth)
        elif self.has("struct"):
            self.root = self.t_struct(depth)
            # make sure a few definitions are reachable from the root
            avoid = {p["name"] for p in self.root["props"]}
            for nm in r.sample(self.order, min(len(self.order), r.randint(1, 3))):
                pn = self.names.pick(PROP_NAMES, 1, avoid=avoid)[0]; avoid.add(pn)
                t = {"k": "ref", "name": nm}
                st = r.choice(["required", "optional"])
                if st == "optional" and self.has("option") and self.coin(0.5) and not self.nullable(t):
                    t = {"k": "opt", "t": t, "idiom": "anyOf"}
                self.root["props"].append({"name": pn, "t": t, "state": st})
            if self.has("root_ref") and self.has("recursion") and self.coin(0.5):
                pn = self.names.pick(PROP_NAMES, 1, avoid=avoid)[0]
                self.root["props"].append({"name": pn, "state": "optional",
                                           "t": {"k": "vec", "t": {"k": "ref", "name": None}}})
        else:
            self.root = self.t_named(depth)
        return {"root": self.root, "defs": [(n, self.defs[n]) for n in self.order]}


def _weighted(rng, opts):
    opts = [(k, w) for k, w in opts if w > 0]
    x = rng.random() * sum(w for _, w in opts)
    for k, w in opts:
        x -= w
        if x <= 0: return k
    return opts[-1][0]


# --------------------------------------------------------------------------- printing the universe as schemars would
class _Printer:
    def __init__(self, rng, F, universe):
        self.rng, self.F, self.u = rng, F, universe
        self.pending_defaults = []      # schema dicts (by identity) that need a "default"
        self.tcount = 0

    def has(self, f): return f in self.F

    def enum1(self, v):
        """single-valued string schema (tags, unit variants)"""
        if self.has("const") and self.rng.random() < 0.5: return {"type": "string", "const": v}
        return {"type": "string", "enum": [v]}

    def p(self, t):
        k = t["k"]
        if k == "raw": return copy.deepcopy(t["schema"])
        if k == "bool": return {"type": "boolean"}
        if k == "null": return {"type": "null"}
        if k == "int":
            s = {"type": "integer"}
            if t["fmt"]: s["format"] = t["fmt"]
            if t["lo"] is not None: s["minimum"] = t["lo"]
            elif t["fmt"] and t["fmt"].startswith("u") and self.has("float_bounds"): s["minimum"] = 0.0
            if t["hi"] is not None: s["maximum"] = t["hi"]
            return s
        if k == "num":
            s = {"type": "number"}
            if t["fmt"]: s["format"] = t["fmt"]
            return s
        if k == "str":
            s = {"type": "string"}
            if t["fmt"]: s["format"] = t["fmt"]
            if t["min"] is not None: s["minLength"] = t["min"]
            if t["max"] is not None: s["maxLength"] = t["max"]
            if t["pat"] is not None: s["pattern"] = t["pat"]
            return s
        if k == "strenum":
            if len(t["values"]) == 1 and self.has("const") and self.rng.random() < 0.3:
                return {"type": "string", "const": t["values"][0]}
            return {"type": "string", "enum": list(t["values"])}
        if k == "any": return True if self.rng.random() < 0.5 else {}
        if k == "deny":
            if t["typed"]: return {"type": "string", "not": {"enum": list(t["values"])}}
            if self.rng.random() < 0.5: return {"not": {"enum": list(t["values"])}}
            return {"not": {"type": "string", "enum": list(t["values"])}}
        if k == "ref": return {"$ref": "#" if t["name"] is None else def_ref(t["name"])}
        if k == "opt":
            inner = self.p(t["t"])
            idiom = t["idiom"]
            if idiom == "type" and isinstance(inner, dict) and isinstance(inner.get("type"), str) \
                    and not ({"oneOf", "anyOf", "allOf", "not", "$ref", "const"} & inner.keys()):
                inner["type"] = [inner["type"], "null"]
                if "enum" in inner: inner["enum"] = inner["enum"] + [None]
                return inner
            if idiom == "type": idiom = "oneOf"
            return {idiom: [inner, {"type": "null"}]}
        if k == "vec": return {"type": "array", "items": self.p(t["t"])}
        if k == "set": return {"type": "array", "items": self.p(t["t"]), "uniqueItems": True}
        if k == "arr": return {"type": "array", "items": self.p(t["t"]), "maxItems": t["n"], "minItems": t["n"]}
        if k == "tuple":
            return {"type": "array", "items": [self.p(x) for x in t["ts"]],
                    "maxItems": len(t["ts"]), "minItems": len(t["ts"])}
        if k == "map":
            if t.get("via") == "patternProperties":
                return {"type": "object", "patternProperties": {t["keys"]["pattern"]: self.p(t["t"])}, "additionalProperties": False}
            v = self.p(t["t"])
            m = {"type": "object", "additionalProperties": v}
            if t.get("keys"): m["propertyNames"] = dict({"type": "string"}, **t["keys"])
            return m
        if k == "struct":
            ps = self.p_struct(t["props"], t["closed"])
            if t.get("req_extra"): ps["required"] = ps.get("required", []) + list(t["req_extra"])
            if t.get("addl") is not None: ps["additionalProperties"] = self.p(t["addl"])
            return ps
        if k == "allof": return {"allOf": [self.p(x) for x in t["parts"]]}
        if k == "enum": return self.p_enum(t)
        raise AssertionError(k)

    def p_prop(self, pr):
        s = self.p(pr["t"])
        if pr.get("desc") and isinstance(s, dict): s = dict(s, description=pr["desc"])
        if pr["state"] == "default":
            if isinstance(s, dict) and "$ref" in s: s = {"allOf": [s]}
            if s is True: s = {}
            self.pending_defaults.append(s)
        return s

    def p_struct(self, props, closed, extra_props=None, extra_required=()):
        s = {"type": "object"}
        pp = dict(extra_props or {})
        req = list(extra_required)
        for pr in props:
            pp[pr["name"]] = self.p_prop(pr)
            if pr["state"] in ("required", "required_nullable"): req.append(pr["name"])
        if pp: s["properties"] = pp
        if req: s["required"] = req
        if closed: s["additionalProperties"] = False
        if self.has("titles") and extra_props is None and self.rng.random() < 0.3:
            self.tcount += 1
            s["title"] = "Titled%d" % self.tcount
        return s

    def payload(self, v):
        if v["shape"] == "newtype": return self.p(v["t"])
        if v["shape"] == "tuple":
            return {"type": "array", "items": [self.p(x) for x in v["ts"]],
                    "maxItems": len(v["ts"]), "minItems": len(v["ts"])}
        if v["shape"] == "struct": return self.p_struct(v["props"], v.get("closed", False), extra_props={})
        raise AssertionError(v["shape"])

    def p_enum(self, t):
        tg, out = t["tagging"], []
        if tg == "untagged":
            return {t["comb"]: [self.p(v["t"]) for v in t["variants"]]}
        if tg == "external":
            units = [v["name"] for v in t["variants"] if v["shape"] == "unit"]
            grouped = self.has("grouped_units") and len(units) > 1 and self.rng.random() < 0.5
            if grouped: out.append({"type": "string", "enum": units})
            for v in t["variants"]:
                if v["shape"] == "unit":
                    if not grouped: out.append(self.enum1(v["name"]))
                else:
                    out.append({"type": "object", "required": [v["name"]],
                                "properties": {v["name"]: self.payload(v)}, "additionalProperties": False})
        elif tg == "internal":
            for v in t["variants"]:
                tagp = {t["tag"]: self.enum1(v["name"])}
                if v["shape"] == "unit": out.append({"type": "object", "properties": tagp, "required": [t["tag"]]})
                else: out.append(self.p_struct(v["props"], v.get("closed", False), tagp, [t["tag"]]))
        elif tg == "adjacent":
            for v in t["variants"]:
                tagp = {t["tag"]: self.enum1(v["name"])}
                if v["shape"] == "unit":
                    out.append({"type": "object", "properties": tagp, "required": [t["tag"]]})
                else:
                    tagp[t["content"]] = self.payload(v)
                    out.append({"type": "object", "properties": tagp, "required": [t["tag"], t["content"]]})
        return {t["comb"]: out}


_WRONG = ["not-a-valid-default", 123456789, True, -1.5, [], {}, None, [1, "x"], {"zz": 1}]
# integers that a bounded / formatted integer schema does not admit: just outside typical bounds, beyond i64 and at u64::MAX
_WRONG_INTS = [-1, 256, 65536, -129, 4294967296, 2**63, 2**64 - 1, -2**63 - 1, 1000001, -1000001]

def _deref_type(doc, schema, fuel=8):
    """the `type` a schema (through $ref / single allOf / nullable spelling) gives its instances, or None"""
    while isinstance(schema, dict) and fuel > 0:
        fuel -= 1
        t = schema.get("type")
        if isinstance(t, list):
            t = [x for x in t if x != "null"]
            t = t[0] if len(t) == 1 else None
        if t: return t
        if "$ref" in schema:
            try: schema = resolve_ref(doc, schema["$ref"])
            except Exception: return None
        elif isinstance(schema.get("allOf"), list) and len(schema["allOf"]) == 1: schema = schema["allOf"][0]
        else: return None
    return None


def gen_universe_ex(rng, size, features=None):
    """-> (doc, meta). `size` ~ number of definitions (1..8 is sensible). meta = {"universe": IR,
    "features": sorted list, "invalid_defaults": [json pointers of deliberately invalid defaults],
    "idioms": [log of idiom mutations applied]}"""
    F = frozenset(DEFAULT_FEATURES if features is None else features)
    unknown = F - ALL_FEATURES
    if unknown: raise ValueError("unknown features: %s" % sorted(unknown))
    uni = _Universe(rng, size, F)
    ir = uni.build()
    pr = _Printer(rng, F, ir)
    root = pr.p(ir["root"])
    if root is True: root = {}
    doc = {"$schema": DRAFT7, "title": "Root"}
    doc.update(root)
    doc["definitions"] = {}
    named_default = []
    for name, t in ir["defs"]:
        s = pr.p(t)
        if s is True: s = {}
        doc["definitions"][name] = s
        if "def_descriptions" in F and isinstance(s, dict) and "$ref" not in s and rng.random() < 0.4:
            s["description"] = "the %s" % name
        if "defaults" in F and t["k"] in ("strenum", "str", "int", "bool", "num", "struct", "vec", "map", "tuple", "enum") \
                and rng.random() < 0.25 and "$ref" not in s:
            named_default.append(s)
    meta = {"universe": ir, "features": sorted(F), "invalid_defaults": [], "idioms": []}
    # defaults are generated from the finished document (they may need $ref resolution)
    for s in named_default + pr.pending_defaults:
        body = {k: v for k, v in s.items() if k != "default"}
        try:
            s["default"] = gen_valid(rng, doc, body, depth=2)
        except (Unsat, RecursionError):      # unsatisfiable, or a merge of mutually referring allOf definitions: no default
            continue
        # a property-level default that is the ZERO value of the referenced type while the type has a default of its own
        if s in pr.pending_defaults and rng.random() < 0.5:
            refs = [x["$ref"] for x in s.get("allOf", []) if isinstance(x, dict) and "$ref" in x] if "allOf" in s else []
            tgt = resolve_ref(doc, refs[0]) if len(refs) == 1 else None
            if isinstance(tgt, dict) and "default" in tgt:
                for z in ("", 0, False, [], {}):
                    if canon(z) != canon(tgt["default"]) and lite_valid(doc, body, z):
                        s["default"] = z; break
    if "invalid_defaults" in F:
        for ptr, body, d in find_defaults(doc):
            if rng.random() < 0.4:
                bad = [w for w in _WRONG + _WRONG_INTS if not lite_valid(doc, body, w)]
                ints = [w for w in bad if isinstance(w, int) and not isinstance(w, bool)]
                if ints and _deref_type(doc, body) == "integer" and rng.random() < 0.6: bad = ints     # keep the JSON type: only the range is wrong
                if bad:
                    doc = ptr_set(doc, ptr + "/default", rng.choice(bad))
                    meta["invalid_defaults"].append(ptr + "/default")
    if "idioms" in F:
        doc, log = mutate_idioms(rng, doc, rng.randint(0, 4),
                                 kinds=[k for k in IDIOM_KINDS if k != "title"])
        meta["idioms"] = log
    return doc, meta


def gen_universe(rng, size, features=None):
    """Type-directed JSON Schema (draft-07, schemars 0.8 layout) for a random universe of Rust-like
    types. `features` is a set of strings from ALL_FEATURES (None = DEFAULT_FEATURES)."""
    return gen_universe_ex(rng, size, features)[0]


def iter_schemas(schema, ptr=""):
    """every subschema position (pointer, schema) of a schema document, pre-order"""
    yield ptr, schema
    if not isinstance(schema, dict): return
    for key in ("properties", "definitions", "$defs", "patternProperties"):
        if isinstance(schema.get(key), dict):
            for k, s in schema[key].items():
                yield from iter_schemas(s, ptr_join(ptr + "/" + key, k))
    for key in ("additionalProperties", "additionalItems", "not", "contains", "propertyNames", "if", "then", "else"):
        if isinstance(schema.get(key), (dict, bool)) and key in schema:
            yield from iter_schemas(schema[key], ptr + "/" + key)
    it = schema.get("items")
    if isinstance(it, list):
        for i, s in enumerate(it): yield from iter_schemas(s, "%s/items/%d" % (ptr, i))
    elif isinstance(it, (dict, bool)):
        yield from iter_schemas(it, ptr + "/items")
    for key in ("allOf", "anyOf", "oneOf"):
        if isinstance(schema.get(key), list):
            for i, s in enumerate(schema[key]): yield from iter_schemas(s, "%s/%s/%d" % (ptr, key, i))
    if isinstance(schema.get("dependencies"), dict):
        for k, s in schema["dependencies"].items():
            if isinstance(s, (dict, bool)): yield from iter_schemas(s, ptr_join(ptr + "/dependencies", k))


def find_defaults(doc):
    """[(pointer of the schema carrying `default`, that schema without `default`, the default)]"""
    out = []
    for ptr, s in iter_schemas(doc):
        if isinstance(s, dict) and "default" in s:
            out.append((ptr, {k: v for k, v in s.items() if k != "default"}, s["default"]))
    return out


def inline_refs(doc):
    """the root schema of `doc` with every `#/definitions/X` reference replaced by the definition's body (titles dropped so that
    the in-line copies get derived names): ONE schema without definitions, for the add_type / add_type_with_name route.
    None when the document is recursive or refers to the root."""
    defs = doc.get("definitions") or {}
    class Cyclic(Exception): pass
    def go(s, stack):
        if isinstance(s, list): return [go(x, stack) for x in s]
        if not isinstance(s, dict): return s
        if "$ref" in s:
            r = s["$ref"]
            if not r.startswith("#/definitions/"): raise Cyclic()
            n = ptr_unescape(r[len("#/definitions/"):])
            if n in stack or n not in defs: raise Cyclic()
            body = go(defs[n], stack + [n])
            if body is True: body = {}
            body = {k: v for k, v in body.items() if k != "title"} if isinstance(body, dict) else body
            rest = {k: go(v, stack) for k, v in s.items() if k != "$ref"}
            if not rest: return body
            return dict(rest, allOf=[body] + list(rest.get("allOf", []))) if isinstance(body, dict) else rest
        return {k: (go(v, stack) if k not in ("default", "enum", "const", "required") else v) for k, v in s.items()}
    try:
        return go({k: v for k, v in doc.items() if k not in ("definitions", "$schema")}, [])
    except (Cyclic, RecursionError):
        return None


def respell_integer_defaults(rng, doc, p=0.7):
    """the same document with integers INSIDE `default` values written as floats with a zero fraction (3 -> 3.0): the same JSON
    number, so every default stays exactly as valid as it was. -> (doc, number of respelled integers)"""
    n = [0]
    def resp(v):
        if isinstance(v, bool): return v
        if isinstance(v, int) and abs(v) < 2**53 and rng.random() < p: n[0] += 1; return float(v)
        if isinstance(v, list): return [resp(x) for x in v]
        if isinstance(v, dict): return {k: resp(x) for k, x in v.items()}
        return v
    doc = copy.deepcopy(doc)
    for ptr, _, d in find_defaults(doc):
        doc = ptr_set(doc, ptr + "/default", resp(d))
    return doc, n[0]


# --------------------------------------------------------------------------- instance generation
STATS = {"gen_retries": 0, "gen_calls": 0}
_STRUCT_KEYS = {"type", "enum", "const", "properties", "required", "additionalProperties", "items",
                "additionalItems", "minItems", "maxItems", "uniqueItems", "minLength", "maxLength",
                "pattern", "minimum", "maximum", "exclusiveMinimum", "exclusiveMaximum", "multipleOf",
                "allOf", "anyOf", "oneOf", "not", "$ref", "format", "minProperties", "maxProperties",
                "patternProperties", "propertyNames", "contains", "dependencies", "if", "then", "else"}
INF = 10**6


def is_any(schema):
    """schema without any validation keyword (accepts every value)"""
    return schema is True or (isinstance(schema, dict) and not (_STRUCT_KEYS & schema.keys()))


def _accepts_null_syntactically(s):
    t = s.get("type")
    return (t == "null" or (isinstance(t, list) and "null" in t)) and "enum" not in s and "const" not in s


class _Heights:
    """least number of $ref unfoldings any instance of a schema needs (INF when none exists)"""
    def __init__(self, doc):
        self.doc, self.ref = doc, {}
        refs = set()
        for _, s in iter_schemas(doc):
            if isinstance(s, dict) and isinstance(s.get("$ref"), str): refs.add(s["$ref"])
        for r in refs: self.ref[r] = INF
        for _ in range(len(refs) + 2):
            changed = False
            for r in refs:
                try: h = self.h(resolve_ref(doc, r))
                except KeyError: h = INF
                h = min(INF, h + 1)
                if h < self.ref[r]: self.ref[r] = h; changed = True
            if not changed: break

    def h(self, s, fuel=40):
        if s is True: return 0
        if s is False: return INF
        if not isinstance(s, dict) or fuel <= 0: return 0
        if "$ref" in s:
            r = s["$ref"]
            if r not in self.ref:      # a reference that does not occur inside the document itself
                self.ref[r] = INF
                try: self.ref[r] = min(INF, 1 + self.h(resolve_ref(self.doc, r), fuel - 1))
                except KeyError: pass
            return self.ref[r]
        if "const" in s or "enum" in s: return 0
        hs = [0]
        if "allOf" in s: hs += [self.h(x, fuel - 1) for x in s["allOf"]]
        for comb in ("anyOf", "oneOf"):
            if comb in s and s[comb]: hs.append(min(self.h(x, fuel - 1) for x in s[comb]))
        if _accepts_null_syntactically(s) and len(hs) == 1: return 0
        t = s.get("type")
        ts = t if isinstance(t, list) else [t]
        if t is None or "object" in ts:
            props = s.get("properties", {})
            o = [self.h(props[r], fuel - 1) for r in s.get("required", []) if r in props]
            if t is None or ts == ["object"] or True: hs += o
        if (t is None or "array" in ts) and s.get("minItems", 0) > 0:
            it = s.get("items")
            if isinstance(it, list): hs += [self.h(x, fuel - 1) for x in it[:s["minItems"]]]
            elif it is not None: hs.append(self.h(it, fuel - 1))
        return min(INF, max(hs))


_MERGE_MAX = {"minLength", "minimum", "minItems", "minProperties", "exclusiveMinimum"}
_MERGE_MIN = {"maxLength", "maximum", "maxItems", "maxProperties", "exclusiveMaximum"}
_META = {"title", "description", "default", "$schema", "definitions", "$defs", "$comment", "$id", "examples"}


def merge_allof(doc, schemas):
    """conjunction of schemas as one schema where that is syntactically possible (object members,
    bounds, type/enum intersection); what cannot be merged stays in a residual "allOf"."""
    out, residual, closed_sets = {}, [], []
    work = list(schemas)
    fuel = 4000
    while work:
        fuel -= 1
        if fuel <= 0: raise Unsat("allOf does not bottom out (alias cycle)")
        s = deref(doc, work.pop(0))
        if s is True: continue
        if s is False: raise Unsat("false in allOf")
        s = dict(s)
        if "allOf" in s: work = list(s.pop("allOf")) + work
        if s.get("additionalProperties") is False: closed_sets.append(set(s.get("properties", {})))
        for k, v in s.items():
            if k in _META:
                out.setdefault(k, v); continue
            if k not in out:
                out[k] = copy.deepcopy(v); continue
            a = out[k]
            if k == "properties":
                for pn, ps in v.items():
                    if pn not in a or canon(a[pn]) == canon(ps): a[pn] = ps
                    else: a[pn] = {"allOf": [a[pn], ps]}
            elif k == "required": out[k] = a + [x for x in v if x not in a]
            elif k == "additionalProperties":
                if a is False or v is False: out[k] = False
                elif a is True or is_any(a): out[k] = v
                elif v is True or is_any(v): pass
                elif canon(a) != canon(v): out[k] = {"allOf": [a, v]}
            elif k == "type":
                la = a if isinstance(a, list) else [a]
                lv = v if isinstance(v, list) else [v]
                def sub(x, ys): return x in ys or (x == "integer" and "number" in ys)
                inter = [x for x in la if sub(x, lv)] + [x for x in lv if sub(x, la) and x not in la]
                if "number" in inter and "integer" in inter: inter.remove("number")
                if not inter: raise Unsat("disjoint types in allOf")
                out[k] = inter[0] if len(inter) == 1 else inter
            elif k == "enum":
                out[k] = [x for x in a if any(jeq(x, y) for y in v)]
                if not out[k]: raise Unsat("disjoint enums in allOf")
            elif k == "items":
                # positional item schemas are intersected position by position, a single item schema with every position
                if isinstance(a, list) or isinstance(v, list):
                    la = a if isinstance(a, list) else None; lv = v if isinstance(v, list) else None
                    n = max(len(la or []), len(lv or []))
                    def at(l, single, i): return (l[i] if i < len(l) else True) if l is not None else single
                    its = []
                    for i in range(n):
                        x, y = at(la, a, i), at(lv, v, i)
                        its.append(x if (y is True or is_any(y) or canon(x) == canon(y)) else (y if (x is True or is_any(x)) else {"allOf": [x, y]}))
                    out[k] = its
                elif canon(a) != canon(v):
                    out[k] = v if (a is True or is_any(a)) else (a if (v is True or is_any(v)) else {"allOf": [a, v]})
            elif k in _MERGE_MAX: out[k] = max(a, v)
            elif k in _MERGE_MIN: out[k] = min(a, v)
            elif canon(a) == canon(v): pass
            else: residual.append({k: v})
    if closed_sets:
        allowed = set.intersection(*closed_sets)
        for r in out.get("required", []):
            if r not in allowed: raise Unsat("required member excluded by a closed branch")
        if "properties" in out: out["properties"] = {k: v for k, v in out["properties"].items() if k in allowed}
        out["additionalProperties"] = False
    if residual: out["allOf"] = residual
    return out


class _Gen:
    def __init__(self, rng, doc, mode="random"):
        self.rng, self.doc, self.mode = rng, doc, mode
        # "all_present@k": every optional member present, and the k-th inhabited branch of every union (first attempt)
        self.branch = None
        if mode.startswith("all_present@"): self.branch = int(mode.split("@")[1]); self.mode = "all_present"
        self.H = _Heights(doc)
        # work bound: retries multiply through nested unions / allOf (whose depth does not decrease), so a document on which
        # the generator keeps failing (alias cycles, unsatisfiable compositions) would otherwise cost exponential time
        self.steps = 0; self.budget = 200000

    def coin(self, p): return self.rng.random() < p

    def gen(self, s, depth):
        rng, mode = self.rng, self.mode
        self.steps += 1
        if self.steps > self.budget: raise Unsat("generator work bound reached")
        if s is True: return self.any_value(depth)
        if s is False: raise Unsat("false schema")
        if not isinstance(s, dict): raise Unsat("not a schema")
        if "$ref" in s:
            try: tgt = resolve_ref(self.doc, s["$ref"])
            except KeyError as e: raise Unsat(str(e))
            if self.H.h(s) >= INF: raise Unsat("uninhabited reference " + s["$ref"])
            return self.gen(tgt, depth - 1)
        if "allOf" in s:
            rest = {k: v for k, v in s.items() if k != "allOf"}
            m = merge_allof(self.doc, [rest] + list(s["allOf"]))
            residual = m.pop("allOf", None)
            for _ in range(6):
                v = self.gen(m, depth)
                if residual is None or lite_valid(self.doc, s, v): return v
            raise Unsat("could not satisfy allOf")
        for comb in ("oneOf", "anyOf"):
            if comb in s:
                rest = {k: v for k, v in s.items() if k != comb and k not in _META}
                branches = list(s[comb])
                if not branches: raise Unsat("empty " + comb)
                hs = [self.H.h(b) for b in branches]
                ok = [i for i, h in enumerate(hs) if h < INF]
                if not ok: raise Unsat("no inhabited branch")
                low = min(hs[i] for i in ok)
                for attempt in range(8):
                    if depth <= 0 or mode == "min": cand = [i for i in ok if hs[i] == low]
                    else: cand = [i for i in ok if hs[i] <= max(low, depth)] or ok
                    # do not pick the null branch too often
                    nn = [i for i in cand if not (isinstance(branches[i], dict) and branches[i].get("type") == "null")]
                    if nn and len(nn) < len(cand) and depth > 0 and mode != "min" and not self.coin(0.25): cand = nn
                    i = rng.choice(cand)
                    if self.branch is not None and attempt == 0 and depth > 0: i = ok[self.branch % len(ok)]
                    try:
                        b = branches[i]
                        v = self.gen({"allOf": [rest, b]} if rest else b, depth)
                    except Unsat:
                        continue
                    if comb == "anyOf" or lite_valid(self.doc, s, v): return v
                raise Unsat("could not satisfy " + comb)
        if "not" in s:
            rest = {k: v for k, v in s.items() if k != "not"}
            for _ in range(20):
                v = self.gen(rest if not is_any(rest) else {"type": "string"}, depth)
                if not lite_valid(self.doc, s["not"], v): return v
            raise Unsat("could not avoid `not`")
        if "const" in s: return copy.deepcopy(s["const"])
        if "enum" in s:
            rest = {k: v for k, v in s.items() if k != "enum"}
            ok = [e for e in s["enum"] if lite_valid(self.doc, rest, e)]
            if not ok: raise Unsat("no enum value satisfies the rest of the schema")
            nn = [e for e in ok if e is not None]
            if nn and not (self.coin(0.2) or mode == "min"): ok = nn
            if mode == "min": return copy.deepcopy(ok[0])
            if mode == "max": return copy.deepcopy(ok[-1])
            return copy.deepcopy(rng.choice(ok))
        t = s.get("type")
        if isinstance(t, list):
            ts = list(t)
            if not ts: raise Unsat("empty type list")
            if "null" in ts and len(ts) > 1:
                if mode == "min" or depth <= 0 or self.coin(0.2): return None
                ts.remove("null")
            t = rng.choice(ts)
        if t is None: t = self.infer_type(s)
        if t is None: return self.any_value(depth)
        if t == "null": return None
        if t == "boolean": return {"min": False, "max": True}.get(mode, self.coin(0.5))
        if t == "string": return _gen_string(rng, s, mode)
        if t == "integer": return self.gen_int(s)
        if t == "number": return self.gen_num(s)
        if t == "array": return self.gen_array(s, depth)
        if t == "object": return self.gen_object(s, depth)
        raise Unsat("unknown type %r" % (t,))

    @staticmethod
    def infer_type(s):
        if {"properties", "required", "additionalProperties", "minProperties", "maxProperties", "patternProperties"} & s.keys(): return "object"
        if {"items", "minItems", "maxItems", "uniqueItems"} & s.keys(): return "array"
        if {"minLength", "maxLength", "pattern"} & s.keys(): return "string"
        if s.get("format") in INT_FORMATS: return "integer"
        if s.get("format") in ("float", "double"): return "number"
        if {"minimum", "maximum", "multipleOf", "exclusiveMinimum", "exclusiveMaximum"} & s.keys(): return "number"
        if "format" in s: return "string"
        return None

    def any_value(self, depth):
        c = [None, True, 0, -7, 1.5, "", "text", [], {}]
        if depth > 0: c += [[1, "a", None], {"k": [True]}, {"a": {"b": 1}}]
        return copy.deepcopy(self.rng.choice(c))

    def gen_int(self, s):
        rng, mode = self.rng, self.mode
        lo, hi = int_bounds(s)
        if lo is not None and hi is not None and lo > hi: raise Unsat("empty integer range")
        mo = s.get("multipleOf")
        elo = lo if lo is not None else -2**63
        ehi = hi if hi is not None else 2**63 - 1
        if ehi < elo: ehi = elo
        if mode == "min": v = elo
        elif mode == "max": v = ehi
        else:
            r = rng.random()
            if r < 0.08: v = elo
            elif r < 0.16: v = ehi
            elif r < 0.75: v = rng.randint(max(elo, -100), min(ehi, 100)) if max(elo, -100) <= min(ehi, 100) else rng.randint(elo, ehi)
            else: v = rng.randint(elo, ehi)
        if mo and isinstance(mo, int) and mo > 0:
            v = (v // mo) * mo
            if v < elo: v += mo
            if v > ehi: raise Unsat("no multiple in range")
        return v

    def gen_num(self, s):
        rng, mode = self.rng, self.mode
        lo, hi = s.get("minimum"), s.get("maximum")
        xlo, xhi = s.get("exclusiveMinimum"), s.get("exclusiveMaximum")
        if _isnum(xlo): lo = xlo + 0.25 if lo is None else max(lo, xlo + 0.25)
        if _isnum(xhi): hi = xhi - 0.25 if hi is None else min(hi, xhi - 0.25)
        elo = lo if lo is not None else -1048576.25
        ehi = hi if hi is not None else 1048576.5
        if ehi < elo: raise Unsat("empty number range")
        if mode == "min": return elo
        if mode == "max": return ehi
        for _ in range(10):
            v = rng.randint(-4000, 4000) / 4.0 if self.coin(0.8) else rng.randint(-2**22, 2**22) / 8.0
            if elo <= v <= ehi: return v
        return elo + (ehi - elo) / 2 if (ehi - elo) < 1 else float(math.ceil(elo))

    def gen_array(self, s, depth):
        rng, mode = self.rng, self.mode
        lo, hi = s.get("minItems", 0), s.get("maxItems")
        it = s.get("items")
        if isinstance(it, list):
            n = len(it)
            if hi is not None: n = min(n, hi)
            if mode == "min" or depth <= 0: n = min(n, lo)
            n = max(n, min(lo, len(it)))
            out = [self.gen(it[i], depth - 1) for i in range(n)]
            while len(out) < lo:
                out.append(self.gen(s.get("additionalItems", True), depth - 1))
            return out
        if hi is not None and lo > hi: raise Unsat("empty array length range")
        if mode in ("min", "empty_present") or depth <= 0: n = lo
        elif mode == "max": n = hi if hi is not None else lo + 3
        else: n = rng.randint(lo, min(hi, lo + 3) if hi is not None else lo + 3)
        if it is None: it = True
        if n > 0 and self.H.h(it) >= INF: raise Unsat("uninhabited items")
        out = []
        tries = 0
        while len(out) < n and tries < 10 * n + 10:
            tries += 1
            x = self.gen(it, depth - 1)
            if s.get("uniqueItems") and any(jeq(x, y) for y in out): continue
            out.append(x)
        if len(out) < lo: raise Unsat("not enough distinct items")
        return out

    def gen_object(self, s, depth):
        rng, mode = self.rng, self.mode
        props = s.get("properties", {})
        req = list(s.get("required", []))
        out = {}
        for k in req:
            if k in props: out[k] = self.gen(props[k], depth - 1)
            else:
                ap = s.get("additionalProperties", True)
                if ap is False: raise Unsat("required member not allowed")
                out[k] = self.gen(ap, depth - 1)
        for k, ps in props.items():
            if k in out: continue
            if mode in ("min", "all_omitted") or depth <= 0: continue
            if self.H.h(ps) >= max(depth, 1) and self.H.h(ps) > 0: continue
            if mode in ("max", "all_present", "empty_present") or self.coin(0.6):
                try: out[k] = self.gen(ps, depth - 1)
                except Unsat: pass
        ap = s.get("additionalProperties")
        minp, maxp = s.get("minProperties", 0), s.get("maxProperties")
        want = 0
        if isinstance(ap, dict) and not (depth <= 0 or mode in ("min", "all_omitted", "empty_present")):
            want = 3 if mode == "max" else rng.randint(0, 3)
            if self.H.h(ap) >= INF: want = 0
        want = max(want, minp - len(out))
        if maxp is not None: want = min(want, maxp - len(out))
        if want > 0:
            if ap is False: raise Unsat("minProperties unreachable")
            aps = True if ap is None else ap
            keys = ["k%d" % i for i in range(1, 12)]
            if mode in ("multibyte", "max"): keys = ["cl\u00e9", "\u65e5\u672c", "k \U0001F600"] + keys
            elif self.coin(0.3): keys = ["key-%d" % rng.randint(0, 99), "Some Key", "\u00fcber"] + keys
            pats = s.get("patternProperties", {})
            pn0 = s.get("propertyNames")
            if isinstance(pn0, dict) and not is_any(pn0):
                # member names are constrained: generate them from the propertyNames schema
                keys = []
                for _ in range(4 * want):
                    try: k = self.gen(dict(pn0, type=pn0.get("type", "string")) if "$ref" not in pn0 else pn0, depth - 1)
                    except Unsat: break
                    if isinstance(k, str): keys.append(k)
            for k in keys:
                if want <= 0: break
                if k in props or k in out: continue
                if any(re.search(ecma_to_py(p), k) for p in pats): continue
                pn = s.get("propertyNames")
                if pn is not None and not lite_valid(self.doc, pn, k): continue
                out[k] = self.gen(aps, depth - 1); want -= 1
        return out


def gen_valid(rng, doc, schema, depth=3, mode="random"):
    """A value valid for `schema` (a subschema of `doc`, refs resolved against `doc`). Valid by
    construction on generated universes; for arbitrary documents the result is re-checked with
    lite_valid and regenerated a few times (STATS counts this). At depth <= 0 only the least
    recursive alternatives are taken (null, empty array/object, optional members omitted).
    Raises Unsat when the schema has no instance or lies outside the supported fragment."""
    STATS["gen_calls"] += 1
    g = _Gen(rng, doc, mode)
    last = None
    outer = _IN_GEN[0] == 0
    if outer: _LV_STEPS[0] = 0
    _IN_GEN[0] += 1
    try:
        for attempt in range(6):
            try:
                v = g.gen(schema, depth)
            except Unsat as e:
                last = e
                if attempt >= 2: raise
                continue
            if lite_valid(doc, schema, v): return v
            STATS["gen_retries"] += 1
        raise Unsat("generated instances failed the self check" if last is None else str(last))
    finally:
        _IN_GEN[0] -= 1


BOUNDARY_MODES = ["min", "max", "all_omitted", "all_present", "multibyte", "empty_present", "all_present@0", "all_present@1", "all_present@2"]


def gen_boundary(rng, doc, schema, depth=3, float_ints=False):
    """Boundary instances, all valid: [(value, label)] with labels
    min (shortest strings incl. multi-byte, lower integer edges, empty containers, optionals omitted),
    max (longest strings built from multi-byte scalars so chars != bytes, upper integer edges,
    full containers, every optional present), all_omitted, all_present, multibyte, empty_present (every optional member
    present, every array / map as short as its schema allows: an explicitly empty container is not an absent one).
    float_ints adds a copy of `max` whose integers are written as integer-valued floats (1.0),
    which draft-07 counts as integers."""
    out, seen = [], set()
    for m in BOUNDARY_MODES:
        try:
            # (the branch-covering modes look deeper: the members of the members of a variant's payload are what differs)
            v = gen_valid(rng, doc, schema, depth + 3 if "@" in m else depth, mode=m)
        except (Unsat, RecursionError):
            continue
        c = canon(v)
        if c in seen: continue
        seen.add(c); out.append((v, m))
    if float_ints:
        for v, m in list(out):
            w = _floatify(v)
            if canon(w) != canon(v) and lite_valid(doc, schema, w):
                out.append((w, m + "+float_ints"))
                break
    return out


def _floatify(v):
    if isinstance(v, bool): return v
    if isinstance(v, int) and abs(v) < 2**53: return float(v)
    if isinstance(v, list): return [_floatify(x) for x in v]
    if isinstance(v, dict): return {k: _floatify(x) for k, x in v.items()}
    return v


# --------------------------------------------------------------------------- idiom mutations (meaning preserving)
IDIOM_KINDS = ["nullable", "enum_const", "description", "title", "allof_wrap", "reorder"]
_NULL = {"type": "null"}


def _is_null_schema(s): return isinstance(s, dict) and s.get("type") == "null" and not (_STRUCT_KEYS & s.keys() - {"type"})


def _nullable_form(doc, s):
    """('type'|'oneOf'|'anyOf', inner schema) when s is one of the three Option idioms"""
    if not isinstance(s, dict): return None
    t = s.get("type")
    if isinstance(t, list) and len(t) == 2 and "null" in t and not ({"oneOf", "anyOf", "allOf", "not", "$ref", "const"} & s.keys()):
        inner = {k: v for k, v in s.items() if k not in _META}
        inner["type"] = [x for x in t if x != "null"][0]
        if "enum" in inner:
            if not any(e is None for e in inner["enum"]): return None     # null is not actually admitted
            inner["enum"] = [e for e in inner["enum"] if e is not None]
        return "type", inner
    for comb in ("oneOf", "anyOf"):
        if comb in s and len(s[comb]) == 2 and not (_STRUCT_KEYS & s.keys() - {comb}):
            a, b = s[comb]
            if _is_null_schema(b) and not _is_null_schema(a): return comb, a
            if _is_null_schema(a) and not _is_null_schema(b): return comb, b
    return None


def idiom_sites(doc, kinds=None):
    """[(kind, pointer)] of every place an idiom mutation applies"""
    kinds = IDIOM_KINDS if kinds is None else kinds
    out = []
    for ptr, s in iter_schemas(doc):
        if not isinstance(s, dict): continue
        if "nullable" in kinds:
            nf = _nullable_form(doc, s)
            if nf is not None:
                try:
                    if not lite_valid(doc, nf[1], None): out.append(("nullable", ptr))
                except KeyError: pass
        if "enum_const" in kinds and (("enum" in s and len(s["enum"]) == 1) or "const" in s):
            out.append(("enum_const", ptr))
        if "description" in kinds and ptr != "": out.append(("description", ptr))
        if "title" in kinds and ptr != "" and "title" not in s and "/definitions/" in ptr + "/" and ptr.count("/") > 2:
            out.append(("title", ptr))
        if "allof_wrap" in kinds and ptr != "" and not ptr.endswith("/not"): out.append(("allof_wrap", ptr))
        if "reorder" in kinds and (any(len(s.get(c, [])) > 1 for c in ("oneOf", "anyOf", "allOf", "required"))
                                   or len(s.get("properties", {})) > 1):
            out.append(("reorder", ptr))
    return out


def apply_idiom(doc, kind, ptr, rng):
    """a new document with one meaning-preserving rewrite at ptr; the set of valid instances of the
    document and of every definition is unchanged"""
    s = copy.deepcopy(ptr_get(doc, ptr))
    meta = {k: v for k, v in s.items() if k in _META} if isinstance(s, dict) else {}
    if kind == "nullable":
        form, inner = _nullable_form(doc, s)
        simple = isinstance(inner, dict) and isinstance(inner.get("type"), str) and \
            not ({"oneOf", "anyOf", "allOf", "not", "$ref", "const"} & inner.keys())
        targets = [f for f in ("type", "oneOf", "anyOf") if f != form and (f != "type" or simple)]
        to = rng.choice(targets)
        if to == "type":
            new = dict(inner); new["type"] = [inner["type"], "null"]
            if "enum" in new: new["enum"] = new["enum"] + [None]
            for k, v in meta.items(): new.setdefault(k, v)
        else:
            inner = {k: v for k, v in inner.items()} if isinstance(inner, dict) else inner
            new = dict(meta); new[to] = [inner, dict(_NULL)]
    elif kind == "enum_const":
        new = dict(s)
        if "const" in new: new["enum"] = [new.pop("const")]
        else: new["const"] = new.pop("enum")[0]
    elif kind == "description":
        new = dict(s); new["description"] = rng.choice(["An annotation.", "multi\nline \"quoted\" {braces} text", "d"])
    elif kind == "title":
        new = dict(s); new["title"] = "Annotated%d" % rng.randint(0, 9999)
    elif kind == "allof_wrap":
        inner = {k: v for k, v in s.items() if k not in _META}
        new = dict(meta); new["allOf"] = [inner]
    elif kind == "reorder":
        new = dict(s)
        for c in ("oneOf", "anyOf", "allOf", "required"):
            if isinstance(new.get(c), list) and len(new[c]) > 1:
                l = list(new[c]); rng.shuffle(l); new[c] = l
        if len(new.get("properties", {})) > 1:
            ks = list(new["properties"]); rng.shuffle(ks)
            new["properties"] = {k: new["properties"][k] for k in ks}
    else:
        raise ValueError(kind)
    return ptr_set(doc, ptr, new)


def mutate_idioms(rng, doc, k=3, kinds=None):
    """apply up to k random idiom mutations -> (doc', [(kind, pointer)])"""
    log = []
    for _ in range(k):
        sites = idiom_sites(doc, kinds)
        # keep annotations from dominating
        heavy = [s for s in sites if s[0] in ("nullable", "enum_const", "reorder")]
        if heavy and rng.random() < 0.6: sites = heavy
        if not sites: break
        kind, ptr = rng.choice(sites)
        doc = apply_idiom(doc, kind, ptr, rng)
        log.append((kind, ptr))
    return doc, log


# --------------------------------------------------------------------------- C05 mutators
def value_sites(doc, schema, value, ptr=""):
    """[(pointer into value, schema applying there, subvalue)] - every (sub)schema that is
    applied to a (sub)value on a validating path ($ref resolved, valid union branches followed)"""
    out = []
    def walk(s, v, p, fuel):
        if not isinstance(s, dict) or fuel <= 0: return
        if "$ref" in s:
            try: return walk(resolve_ref(doc, s["$ref"]), v, p, fuel - 1)
            except KeyError: return
        out.append((p, s, v))
        for b in s.get("allOf", []): walk(b, v, p, fuel - 1)
        for comb in ("anyOf", "oneOf"):
            for b in s.get(comb, []):
                try:
                    if lite_valid(doc, b, v): walk(b, v, p, fuel - 1)
                except KeyError: pass
        if isinstance(v, dict):
            props = s.get("properties", {})
            ap = s.get("additionalProperties")
            for k, x in v.items():
                if k in props: walk(props[k], x, ptr_join(p, k), fuel - 1)
                elif isinstance(ap, dict): walk(ap, x, ptr_join(p, k), fuel - 1)
        if isinstance(v, list):
            it = s.get("items")
            for i, x in enumerate(v):
                if isinstance(it, list):
                    if i < len(it): walk(it[i], x, "%s/%d" % (p, i), fuel - 1)
                elif isinstance(it, dict): walk(it, x, "%s/%d" % (p, i), fuel - 1)
    walk(schema, value, ptr, 60)
    return out


def _fresh(base, taken):
    for suf in ("_x", "_xx", "X", "-2", "0", "_zz9"):
        if base + suf not in taken: return base + suf
    return base + "_unlikely_member_name"


def _cands_required(rng, doc, sites):
    for p, s, v in sites:
        if isinstance(v, dict):
            for k in s.get("required", []):
                if k in v:
                    ps = s.get("properties", {}).get(k, True)
                    try: nullable = lite_valid(doc, ps, None)
                    except KeyError: nullable = True
                    if not nullable:
                        yield ("del", ptr_join(p, k), None, "delete required non-nullable member %r" % k)


def _cands_additional(rng, doc, sites):
    for p, s, v in sites:
        if isinstance(v, dict) and s.get("additionalProperties") is False:
            k = _fresh("zz_extra", set(v) | set(s.get("properties", {})))
            if any(re.search(ecma_to_py(pt), k) for pt in s.get("patternProperties", {})): continue
            x = rng.choice([0, "x", None, True, {}])
            yield ("set", ptr_join(p, k), x, "add unknown member %r to a closed object" % k)


def _cands_enum(rng, doc, sites):
    for p, s, v in sites:
        if not ("enum" in s or "const" in s) or v is None or isinstance(v, (list, dict)): continue
        members = s["enum"] if "enum" in s else [s["const"]]
        def member(x): return any(jeq(x, m) for m in members)
        alts = []
        if isinstance(v, str):
            alts = [v + "_x", v.swapcase(), v.upper(), v.lower(), v + " ", " " + v, v[:-1], v + v[-1:], ""]
        elif isinstance(v, bool):
            alts = [not v]
        elif _isnum(v):
            nums = [m for m in members if _isnum(m)]
            alts = [max(nums) + 1, min(nums) - 1, v + 1000]
        alts = [a for a in alts if not member(a)]
        rng.shuffle(alts)
        for a in alts[:3]:
            yield ("set", p, a, "replace enum value %r by non-member %r" % (v, a))


def _cands_length(rng, doc, sites):
    for p, s, v in sites:
        if not isinstance(v, str) or "enum" in s or "const" in s: continue
        if s.get("format") in ("uuid", "date", "date-time", "ipv4", "ipv6", "ip", "time"): continue
        pat = s.get("pattern")
        if pat is not None and pat not in PATTERNS: continue
        pmin, pmax, g = (0, None, None) if pat is None else PATTERNS[pat][:3]
        if "maxLength" in s:
            n = s["maxLength"] + 1
            if pat is None:
                w = v + "".join(rng.choice(MULTIBYTE) for _ in range(n - len(v)))
            elif pmax is None or n <= pmax: w = g(rng, n)
            else: w = None
            if w is not None and len(w) == n:
                yield ("set", p, w, "maxLength %d crossed by one scalar value (%d chars, %d bytes)"
                       % (s["maxLength"], len(w), len(w.encode("utf-8"))))
        if s.get("minLength", 0) >= 1:
            n = s["minLength"] - 1
            if pat is None:
                w = "".join(rng.choice(MULTIBYTE) for _ in range(n)) if rng.random() < 0.5 else v[:n]
            elif n >= pmin and n >= 0: w = g(rng, n)
            else: w = None
            if w is not None and len(w) == n:
                yield ("set", p, w, "minLength %d missed by one scalar value (%d chars, %d bytes)"
                       % (s["minLength"], len(w), len(w.encode("utf-8"))))


def _cands_pattern(rng, doc, sites):
    for p, s, v in sites:
        pat = s.get("pattern")
        if isinstance(v, str) and pat in PATTERNS and "enum" not in s and len(v) > 0:
            w = PATTERNS[pat][3](rng, v)
            if len(w) == len(v) and not re.search(ecma_to_py(pat), w):
                yield ("set", p, w, "break pattern %s keeping the length: %r -> %r" % (pat, v, w))


def _cands_arity(rng, doc, sites):
    for p, s, v in sites:
        if isinstance(v, list) and "minItems" in s and s.get("minItems") == s.get("maxItems"):
            opts = []
            if v: opts.append(("set", p, v[:-1], "drop the last element of a %d-tuple/array" % len(v)))
            opts.append(("set", p, v + [copy.deepcopy(v[-1]) if v else None],
                         "append one element to a %d-tuple/array" % len(v)))
            rng.shuffle(opts)
            yield from opts


def _cands_type(rng, doc, sites, allow_null=False):
    for p, s, v in sites:
        if "type" not in s or v is None or isinstance(v, (list, dict)): continue
        ts = s["type"] if isinstance(s["type"], list) else [s["type"]]
        if isinstance(v, bool): alts = ["true" if v else "false", int(v)]
        elif isinstance(v, str):
            alts = [0, True]
            if re.fullmatch(r"-?[0-9]{1,15}", v): alts.insert(0, int(v))
        elif isinstance(v, int): alts = [str(v), v != 0]
        else: alts = [str(v), True]
        if allow_null: alts.append(None)
        alts = [a for a in alts if not any(_type_ok(t, a) for t in ts)]
        rng.shuffle(alts)
        for a in alts:
            yield ("set", p, a, "swap %s %r for %s %r" % (jtype(v), v, jtype(a), a))


def _single_string(s):
    """the string of a single-valued string enum/const schema, else None"""
    if not isinstance(s, dict): return None
    if "const" in s and isinstance(s["const"], str): return s["const"]
    if isinstance(s.get("enum"), list) and len(s["enum"]) == 1 and isinstance(s["enum"][0], str): return s["enum"][0]
    return None


def union_tags(doc, branches):
    """-> (tag property name or None, {external variant keys}, {unit/string values}) of a oneOf/anyOf"""
    bs = []
    for b in branches:
        try: bs.append(deref(doc, b))
        except KeyError: bs.append({})
    objs = [b for b in bs if isinstance(b, dict) and (b.get("type") == "object" or "properties" in b)]
    tag = None
    if objs:
        common = set(objs[0].get("properties", {}))
        for b in objs[1:]: common &= set(b.get("properties", {}))
        for c in sorted(common):
            if all(_single_string(deref(doc, b["properties"][c])) is not None and c in b.get("required", []) for b in objs):
                tag = c; break
    ext = set()
    for b in objs:
        pr = b.get("properties", {})
        if len(pr) == 1 and list(pr) == b.get("required", []): ext.add(list(pr)[0])
    units = set()
    for b in bs:
        if isinstance(b, dict):
            if isinstance(b.get("const"), str): units.add(b["const"])
            for e in b.get("enum", []) if isinstance(b.get("enum"), list) else []:
                if isinstance(e, str): units.add(e)
    return tag, ext, units


def _cands_tag(rng, doc, sites):
    for p, s, v in sites:
        for comb in ("oneOf", "anyOf"):
            if comb not in s: continue
            tag, ext, units = union_tags(doc, s[comb])
            if isinstance(v, dict) and tag is not None and isinstance(v.get(tag), str):
                vals = set()
                for b in s[comb]:
                    x = _single_string(deref(doc, deref(doc, b).get("properties", {}).get(tag, {})))
                    if x is not None: vals.add(x)
                alts = [_fresh(v[tag], vals), v[tag].swapcase(), ""]
                alts = [a for a in alts if a not in vals]
                others = sorted(vals - {v[tag]}); rng.shuffle(others)
                for a in alts[:2] + others[:1]:
                    yield ("set", ptr_join(p, tag), a, "alter tag %r: %r -> %r" % (tag, v[tag], a))
            elif isinstance(v, dict) and len(v) == 1 and list(v)[0] in ext and tag is None:
                k = list(v)[0]
                nk = _fresh(k, ext | units)
                yield ("rename", ptr_join(p, k), nk, "alter external tag (variant key) %r -> %r" % (k, nk))
                others = sorted(ext - {k}); rng.shuffle(others)
                for o in others[:1]:
                    yield ("rename", ptr_join(p, k), o, "alter external tag (variant key) %r -> other variant %r" % (k, o))
            elif isinstance(v, str) and v in units and (ext or len(units) > 1 or len(s[comb]) > 1):
                a = _fresh(v, units | ext)
                yield ("set", p, a, "alter unit variant %r -> %r" % (v, a))
                yield ("set", p, v.swapcase(), "alter unit variant %r -> %r" % (v, v.swapcase()))


def _apply(value, op, ptr, arg):
    if op == "del": return ptr_del(value, ptr)
    if op == "set":
        toks = ptr_split(ptr)
        if toks:
            parent = ptr_get(value, "/" + "/".join(ptr_escape(t) for t in toks[:-1]) if len(toks) > 1 else "")
            if isinstance(parent, dict) and toks[-1] not in parent:
                value = copy.deepcopy(value)
                ptr_get(value, "/" + "/".join(ptr_escape(t) for t in toks[:-1]) if len(toks) > 1 else "")[toks[-1]] = copy.deepcopy(arg)
                return value
        return ptr_set(value, ptr, arg)
    if op == "rename":
        toks = ptr_split(ptr)
        value = copy.deepcopy(value)
        parent = ptr_get(value, "/" + "/".join(ptr_escape(t) for t in toks[:-1]) if len(toks) > 1 else "")
        parent[arg] = parent.pop(toks[-1])
        return value
    raise ValueError(op)


def _mutator(cands):
    def m(rng, doc, schema, value, precheck=True, **kw):
        """-> (mutant, description, json-pointer of the change) or None when not applicable.
        With precheck (default) candidates that lite_valid still accepts under `schema` are skipped."""
        try:
            sites = value_sites(doc, schema, value)
            cs = list(cands(rng, doc, sites, **kw))
        except KeyError:
            return None
        # shuffle between sites, keep per-site preference order roughly
        rng.shuffle(cs)
        for op, ptr, arg, desc in cs:
            w = _apply(value, op, ptr, arg)
            if canon(w) == canon(value): continue
            if precheck:
                try:
                    if lite_valid(doc, schema, w): continue
                except KeyError: pass
            return w, desc, ptr
        return None
    return m


mut_required = _mutator(_cands_required)
mut_additional = _mutator(_cands_additional)
mut_enum = _mutator(_cands_enum)
mut_length = _mutator(_cands_length)
mut_pattern = _mutator(_cands_pattern)
mut_arity = _mutator(_cands_arity)
mut_type = _mutator(_cands_type)
mut_tag = _mutator(_cands_tag)
MUTATORS = [("required", mut_required), ("additional", mut_additional), ("enum", mut_enum),
            ("length", mut_length), ("pattern", mut_pattern), ("arity", mut_arity),
            ("type", mut_type), ("tag", mut_tag)]


def mutants(rng, doc, schema, value, precheck=True):
    """all applicable C05 mutants of one valid instance: [(mutator name, mutant, description, pointer)]"""
    out = []
    for name, m in MUTATORS:
        r = m(rng, doc, schema, value, precheck=precheck)
        if r is not None: out.append((name,) + r)
    return out


# --------------------------------------------------------------------------- C03 helpers
def only_declared(doc, schema, value):
    """True iff every object member occurring in `value` is declared by the schema applied at that
    position: named in `properties`, matched by `patternProperties`, or covered by a *schema-valued*
    `additionalProperties` (a map). Members admitted only because additionalProperties is absent/true
    are undeclared. Declarations are collected through $ref, allOf (all branches) and the valid
    branches of anyOf/oneOf. Positions governed by an unconstrained schema (true / {}) declare
    everything (the generated type keeps arbitrary JSON there); array items without `items` likewise."""
    def expand(schemas, v, fuel=40):
        out, work = [], list(schemas)
        while work and fuel > 0:
            fuel -= 1
            s = work.pop()
            try: s = deref(doc, s)
            except KeyError: continue
            if s is True: out.append(True); continue
            if not isinstance(s, dict): continue
            out.append(s)
            work += s.get("allOf", [])
            for comb in ("anyOf", "oneOf"):
                for b in s.get(comb, []):
                    try:
                        if lite_valid(doc, b, v): work.append(b)
                    except KeyError: pass
        return out
    def od(schemas, v, fuel):
        if fuel <= 0 or not isinstance(v, (dict, list)): return True
        ss = expand(schemas, v)
        if not ss or any(is_any(s) for s in ss): return True
        if isinstance(v, dict):
            for k, x in v.items():
                subs = []
                for s in ss:
                    hit = False
                    if k in s.get("properties", {}): subs.append(s["properties"][k]); hit = True
                    for pt, ps in s.get("patternProperties", {}).items():
                        if re.search(ecma_to_py(pt), k): subs.append(ps); hit = True
                    ap = s.get("additionalProperties")
                    if not hit and isinstance(ap, dict): subs.append(ap)
                if not subs: return False
                if not od(subs, x, fuel - 1): return False
            return True
        for i, x in enumerate(v):
            subs = []
            for s in ss:
                it = s.get("items")
                if isinstance(it, list):
                    if i < len(it): subs.append(it[i])
                    elif isinstance(s.get("additionalItems"), dict): subs.append(s["additionalItems"])
                elif isinstance(it, dict): subs.append(it)
            if subs and not od(subs, x, fuel - 1): return False
        return True
    return od([schema], value, 60)


def _empty(v): return v is None or v == [] or v == {}


def prune(value, deep=True):
    """Drop object members whose value is null / [] / {} , recursively. Array elements are pruned
    inside but never dropped (positions matter for the element-wise comparison). deep=True (default)
    works bottom-up, so a member that *becomes* empty by pruning is dropped too and prune is
    idempotent; deep=False only drops members that are literally null/[]/{}."""
    if isinstance(value, dict):
        out = {}
        for k, x in value.items():
            if not deep and _empty(x): continue
            y = prune(x, deep)
            if deep and _empty(y): continue
            out[k] = y
        return out
    if isinstance(value, list): return [prune(x, deep) for x in value]
    return value


def contained(a, b):
    """a is contained in b: objects by member (b may have more members), arrays element-wise with
    equal length, numbers numerically (1 == 1.0; booleans are not numbers), other scalars equal."""
    if isinstance(a, dict):
        return isinstance(b, dict) and all(k in b and contained(x, b[k]) for k, x in a.items())
    if isinstance(a, list):
        return isinstance(b, list) and len(a) == len(b) and all(contained(x, y) for x, y in zip(a, b))
    return jeq(a, b)


# --------------------------------------------------------------------------- small-scope enumeration
_SCALARS = ["string", "integer", "boolean", "null"]


def enum_schemas(max_nodes, closed=False):
    """Yield ALL schemas with at most max_nodes nodes of the grammar
         S ::= {"type": string|integer|boolean|null}
             | {"type":"object","properties":{a:S[,b:S]},"required": any subset}   (0..2 properties)
             | {"type":"array","items":S}
             | nullable S   ({"type":[T,"null"]} for scalars, {"oneOf":[S,{"type":"null"}]} otherwise)
             | {"oneOf":[S,S]}
       (node = one production). closed=True also yields the additionalProperties:false objects.
       Deterministic order, smaller first."""
    memo = {}
    def of_size(n):
        if n in memo: return memo[n]
        out = []
        if n == 1:
            out += [{"type": t} for t in _SCALARS]
            out.append({"type": "object"})
        if n >= 2:
            for s in of_size(n - 1):
                out.append({"type": "array", "items": s})
                if s.get("type") != "null" and not _nullable_syn(s):
                    if isinstance(s.get("type"), str) and s["type"] in _SCALARS:
                        out.append({"type": [s["type"], "null"]})
                    else:
                        out.append({"oneOf": [s, {"type": "null"}]})
                for req in ([], ["a"]):
                    out.append(_obj({"a": s}, req))
        if n >= 3:
            for i in range(1, n - 1):
                j = n - 1 - i
                for x in of_size(i):
                    for y in of_size(j):
                        out.append({"oneOf": [x, y]})
                        for req in ([], ["a"], ["b"], ["a", "b"]):
                            out.append(_obj({"a": x, "b": y}, req))
        if closed:
            out += [dict(o, additionalProperties=False) for o in out if o.get("type") == "object"]
        memo[n] = out
        return out
    def _obj(props, req):
        o = {"type": "object", "properties": props}
        if req: o["required"] = req
        return o
    seen = set()
    for n in range(1, max_nodes + 1):
        for s in of_size(n):
            c = canon(s)
            if c in seen: continue      # oneOf[S, null] is reachable both as `nullable S` and as a 2-branch oneOf
            seen.add(c)
            yield copy.deepcopy(s)


def _nullable_syn(s):
    t = s.get("type")
    if isinstance(t, list) and "null" in t: return True
    return "oneOf" in s and any(_is_null_schema(b) for b in s["oneOf"])


# --------------------------------------------------------------------------- fixtures
def fixture_docs(repo=None):
    """[(name, document)] for every JSON Schema fixture of the repository"""
    import glob
    repo = repo or REPO
    paths = sorted(glob.glob(os.path.join(repo, "typify/tests/schemas/*.json"))) + \
        sorted(glob.glob(os.path.join(repo, "typify-impl/tests/*.json"))) + [os.path.join(repo, "example.json")]
    out = []
    for p in paths:
        if not os.path.exists(p): continue
        with open(p, encoding="utf-8") as f:
            out.append((os.path.relpath(p, repo), json.load(f)))
    return out


# --------------------------------------------------------------------------- distribution report
def classify_union(doc, branches):
    """'option' | 'external' | 'internal' | 'adjacent' | 'untagged' for a oneOf/anyOf branch list"""
    if len(branches) == 2 and sum(1 for b in branches if _is_null_schema(b)) == 1: return "option"
    try: tag, ext, units = union_tags(doc, branches)
    except KeyError: return "untagged"
    bs = []
    for b in branches:
        try: bs.append(deref(doc, b))
        except KeyError: bs.append({})
    objs = [b for b in bs if isinstance(b, dict) and (b.get("type") == "object" or "properties" in b)]
    if tag is not None and len(objs) == len(bs):
        nonunit = [b for b in objs if len(b.get("properties", {})) > 1]
        contents = {tuple(sorted(set(b["properties"]) - {tag})) for b in nonunit}
        if nonunit and len(contents) == 1 and len(next(iter(contents))) == 1 and \
                all(next(iter(contents))[0] in b.get("required", []) for b in nonunit) and len(nonunit) > 1:
            return "adjacent"
        if nonunit and len(contents) == 1 and len(next(iter(contents))) == 1 and \
                next(iter(contents))[0] in CONTENT_NAMES:
            return "adjacent"
        return "internal"
    strs = [b for b in bs if isinstance(b, dict) and (_single_string(b) is not None or
            (b.get("type") == "string" and "enum" in b))]
    singles = [b for b in objs if len(b.get("properties", {})) == 1 and list(b["properties"]) == b.get("required", [])]
    if len(strs) + len(singles) == len(bs) and (singles or len(strs) > 1) and len(ext) == len(singles):
        return "external"
    return "untagged"


def describe(doc):
    """counts of the constructs a schema document uses (for evidence): {"definitions", "nodes",
    "depth", "refs", "recursive", "constructs": {name: count}}"""
    from collections import Counter
    c = Counter()
    nodes = depth = refs = 0
    edges = {}
    for ptr, s in iter_schemas(doc):
        nodes += 1
        toks = ptr_split(ptr)
        d = sum(1 for t in toks if t in ("properties", "items", "additionalProperties", "oneOf", "anyOf", "allOf", "not"))
        depth = max(depth, d)
        owner = toks[1] if len(toks) > 1 and toks[0] in ("definitions", "$defs") else "#"
        if not ptr.endswith("/additionalProperties"):
            if s is True or s == {}: c["any"] += 1
            if s is False: c["never"] += 1
        if not isinstance(s, dict): continue
        if "$ref" in s:
            refs += 1
            tgt = s["$ref"]
            edges.setdefault(owner, set()).add("#" if tgt == "#" else ptr_unescape(tgt.rsplit("/", 1)[-1]))
            c["ref"] += 1
        t = s.get("type")
        ts = t if isinstance(t, list) else [t]
        if isinstance(t, list) and "null" in t: c["option_type_array"] += 1
        for comb in ("oneOf", "anyOf"):
            if comb in s:
                k = classify_union(doc, s[comb])
                c["option_" + comb if k == "option" else "enum_" + k] += 1
                c[comb] += 1
        if "allOf" in s: c["allOf_single" if len(s["allOf"]) == 1 else "allOf"] += 1
        if "not" in s: c["not"] += 1
        if "const" in s: c["const"] += 1
        if "default" in s: c["default"] += 1
        if "title" in s and ptr: c["title"] += 1
        if "description" in s: c["description"] += 1
        if "object" in ts or (t is None and ("properties" in s or "additionalProperties" in s)):
            props = s.get("properties", {})
            ap = s.get("additionalProperties")
            if props:
                c["struct"] += 1
                if ap is False: c["struct_closed"] += 1
                if isinstance(ap, dict): c["struct_with_map"] += 1
                req = set(s.get("required", []))
                for k, ps in props.items():
                    c["prop_required" if k in req else "prop_optional"] += 1
                    if k in req and isinstance(ps, dict) and (_nullable_form(doc, ps) or _accepts_null_syntactically(ps)):
                        c["prop_required_nullable"] += 1
            elif isinstance(ap, dict): c["map"] += 1
            elif "object" in ts: c["object_bare"] += 1
        if "array" in ts or (t is None and "items" in s):
            it = s.get("items")
            fixed = "minItems" in s and s.get("minItems") == s.get("maxItems")
            if isinstance(it, list): c["tuple"] += 1
            elif fixed: c["fixed_array"] += 1
            elif s.get("uniqueItems"): c["set"] += 1
            else: c["vec"] += 1
        if "string" in ts:
            if "enum" in s: c["string_enum"] += 1
            elif {"minLength", "maxLength", "pattern"} & s.keys():
                c["constrained_string"] += 1
                for k in ("minLength", "maxLength", "pattern"):
                    if k in s: c["string_" + k] += 1
            elif "format" in s: c["string_format:" + str(s["format"])] += 1
            elif "const" not in s: c["string"] += 1
        if "integer" in ts:
            c["integer"] += 1
            if "format" in s: c["int_format:" + str(s["format"])] += 1
            if "minimum" in s or "maximum" in s: c["int_range"] += 1
        if "number" in ts: c["number"] += 1
        if "boolean" in ts: c["boolean"] += 1
        if ts == ["null"]: c["null"] += 1
    # recursion: a cycle among definitions (or through the root)
    recursive = False
    for start in edges:
        seen, work = set(), list(edges.get(start, ()))
        while work:
            x = work.pop()
            if x == start: recursive = True; break
            if x in seen: continue
            seen.add(x); work += list(edges.get(x, ()))
        if recursive: break
    defs = doc.get("definitions", doc.get("$defs", {})) if isinstance(doc, dict) else {}
    return {"definitions": len(defs), "nodes": nodes, "depth": depth, "refs": refs,
            "recursive": recursive, "constructs": dict(sorted(c.items()))}


def merge_descriptions(ds):
    """aggregate describe() results: totals, and per construct (#documents using it, total count)"""
    from collections import Counter
    total, used = Counter(), Counter()
    for d in ds:
        for k, n in d["constructs"].items():
            total[k] += n; used[k] += 1
    n = max(1, len(ds))
    return {"documents": len(ds),
            "mean_definitions": round(sum(d["definitions"] for d in ds) / n, 2),
            "mean_nodes": round(sum(d["nodes"] for d in ds) / n, 1),
            "max_depth": max([d["depth"] for d in ds] or [0]),
            "recursive_documents": sum(1 for d in ds if d["recursive"]),
            "constructs": {k: {"documents": used[k], "count": total[k]} for k in sorted(total)}}


# --------------------------------------------------------------------------- oracle bridge (subprocess)
def run_oracle(requests, python="python3-vt", timeout=600):
    """Bulk verdicts from tools/oracle.py in ONE subprocess. requests: iterable of dicts
    {"doc": ..., "schema": subschema | "#/pointer" | None, "value": ...} (or the doc_id forms
    described in oracle.py). Returns a list of True / False / "error:<msg>" in request order."""
    lines = "\n".join(json.dumps(r, ensure_ascii=False) for r in requests) + "\n"
    p = subprocess.run([python, os.path.join(VERIF, "tools", "oracle.py")], input=lines.encode("utf-8"),
                       capture_output=True, timeout=timeout)
    if p.returncode != 0:
        raise RuntimeError("oracle failed: " + p.stderr.decode("utf-8", "replace")[-2000:])
    out = []
    for l in p.stdout.decode("utf-8").splitlines():
        out.append(True if l == "true" else False if l == "false" else l)
    return out


if __name__ == "__main__":
    import random
    seed = int(sys.argv[1]) if len(sys.argv) > 1 else 0
    fs = sys.argv[2] if len(sys.argv) > 2 else "default"
    size = int(sys.argv[3]) if len(sys.argv) > 3 else 4
    rng = random.Random(seed)
    doc = gen_universe(rng, size, FEATURE_SETS[fs])
    print(json.dumps(doc, indent=1, ensure_ascii=False))
    print(json.dumps(gen_valid(rng, doc, doc), ensure_ascii=False), file=sys.stderr)
    print(json.dumps(describe(doc)), file=sys.stderr)

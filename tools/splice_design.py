#!/usr/bin/env python3
"""copies docs/asbuilt.md into section 0 of DESIGN.md (the single source of section 0 is docs/asbuilt.md)"""
s = open('/verif/DESIGN.md').read()
a = s.index("## 0. As built")
b = s.index("---------------------------------------------------------------------------\n\n## 1. What is being decided")
s = s[:a] + open('/verif/docs/asbuilt.md').read().rstrip() + "\n\n" + s[b:]
open('/verif/DESIGN.md', 'w').write(s)

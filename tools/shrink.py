"""Delta-debugging shrinker for failing cases expressed as JSON (stdlib only, deterministic).

    from shrink import shrink
    small = shrink(case, still_fails, budget=2000)

`case` is any JSON value (a schema document, an instance, or a {"doc":…, "value":…, "settings":…}
bundle).  `still_fails(candidate) -> bool` re-runs ONLY the disagreeing comparison; an exception
raised by it counts as "does not fail any more".  The result is a case for which `still_fails` held
when it was tried (the original is returned unchanged when nothing smaller fails), 1-minimal with
respect to the passes below unless the budget of predicate calls ran out.

Passes, repeated to a fixed point, every candidate strictly smaller in (serialised length, text):
  1. ddmin over the members of every object / the elements of every array (chunks, then singles),
     outermost containers first - drops definitions, properties, variants, required names, items;
  2. hoisting: replace a node by one of its children (`{"allOf":[S]}` -> S, `{"items":S}` -> S …);
  3. simplification: replace a subtree by the first smaller one of {}, true, {"type":"string"},
     null, [], 0, "" (schema-ish replacements first, so schema documents stay schema documents);
  4. strings: empty, first char, halves, drop one char, and an ASCII replacement of non-ASCII chars;
  5. numbers: 0, 1, halving towards 0, n-1; floats to ints.
No randomness: the order of attempts depends only on the case.  Results of the predicate are
cached by canonical text, so re-visiting a candidate costs nothing.
"""
import copy, json

_SIMPLE = [{}, True, {"type": "string"}, None, [], 0, ""]


def _canon(v):
    return json.dumps(v, sort_keys=True, ensure_ascii=False, separators=(",", ":"))


def _size(v):
    c = _canon(v)
    return (len(c), c)


class _Budget(Exception):
    pass


class _Shrinker:
    def __init__(self, pred, budget):
        self.pred, self.budget, self.calls = pred, budget, 0
        self.cache = {}

    def fails(self, cand):
        key = _canon(cand)
        if key in self.cache: return self.cache[key]
        if self.calls >= self.budget: raise _Budget()
        self.calls += 1
        try:
            r = bool(self.pred(copy.deepcopy(cand)))
        except Exception:       # noqa: BLE001 - a crashing predicate is "not this failure"
            r = False
        self.cache[key] = r
        return r


def _paths(v, path=()):
    """all container/leaf paths, outermost first (breadth-first keeps big deletions early)"""
    out, frontier = [], [(path, v)]
    while frontier:
        nxt = []
        for p, x in frontier:
            out.append(p)
            if isinstance(x, dict):
                for k in x: nxt.append((p + (k,), x[k]))
            elif isinstance(x, list):
                for i, y in enumerate(x): nxt.append((p + (i,), y))
        frontier = nxt
    return out


def _get(v, path):
    for t in path: v = v[t]
    return v


def _has(v, path):
    try:
        _get(v, path); return True
    except (KeyError, IndexError, TypeError):
        return False


def _set(v, path, new):
    if not path: return copy.deepcopy(new)
    v = copy.deepcopy(v)
    cur = v
    for t in path[:-1]: cur = cur[t]
    cur[path[-1]] = copy.deepcopy(new)
    return v


def _without(container, keys):
    if isinstance(container, dict): return {k: x for k, x in container.items() if k not in keys}
    return [x for i, x in enumerate(container) if i not in keys]


def _ddmin_container(sh, case, path):
    """remove as many members/elements of the container at path as possible; returns new case"""
    changed = False
    n = 2
    while True:
        cont = _get(case, path)
        keys = list(cont.keys()) if isinstance(cont, dict) else list(range(len(cont)))
        if not keys: break
        n = min(n, len(keys))
        size = max(1, len(keys) // n)
        chunks = [keys[i:i + size] for i in range(0, len(keys), size)]
        progress = False
        # try keeping only one chunk (big step), then removing one chunk
        if len(chunks) > 1:
            for ch in chunks:
                cand = _set(case, path, _without(cont, set(keys) - set(ch)))
                if sh.fails(cand):
                    case, progress, n = cand, True, 2
                    break
        if not progress:
            for ch in chunks:
                cand = _set(case, path, _without(cont, set(ch)))
                if sh.fails(cand):
                    case, progress = cand, True
                    n = max(n - 1, 2)
                    break
        if progress:
            changed = True
            continue
        if size == 1: break
        n = min(len(keys), n * 2)
    return case, changed


def _string_candidates(s):
    out = ["", s[:1], s[:len(s) // 2], s[len(s) // 2:]]
    for i in range(min(len(s), 16)):
        out.append(s[:i] + s[i + 1:])
    if not s.isascii(): out.append("".join(c if ord(c) < 128 else "a" for c in s))
    if s and s != "a" * len(s): out.append("a" * len(s))
    return out


def _number_candidates(x):
    out = [0, 1]
    if isinstance(x, float):
        if x == int(x) and abs(x) < 2**53: out.append(int(x))
        out += [float(int(x / 2)), round(x, 1)]
    else:
        out += [x // 2 if x > 0 else -((-x) // 2), x - 1 if x > 0 else x + 1]
    return out


def shrink(case, still_fails, budget=2000, verbose=False):
    """-> a smaller case on which still_fails is True (see module docstring)"""
    sh = _Shrinker(still_fails, budget)
    case = copy.deepcopy(case)
    try:
        if not sh.fails(case):
            return case
        while True:
            before = _canon(case)
            # 1. ddmin on every container, outermost first
            for p in _paths(case):
                if not _has(case, p): continue
                x = _get(case, p)
                if isinstance(x, (dict, list)) and x:
                    case, _ = _ddmin_container(sh, case, p)
            # 2. hoist children, 3. simplify subtrees
            for p in _paths(case):
                if not _has(case, p): continue
                x = _get(case, p)
                if isinstance(x, (dict, list)):
                    kids = list(x.values()) if isinstance(x, dict) else list(x)
                    flat = []
                    for k in kids:
                        flat.append(k)
                        if isinstance(k, list): flat += k       # {"allOf":[S]} -> S
                    for k in flat:
                        if isinstance(k, (dict, list)) and _size(k) < _size(x):
                            cand = _set(case, p, k)
                            if sh.fails(cand):
                                case = cand; x = k
                                break
                if not _has(case, p): continue
                x = _get(case, p)
                for simple in _SIMPLE:
                    if _size(simple) < _size(x):
                        cand = _set(case, p, simple)
                        if sh.fails(cand):
                            case = cand
                            break
            # 4./5. leaves
            for p in _paths(case):
                if not _has(case, p): continue
                x = _get(case, p)
                if isinstance(x, bool) or x is None: continue
                cands = _string_candidates(x) if isinstance(x, str) else \
                    _number_candidates(x) if isinstance(x, (int, float)) else []
                for c in cands:
                    if _size(c) < _size(x):
                        cand = _set(case, p, c)
                        if sh.fails(cand):
                            case = cand
                            break
            # object keys: shorten member names (renaming keeps structure)
            for p in _paths(case):
                if not _has(case, p): continue
                x = _get(case, p)
                if isinstance(x, dict):
                    for k in list(x.keys()):
                        for nk in _string_candidates(k):
                            if nk in x or _size(nk) >= _size(k): continue
                            cand = _set(case, p, {(nk if kk == k else kk): vv for kk, vv in x.items()})
                            if sh.fails(cand):
                                case = cand; x = _get(case, p)
                                break
            if verbose: print("shrink: %d calls, size %d" % (sh.calls, len(_canon(case))))
            if _canon(case) == before: break
    except _Budget:
        pass
    return case


if __name__ == "__main__":
    # tiny demonstration: keep any document that still contains an integer property named "x"
    doc = {"title": "T", "type": "object", "properties": {"x": {"type": "integer", "minimum": 12345},
           "y": {"type": "array", "items": {"type": "string", "description": "long long long"}}},
           "definitions": {"A": {"type": "string"}, "B": {"oneOf": [{"type": "null"}, {"$ref": "#/definitions/A"}]}}}
    print(json.dumps(shrink(doc, lambda d: d["properties"]["x"]["type"] == "integer")))

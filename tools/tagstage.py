"""M0 for the union-shape decision of convert.rs / enums.rs (`convert_one_of`, `convert_any_of`, `maybe_option`,
`maybe_externally_tagged_enum`, `maybe_adjacently_tagged_enum`, `maybe_internally_tagged_enum`, `maybe_singleton_subschema`,
`untagged_enum`): the real TypeSpace (harness tvh_tag: the union is added as a definition, the shape is read off the IR dump)
against Model/Tagging.lean (drv_tag) on
* every one-element list and every ordered pair of a fixed pool of branch shapes (string enumerations and constants in every arm
  of the externally tagged detection, single-member objects, objects with pinned members in every arm of the internally /
  adjacently tagged detection, closed / open, wrapped in one-element allOf / oneOf, typeless, null, scalars, references,
  Boolean schemas), random triples and quadruples, under `oneOf` and under `anyOf`;
* the branch lists of every anyOf / oneOf of generated documents (with the document's definitions).
Compared: the shape (option / external / adjacent / internal / singleton / untagged / flattened / panic), tag and content member,
variant names in order, payload kind per variant (unit / value; for internally tagged variants the member names), and
deny_unknown_fields of internally tagged enums. The model answers `panic` exactly where the source panics and `unknown` where the
exclusivity model has no answer (the source panics there)."""
import copy, itertools, json, subprocess
import vlib

S = {"type": "string"}; I = {"type": "integer"}
def _obj(props, req=(), **kw):
    o = {"type": "object", "properties": props}
    if req: o["required"] = list(req)
    o.update(kw); return o
def C(v): return {"type": "string", "enum": [v]}

POOL = [
    # string enumerations and constants (externally tagged, simple variants)
    {"type": "string", "enum": ["ea", "eb"]}, {"enum": ["ec"]}, {"const": "ed"}, {"type": "string", "const": "ee"}, {"enum": ["ea", None]},
    {"enum": [1, 2]}, {"type": "integer", "enum": [1]}, {"enum": ["ef"], "description": "x"}, {"type": "string", "enum": ["eg"], "format": "x"}, {"const": 3},
    {"type": ["string", "null"], "enum": ["eh"]}, {"enum": ["ea"], "const": "ea"}, {"type": "string", "enum": ["ei", "ej"], "title": "Named2"},
    # single-member objects (externally tagged, typed variants)
    _obj({"A": I}, ["A"]), _obj({"B": S}, ["B"], additionalProperties=False), _obj({"inner": _obj({"x": I}, ["x"], additionalProperties=False)}, ["inner"]),
    _obj({"N": {"type": "null"}}, ["N"]), _obj({"A": I}, ["Z"]), _obj({"A": I}), _obj({"A": {"type": "array", "items": [I, S], "minItems": 2, "maxItems": 2}}, ["A"]),
    {"properties": {"P": S}, "required": ["P"]}, {"allOf": [_obj({"W": I}, ["W"])]}, {"oneOf": [_obj({"V": S}, ["V"])], "title": "Vt"},
    _obj({"R": {"$ref": "#/definitions/A"}}, ["R"]),
    # pinned members (internally / adjacently tagged)
    _obj({"t": C("x"), "v": I}, ["t"]), _obj({"t": C("y")}, ["t"]), _obj({"t": C("z"), "w": S}, ["t", "w"], additionalProperties=False),
    _obj({"t": C("x")}, ["t", "q"]), _obj({"k": {"const": "k1"}, "t": {"const": "t1"}, "m": I}, ["k", "t"]), _obj({"k": C("k2"), "t": C("t2")}, ["t", "k"]),
    _obj({"t": C("x"), "v": S}, ["t", "v"]), _obj({"t": C("p"), "c": I}, ["t", "c"]), _obj({"t": C("q"), "c": _obj({"i": I}, ["i"], additionalProperties=False)}, ["t", "c"]),
    _obj({"t": C("r"), "c": I}, ["t", "zz"]), _obj({"t": C("s"), "c": I, "d": S}, ["t", "c", "d"]), _obj({"t": S, "c": I}, ["t", "c"]),
    _obj({"c": I, "t": {"const": "u"}}, ["c", "t"], additionalProperties=False), {"allOf": [_obj({"t": C("w1"), "v": I}, ["t"])]},
    _obj({"t": {"enum": ["x", "y"]}, "v": I}, ["t"]), _obj({"t": C("n1"), "f": False}, ["t"]), _obj({"t": C("n2"), "u": S}, ["t", "zz"]),
    _obj({"t": {"type": "string", "const": "cc"}}, ["t"], additionalProperties=False),
    # everything else
    {"type": "null"}, {"type": "null", "title": "Nothing"}, S, I, {"type": "boolean"}, {"type": "array", "items": S},
    {"$ref": "#/definitions/A"}, {"$ref": "#/definitions/B"}, {"$ref": "#/definitions/D", "description": "d"}, True, False, {},
    {"type": "object"}, {"type": "object", "additionalProperties": S}, _obj({"a": I}, ["a"], additionalProperties=True),
    _obj({"a": I}, ["a"], minProperties=1), _obj({"x": I, "y": S}, ["x"]), {"title": "Named", "type": "string", "maxLength": 4},
]
DEFS = {"A": _obj({"x": I}, ["x"]), "B": {"type": "string", "enum": ["p", "q"]}, "D": _obj({"t": C("dd"), "n": I}, ["t", "n"])}

def requests(rng, ndocs, nrandom):
    import gen
    reqs = []
    for comb in ("oneOf", "anyOf"):
        reqs += [{"comb": comb, "defs": DEFS, "schemas": [a]} for a in POOL]
        reqs += [{"comb": comb, "defs": DEFS, "schemas": [a, b]} for a, b in itertools.product(POOL, POOL)]
        reqs.append({"comb": comb, "defs": DEFS, "schemas": []})
    for _ in range(nrandom):
        reqs.append({"comb": rng.choice(["oneOf", "oneOf", "anyOf"]), "defs": DEFS,
                     "schemas": [copy.deepcopy(rng.choice(POOL)) for _ in range(rng.choice([3, 3, 4, 5]))]})
    for i in range(ndocs):
        d = gen.gen_universe(rng, 3 + i % 5, gen.FEATURE_SETS["unions"] if i % 2 else gen.FEATURE_SETS["all"])
        defs = {k: v for k, v in d.get("definitions", {}).items() if k not in ("T", "T1")}
        # control: the document's definitions next to a trivial union (a panic / error of a definition is not the union's)
        reqs.append({"comb": "oneOf", "defs": defs, "schemas": [{"type": "string"}, {"type": "integer"}], "doc": i, "control": True})
        for _, s in gen.iter_schemas(d):
            if isinstance(s, dict):
                for comb in ("anyOf", "oneOf"):
                    if isinstance(s.get(comb), list) and s[comb]:
                        reqs.append({"comb": comb, "defs": defs, "schemas": s[comb], "doc": i})
    return reqs

def _run(binary, lines):
    p = subprocess.run([binary], input="\n".join(lines) + "\n", capture_output=True, text=True)
    return p.stdout.split("\n")[:-1] if p.returncode == 0 else None

def _dup_named(schemas):
    names = []
    for b in schemas:
        if not isinstance(b, dict): return False
        if isinstance(b.get("title"), str): names.append(b["title"])
        elif isinstance(b.get("$ref"), str) and not (set(b) - {"$ref", "description", "title", "default", "examples"}): names.append(b["$ref"].rsplit("/", 1)[-1])
        else: return False
    return len(set(n.lower() for n in names)) < len(names)

def _load(x):
    try: return json.loads(x)
    except Exception: return {"shape": x}

def stage(ctx, thorough=False):
    """-> (stats, disagreements)"""
    reqs = requests(ctx.rng, 300 if thorough else 25, 4000 if thorough else 400)
    lines = [json.dumps({k: v for k, v in r.items() if k not in ("doc", "control")}) for r in reqs]
    # (a request on which typify overflows its stack — reference cycles through allOf, a listed finding — kills the harness
    # process: such a request is answered `aborted` and the rest is re-run)
    real = [a if a is not None else '{"shape":"aborted"}' for a in vlib.run_isolating(vlib.tvh("tag"), lines)]
    model = _run(vlib.drv("tag"), lines)
    if real is None or model is None or len(real) != len(lines) or len(model) != len(lines):
        return {"requests": len(lines), "ran": False}, [{"what": "a side of the correspondence did not answer every request",
                                                         "real": None if real is None else len(real), "model": None if model is None else len(model)}]
    stats = {"requests": len(lines), "ran": True, "badrequest": 0, "real_error": 0, "real_panics_model_unknown": 0, "document_definitions_unusable": 0}
    dis = []
    unusable = {l["doc"] for r, l in zip(real, reqs) if "doc" in l and (_load(r).get("shape") == "aborted" or (l.get("control") and _load(r).get("shape") != "untagged"))}
    for r, m, l in zip(real, model, reqs):
        r, m = _load(r), _load(m)
        if "doc" in l and (l.get("control") or l["doc"] in unusable):
            stats["document_definitions_unusable"] += (not l.get("control")); continue
        if r.get("shape") == "badrequest": stats["badrequest"] += 1; continue
        alone = r.pop("alone", None) if isinstance(r, dict) else None
        if m.get("shape") == "singleton":
            # `maybe_singleton_subschema`: the union got what its lone subschema gets as a definition of its own
            if alone is not None and alone == r and r["shape"] not in ("panic", "error"): stats["agree_singleton"] = stats.get("agree_singleton", 0) + 1; continue
        if r == m: stats["agree_" + r["shape"]] = stats.get("agree_" + r["shape"], 0) + 1; continue
        if r["shape"] == "panic" and m["shape"] == "unknown": stats["real_panics_model_unknown"] += 1; continue
        if r["shape"] == "panic" and m["shape"] == "untagged" and _dup_named(l["schemas"]):
            # the NAMES of untagged variants (schema_is_named, common-prefix removal) are not in the model: every branch is named
            # and two names coincide, TypeEntryEnum::from_metadata panics on the duplicate
            stats["untagged_duplicate_names"] = stats.get("untagged_duplicate_names", 0) + 1; continue
        if r["shape"] == "error":
            # the conversion of a payload (or of a definition of the request) failed: outside the model, counted
            stats["real_error"] += 1; continue
        dis.append({"request": l, "real": r, "model": m})
    return stats, dis

if __name__ == "__main__":
    import random, sys
    class Ctx: pass
    c = Ctx(); c.rng = random.Random(int(sys.argv[1]) if len(sys.argv) > 1 else 1)
    st, dis = stage(c, len(sys.argv) > 2)
    print(st); print(len(dis))
    seen = set()
    for d in dis:
        k = (json.dumps(d["real"].get("shape")), json.dumps(d["model"].get("shape")))
        if k in seen and len(seen) > 40: continue
        seen.add(k); print(json.dumps(d)[:900])
        if len(seen) > 60: break

#!/usr/bin/env bash
# Self-test for harness/src/bin/tvh_m2.rs: build it, generate source for a few fixtures with the
# prebuilt cargo-typify CLI, feed each as one JSON-string request line, and pretty-print the
# first two items of every summary. Scratch goes under /verif/.cache/m2.
set -euo pipefail

VERIF=/verif
REPO=/repo
SCRATCH=$VERIF/.cache/m2
CLI=$REPO/target/debug/cargo-typify
BIN=$VERIF/harness/target/debug/tvh_m2
SCHEMAS=$REPO/typify/tests/schemas

mkdir -p "$SCRATCH"

# (1) build the harness binary (only this bin)
(cd "$VERIF/harness" && cargo build --offline --bin tvh_m2 2>"$SCRATCH/build.log") \
    || { cat "$SCRATCH/build.log" >&2; exit 1; }

if [ ! -x "$CLI" ]; then
    (cd "$REPO" && cargo build --offline -p cargo-typify 2>"$SCRATCH/cli_build.log") \
        || { cat "$SCRATCH/cli_build.log" >&2; exit 1; }
fi

# (2) fixtures: name | schema | extra CLI flags
gen() { # gen <label> <schema> [flags...]
    local label=$1 schema=$2
    shift 2
    # run from the scratch dir so that nothing is ever written next to the schema
    (cd "$SCRATCH" && "$CLI" typify "$@" "$SCHEMAS/$schema" -o -) >"$SCRATCH/$label.rs"
    python3 -c 'import json,sys; print(json.dumps(open(sys.argv[1]).read()))' \
        "$SCRATCH/$label.rs" >>"$SCRATCH/requests.jsonl"
    echo "$label" >>"$SCRATCH/labels.txt"
}

: >"$SCRATCH/requests.jsonl"
: >"$SCRATCH/labels.txt"
gen simple-types          simple-types.json          --no-builder
gen simple-types-builder  simple-types.json          --builder
gen various-enums         various-enums.json         --no-builder
gen types-with-defaults   types-with-defaults.json   --no-builder
# one deliberately broken request: must answer {"parse_error": ...}
python3 -c 'import json; print(json.dumps("pub struct {"))' >>"$SCRATCH/requests.jsonl"
echo "broken" >>"$SCRATCH/labels.txt"

"$BIN" <"$SCRATCH/requests.jsonl" >"$SCRATCH/answers.jsonl"

# (3) show the first two items of each summary (+ the non-item keys)
python3 - "$SCRATCH/labels.txt" "$SCRATCH/answers.jsonl" <<'EOF'
import json, sys
labels = open(sys.argv[1]).read().split()
answers = [l for l in open(sys.argv[2]).read().splitlines() if l.strip()]
assert len(labels) == len(answers), (len(labels), len(answers))
bad = 0
for label, line in zip(labels, answers):
    ans = json.loads(line)            # every answer must be one line of JSON
    print("==== %s" % label)
    if "parse_error" in ans:
        print(json.dumps(ans, indent=1, sort_keys=True))
        if label != "broken":
            bad += 1
        continue
    if label == "broken":
        bad += 1
    head = dict(ans)
    head["items"] = "<%d items: %s>" % (len(ans["items"]), ", ".join(i["name"] for i in ans["items"]))
    print(json.dumps(head, indent=1, sort_keys=True))
    for item in ans["items"][:2]:
        print(json.dumps(item, indent=1, sort_keys=True))
    if ans["other"]:
        print("note: non-empty 'other': %r" % ans["other"])
sys.exit(1 if bad else 0)
EOF

"""Self test of tools/gen.py, tools/oracle.py, tools/shrink.py.   Run:  python3-vt tools/gen_selftest.py
Options: --n N (universes for the default feature set, 300)  --n-other M (per other set, 100)
         --seed S  --no-typify  --sets a,b,c  --json FILE (machine-readable summary)
Exit status 1 when a hard expectation fails (listed at the end)."""
import argparse, collections, concurrent.futures, json, os, random, re, subprocess, sys, time

HERE = os.path.dirname(os.path.abspath(__file__))
sys.path.insert(0, HERE)
import gen, oracle, shrink   # noqa: E402

CACHE = os.path.join(gen.VERIF, ".cache", "gen_selftest")
TYPIFY = os.path.join(gen.REPO, "target", "debug", "cargo-typify")
FAILS = []


def expect(cond, msg):
    if not cond:
        FAILS.append(msg)
        print("  EXPECTATION FAILED:", msg)
    return cond


def section(t): print("\n=== " + t, flush=True)


# ----------------------------------------------------------------------------- unit facts
def unit_tests():
    section("oracle facts")
    O = oracle.Oracle
    o = O({})
    facts = [
        ("1.0 is an integer in draft-07", o.valid(1.0, {"type": "integer"}), True),
        ("1.5 is not an integer", o.valid(1.5, {"type": "integer"}), False),
        ("true is not an integer", o.valid(True, {"type": "integer"}), False),
        ("true is not a number", o.valid(True, {"type": "number"}), False),
        ("1 is not a boolean", o.valid(1, {"type": "boolean"}), False),
        ("enum [1] rejects true", o.valid(True, {"enum": [1]}), False),
        ("enum [true] rejects 1", o.valid(1, {"enum": [True]}), False),
        ("enum [0] rejects false", o.valid(False, {"enum": [0]}), False),
        ("const 1 rejects true", o.valid(True, {"const": 1}), False),
        ("const 1 accepts 1.0", o.valid(1.0, {"const": 1}), True),
        ("enum [[1]] rejects [true]", o.valid([True], {"enum": [[1]]}), False),
        ("uniqueItems: [1,true] unique", o.valid([1, True], {"uniqueItems": True}), True),
        ("uniqueItems: [0,false] unique", o.valid([0, False], {"uniqueItems": True}), True),
        ("uniqueItems: [1,1.0] duplicate", o.valid([1, 1.0], {"uniqueItems": True}), False),
        ("uniqueItems: [{a:1},{a:true}] unique", o.valid([{"a": 1}, {"a": True}], {"uniqueItems": True}), True),
        ("length counts code points (max)", o.valid("é€\U0001F600", {"maxLength": 3}), True),
        ("length counts code points (min)", o.valid("\U0001F600", {"minLength": 2}), False),
        ("combining mark counts", o.valid("é", {"maxLength": 1}), False),
        ("pattern is unanchored search", o.valid("xxabc", {"pattern": "abc"}), True),
        ("$ does not match before trailing newline", o.valid("az\n", {"pattern": "^a.*z$"}), False),
        ("$ inside class untouched", o.valid("a$", {"pattern": "^a[$]$"}), True),
        ("escaped $ untouched", o.valid("a$", {"pattern": "^a\\$$"}), True),
        ("uint8 255", o.valid(255, {"type": "integer", "format": "uint8"}), True),
        ("uint8 256", o.valid(256, {"type": "integer", "format": "uint8"}), False),
        ("uint8 -1", o.valid(-1, {"format": "uint8"}), False),
        ("uint8 256.0 (integer-valued float)", o.valid(256.0, {"format": "uint8"}), False),
        ("uint8 does not constrain 1.5", o.valid(1.5, {"format": "uint8"}), True),
        ("uint8 does not constrain strings", o.valid("300", {"format": "uint8"}), True),
        ("uint8 does not constrain true", o.valid(True, {"format": "uint8"}), True),
        ("int8 -128", o.valid(-128, {"format": "int8"}), True),
        ("int8 -129", o.valid(-129, {"format": "int8"}), False),
        ("int64 max", o.valid(2**63 - 1, {"format": "int64"}), True),
        ("int64 max+1", o.valid(2**63, {"format": "int64"}), False),
        ("uint64 max", o.valid(2**64 - 1, {"format": "uint64"}), True),
        ("uint = 64 bit", o.valid(2**32, {"format": "uint"}), True),
        ("int = 64 bit", o.valid(-2**31 - 1, {"format": "int"}), True),
        ("uint 2^64", o.valid(2**64, {"format": "uint"}), False),
        ("float format no-op", o.valid(1e300, {"type": "number", "format": "float"}), True),
        ("unknown format ignored", o.valid("x", {"type": "string", "format": "?"}), True),
        ("uuid canonical", o.valid("67e55044-10b1-426f-9247-bb680e5fe0c8", {"format": "uuid"}), True),
        ("uuid upper case", o.valid("67E55044-10B1-426F-9247-BB680E5FE0C8", {"format": "uuid"}), True),
        ("uuid simple rejected (strict)", o.valid("67e5504410b1426f9247bb680e5fe0c8", {"format": "uuid"}), False),
        ("uuid garbage", o.valid("abc123-is-this-a-uuid", {"format": "uuid"}), False),
        ("uuid non-string ignored", o.valid(5, {"format": "uuid"}), True),
        ("date-time Z", o.valid("1970-01-01T00:00:00Z", {"format": "date-time"}), True),
        ("date-time offset+fraction", o.valid("2024-02-29T23:59:60.123+05:30", {"format": "date-time"}), True),
        ("date-time lower-case t/z", o.valid("2024-02-29t00:00:00z", {"format": "date-time"}), True),
        ("date-time space separator", o.valid("2024-02-29 00:00:00Z", {"format": "date-time"}), False),
        ("date-time no offset", o.valid("2024-02-29T00:00:00", {"format": "date-time"}), False),
        ("date-time Feb 30", o.valid("2023-02-30T00:00:00Z", {"format": "date-time"}), False),
        ("date-time hour 24", o.valid("2023-02-03T24:00:00Z", {"format": "date-time"}), False),
        ("date ok", o.valid("2023-12-31", {"format": "date"}), True),
        ("date non-leap Feb 29", o.valid("2023-02-29", {"format": "date"}), False),
        ("date arabic digits", o.valid("٢٠٢٣-12-31", {"format": "date"}), False),
        ("time ok", o.valid("23:59:59Z", {"format": "time"}), True),
        ("ipv4 ok", o.valid("192.168.0.1", {"format": "ipv4"}), True),
        ("ipv4 leading zero", o.valid("192.168.00.1", {"format": "ipv4"}), False),
        ("ipv4 256", o.valid("256.1.1.1", {"format": "ipv4"}), False),
        ("ipv6 ok", o.valid("fe80::1", {"format": "ipv6"}), True),
        ("ipv6 zone", o.valid("fe80::1%eth0", {"format": "ipv6"}), False),
        ("ipv6 not ipv4", o.valid("1.2.3.4", {"format": "ipv6"}), False),
        ("ip v4", o.valid("1.2.3.4", {"format": "ip"}), True),
        ("ip v6", o.valid("::", {"format": "ip"}), True),
        ("ip garbage", o.valid("nope", {"format": "ip"}), False),
        ("$ref siblings ignored", O({"definitions": {"A": {"type": "string"}}}).valid(
            "x", {"$ref": "#/definitions/A", "maxLength": 0}), True),
        ("closed object", o.valid({"a": 1, "b": 2}, {"properties": {"a": {}}, "additionalProperties": False}), False),
    ]
    orust = O({}, uuid="rust")
    facts += [
        ("uuid simple (rust forms)", orust.valid("67e5504410b1426f9247bb680e5fe0c8", {"format": "uuid"}), True),
        ("uuid urn (rust forms)", orust.valid("urn:uuid:67e55044-10b1-426f-9247-bb680e5fe0c8", {"format": "uuid"}), True),
        ("uuid braced (rust forms)", orust.valid("{67e55044-10b1-426f-9247-bb680e5fe0c8}", {"format": "uuid"}), True),
        ("uuid braced simple (python-only) rejected", orust.valid("{67e5504410b1426f9247bb680e5fe0c8}", {"format": "uuid"}), False),
        ("uuid odd hyphens (python-only) rejected", orust.valid("67e5-504410b1426f9247bb680e5fe0c8", {"format": "uuid"}), False),
    ]
    bad = [(n, got, want) for n, got, want in facts if got != want]
    print("  %d facts checked, %d wrong" % (len(facts), len(bad)))
    for b in bad: print("   WRONG:", b)
    expect(not bad, "oracle facts: %s" % bad)
    # python's uuid.UUID accepts everything our regexes accept (sanity of the regexes)
    import uuid
    for s in ["67e55044-10b1-426f-9247-bb680e5fe0c8", "67e5504410b1426f9247bb680e5fe0c8",
              "urn:uuid:67e55044-10b1-426f-9247-bb680e5fe0c8", "{67e55044-10b1-426f-9247-bb680e5fe0c8}"]:
        uuid.UUID(s)
    # refs: #, #/definitions, #/$defs, escaping, $id dropped, dangling
    d = {"$id": "https://example.com/x.json", "type": "object", "properties": {"me": {"$ref": "#"}, "a": {"$ref": "#/$defs/A"},
         "b": {"$ref": "#/definitions/s~1l~0t"}}, "additionalProperties": False,
         "$defs": {"A": {"type": "integer"}}, "definitions": {"s/l~t": {"type": "boolean"}}}
    od = O(d)
    expect(od.valid({"me": {"me": {"a": 1}}, "b": True}) and not od.valid({"me": {"a": "x"}}) and not od.valid({"b": 1}),
           "local $ref resolution (#, $defs, escaped pointer, $id)")
    try:
        O({"$ref": "#/definitions/missing"}).valid(1)
        expect(False, "dangling ref must raise")
    except Exception:
        pass

    section("gen helpers")
    expect(gen.prune({"a": {"b": None}, "c": [{"d": []}, None], "e": 0, "f": "", "g": False}) ==
           {"c": [{}, None], "e": 0, "f": "", "g": False}, "prune deep")
    expect(gen.prune({"a": {"b": None}}, deep=False) == {"a": {}}, "prune shallow")
    x = {"a": {"b": [{}, {"c": None}]}, "z": []}
    expect(gen.prune(gen.prune(x)) == gen.prune(x), "prune idempotent")
    expect(gen.contained({"a": 1, "b": [1, {"x": True}]}, {"a": 1.0, "b": [1, {"x": True, "y": 2}], "z": 0}), "contained basic")
    expect(not gen.contained({"a": True}, {"a": 1}), "contained: bool is not number")
    expect(not gen.contained([1], [1, 2]) and not gen.contained({"a": 1}, {}), "contained: array length / missing member")
    expect(gen.contained(2**63, 2**63) and not gen.contained(2**63, 2**63 + 1), "contained: big ints exact")
    ds = {"type": "object", "properties": {"a": {"type": "object", "properties": {"b": {}}},
          "m": {"type": "object", "additionalProperties": {"type": "object", "properties": {"q": {}}}},
          "u": {"oneOf": [{"type": "object", "properties": {"k": {"enum": ["x"]}, "p": {}}, "required": ["k"]},
                          {"type": "object", "properties": {"k": {"enum": ["y"]}, "r": {}}, "required": ["k"]}]},
          "any": {}, "l": {"type": "array", "items": {"type": "object", "properties": {"i": {}}}}}}
    od_cases = [({"a": {"b": 1}}, True), ({"a": {"c": 1}}, False), ({"zz": 1}, False),
                ({"m": {"anything": {"q": 1}}}, True), ({"m": {"anything": {"w": 1}}}, False),
                ({"u": {"k": "x", "p": 1}}, True), ({"u": {"k": "x", "r": 1}}, False),
                ({"any": {"what": {"ever": 1}}}, True), ({"l": [{"i": 1}, {"j": 2}]}, False), ({"l": [{"i": 1}]}, True)]
    for v, want in od_cases:
        expect(gen.only_declared(ds, ds, v) == want, "only_declared(%s) should be %s" % (json.dumps(v), want))
    expect(gen.jeq(1, 1.0) and not gen.jeq(True, 1) and not gen.jeq(0, False) and gen.jeq([1, {"a": 2.0}], [1.0, {"a": 2}]), "jeq")
    for pat, (pmin, pmax, g, brk) in gen.PATTERNS.items():
        rng = random.Random(7)
        import re
        for n in range(pmin, (pmax or pmin + 6) + 1):
            s = g(rng, n)
            expect(len(s) == n and re.search(gen.ecma_to_py(pat), s), "pattern generator %s n=%d -> %r" % (pat, n, s))
            if not s: continue          # the empty string cannot be broken keeping its length
            b = brk(rng, s)
            expect(len(b) == len(s) and not re.search(gen.ecma_to_py(pat), b), "pattern breaker %s %r -> %r" % (pat, s, b))

    section("shrink")
    calls = [0]
    def pred(c):
        calls[0] += 1
        return isinstance(c, dict) and c.get("properties", {}).get("x", {}).get("type") == "integer"
    big = {"title": "T", "type": "object", "properties": {"x": {"type": "integer", "minimum": 12345}, "y": {"type": "array",
           "items": {"type": "string"}}}, "definitions": {"A": {"type": "string"}, "B": {"oneOf": [{"type": "null"}, {"$ref": "#/definitions/A"}]}}}
    small = shrink.shrink(big, pred)
    print("  %s  (%d predicate calls)" % (json.dumps(small), calls[0]))
    expect(small == {"properties": {"x": {"type": "integer"}}}, "shrink reaches the minimal document")
    expect(shrink.shrink(big, pred) == small, "shrink deterministic")
    expect(shrink.shrink(big, lambda c: False) == big, "shrink returns the original when it does not fail")
    c2 = [0]
    def pred2(c): c2[0] += 1; return pred(c)
    shrink.shrink(big, pred2, budget=10)
    expect(c2[0] <= 10, "shrink respects the budget")


# ----------------------------------------------------------------------------- universes
def targets(doc):
    out = [("#", doc)]
    for name in doc.get("definitions", {}):
        out.append(("#/definitions/" + gen.ptr_escape(name), {"$ref": gen.def_ref(name)}))
    return out


_ANSI = None


def run_typify(path):
    """-> (outcome, one-line reason): ok | error | panic | timeout"""
    global _ANSI
    import re
    if _ANSI is None: _ANSI = re.compile(r"\x1b\[[0-9;]*m")
    env = dict(os.environ, NO_COLOR="1", RUST_BACKTRACE="0", RUST_LIB_BACKTRACE="0")
    try:
        p = subprocess.run([TYPIFY, "typify", path, "-o", "-"], capture_output=True, timeout=120, env=env)
    except subprocess.TimeoutExpired:
        return "timeout", ""
    if p.returncode == 0: return "ok", ""
    err = _ANSI.sub("", p.stderr.decode("utf-8", "replace"))
    lines = [l.strip() for l in err.splitlines() if l.strip()]
    if "panicked" in err:
        msg = next((l for l in lines if l.startswith("Message:")), "")
        loc = next((l for l in lines if l.startswith("Location:")), "")
        if not msg: msg = next((l for l in lines if "panicked at" in l), lines[0] if lines else "")
        return "panic", (msg + " @ " + loc.replace("Location:", "").strip())[:220]
    chain = [l.split(":", 1)[1].strip() for l in lines if re.match(r"^[0-9]+: ", l) and not l.split(":", 1)[1].strip().startswith(("<", "core::", "std::"))]
    return "error", " / ".join(chain[:4])[:220] or (lines[0] if lines else "")[:220]


def universe_sweep(name, feats, n, seed, do_typify):
    section("feature set %-10s  (%d universes)" % (name, n))
    t0 = time.time()
    master = random.Random("%s/%d" % (name, seed))
    stats = collections.Counter()
    kills = {m: [0, 0] for m, _ in gen.MUTATORS}        # precheck on : [applied, oracle-invalid]
    kills_raw = {m: [0, 0] for m, _ in gen.MUTATORS}    # precheck off
    survivors, invalid_valids, idiom_flips, lite_mismatch = [], [], [], []
    descs, files = [], []
    gen.STATS["gen_retries"] = gen.STATS["gen_calls"] = 0
    os.makedirs(os.path.join(CACHE, name), exist_ok=True)
    for i in range(n):
        rng = random.Random(master.getrandbits(64))
        size = rng.randint(2, 8)
        doc, meta = gen.gen_universe_ex(rng, size, feats)
        descs.append(gen.describe(doc))
        path = os.path.join(CACHE, name, "u%03d.json" % i)
        with open(path, "w", encoding="utf-8") as f: json.dump(doc, f, ensure_ascii=False, indent=1)
        files.append(path)
        o = oracle.Oracle(doc)
        doc2, ilog = gen.mutate_idioms(rng, doc, 4)
        o2 = oracle.Oracle(doc2)
        samples = []       # (target pointer, value, expected verdict or None)
        for tptr, tschema in targets(doc):
            vals = []
            for _ in range(3):
                try: vals.append((gen.gen_valid(rng, doc, tschema, depth=3), "random"))
                except gen.Unsat: stats["unsat"] += 1
            try: vals += gen.gen_boundary(rng, doc, tschema, depth=2, float_ints=(i % 5 == 0))
            except gen.Unsat: stats["unsat"] += 1
            for v, label in vals:
                stats["valid_instances"] += 1
                ok = o.valid(v, tptr)
                if not ok:
                    invalid_valids.append((path, tptr, label, v, o.errors(v, tptr)))
                if not gen.only_declared(doc, tschema, v):
                    stats["valid_not_only_declared"] += 1
                samples.append((tptr, v, ok))
                if "string_formats" not in feats and gen.lite_valid(doc, tschema, v) != ok:
                    lite_mismatch.append((path, tptr, v))
            for v, label in vals[:3]:
                for pre, table in ((True, kills), (False, kills_raw)):
                    for mname, w, desc, mptr in gen.mutants(rng, doc, tschema, v, precheck=pre):
                        table[mname][0] += 1
                        bad = not o.valid(w, tptr)
                        table[mname][1] += bad
                        if pre:
                            samples.append((tptr, w, not bad))
                            if not bad and len(survivors) < 400: survivors.append((mname, path, tptr, desc, v, w))
                            if "string_formats" not in feats and gen.lite_valid(doc, tschema, w) == bad:
                                lite_mismatch.append((path, tptr, w))
        for tptr, v, verdict in samples:
            try: v2 = o2.valid(v, tptr)
            except Exception as e: v2 = "error:%s" % e
            stats["idiom_checked"] += 1
            if v2 != verdict:
                idiom_flips.append((path, ilog, tptr, v, verdict, v2))
    t1 = time.time()
    print("  %d valid instances generated (%d Unsat), %d oracle-invalid; self-check retries %d/%d calls; %.1fs"
          % (stats["valid_instances"], stats["unsat"], len(invalid_valids), gen.STATS["gen_retries"], gen.STATS["gen_calls"], t1 - t0))
    for x in invalid_valids[:5]: print("   INVALID 'valid' instance:", x[0], x[1], x[2], json.dumps(x[3])[:300], x[4])
    expect(not invalid_valids or name in ("hostile",) and len(invalid_valids) == 0, "[%s] %d gen_valid/gen_boundary instances are oracle-invalid" % (name, len(invalid_valids)))
    expect(stats["valid_not_only_declared"] == 0, "[%s] %d generated instances contain undeclared members" % (name, stats["valid_not_only_declared"]))
    print("  mutators (precheck on | raw):  applied  oracle-invalid  kill-rate")
    for m, _ in gen.MUTATORS:
        a, k = kills[m]; ra, rk = kills_raw[m]
        print("    %-10s %6d %6d  %6.2f%%   | raw %6d %6d  %6.2f%%" % (m, a, k, 100.0 * k / a if a else float("nan"),
                                                                     ra, rk, 100.0 * rk / ra if ra else float("nan")))
        if a: expect(k / a >= 0.90, "[%s] mutator %s kill rate %.1f%% < 90%%" % (name, m, 100.0 * k / a))
    for s in survivors[:6]:
        print("   survivor (oracle still accepts): %s %s %s | %s | %s -> %s" % (s[0], os.path.basename(s[1]), s[2], s[3], json.dumps(s[4])[:120], json.dumps(s[5])[:120]))
    print("  idiom mutations: %d verdicts re-checked on the rewritten documents, %d changed" % (stats["idiom_checked"], len(idiom_flips)))
    for x in idiom_flips[:5]: print("   FLIP:", x[0], x[1], x[2], json.dumps(x[3])[:200], x[4], "->", x[5])
    expect(not idiom_flips, "[%s] idiom mutations changed %d verdicts" % (name, len(idiom_flips)))
    if "string_formats" not in feats:
        print("  lite_valid vs oracle disagreements: %d" % len(lite_mismatch))
        for x in lite_mismatch[:3]: print("   ", x[0], x[1], json.dumps(x[2])[:200])
        expect(not lite_mismatch, "[%s] lite_valid disagrees with the oracle on %d samples" % (name, len(lite_mismatch)))
    res = {"name": name, "n": n, "kills": kills, "kills_raw": kills_raw, "valid_instances": stats["valid_instances"],
           "distribution": gen.merge_descriptions(descs)}
    if do_typify:
        with concurrent.futures.ThreadPoolExecutor(max_workers=min(16, os.cpu_count() or 4)) as ex:
            outcomes = list(ex.map(run_typify, files))
        cnt = collections.Counter(o for o, _ in outcomes)
        rate = cnt["ok"] / float(n)
        print("  typify: accepted %d/%d = %.1f%%   (error %d, panic %d, timeout %d)   %.1fs"
              % (cnt["ok"], n, 100 * rate, cnt["error"], cnt["panic"], cnt["timeout"], time.time() - t1))
        groups = collections.OrderedDict()
        for f, (oc, err) in zip(files, outcomes):
            if oc == "ok": continue
            key = oc + ": " + re.sub(r"variant names for \[.*\]", "variant names for [...]", err)
            groups.setdefault(key, []).append(f)
        for key, fs in list(groups.items())[:12]:
            print("   %3d x %s   e.g. %s" % (len(fs), key, os.path.relpath(fs[0], gen.VERIF)))
        res["typify"] = {"accepted": cnt["ok"], "error": cnt["error"], "panic": cnt["panic"], "rate": rate,
                         "rejections": {k: [os.path.relpath(f, gen.VERIF) for f in v[:3]] for k, v in groups.items()}}
        if name == "default":
            expect(rate >= 0.95, "default feature set accepted by typify %.1f%% < 95%%" % (100 * rate))
    return res


def print_distribution(res):
    d = res["distribution"]
    print("  %d documents; mean definitions %.2f, mean nodes %.1f, max depth %d, recursive documents %d"
          % (d["documents"], d["mean_definitions"], d["mean_nodes"], d["max_depth"], d["recursive_documents"]))
    items = sorted(d["constructs"].items(), key=lambda kv: -kv[1]["documents"])
    line = []
    for k, v in items:
        line.append("%s %d/%d" % (k, v["documents"], v["count"]))
        if len(line) == 5:
            print("    " + "   ".join(line)); line = []
    if line: print("    " + "   ".join(line))


def misc_tests(seed):
    section("small-scope enumerator")
    from jsonschema import Draft7Validator
    counts = collections.Counter()
    rng = random.Random(seed)
    bad = 0
    allc = set()
    for s in gen.enum_schemas(4):
        counts["total"] += 1
        allc.add(gen.canon(s))
        Draft7Validator.check_schema(s)
        if counts["total"] % 7 == 0:
            try:
                v = gen.gen_valid(rng, s, s, depth=2)
                if not oracle.Oracle(s).valid(v): bad += 1
                counts["instances"] += 1
            except gen.Unsat:
                counts["unsat"] += 1
    print("  enum_schemas(1..4): %s  cumulative; distinct %d; sampled instances %d (oracle-invalid %d, Unsat %d)"
          % ([sum(1 for _ in gen.enum_schemas(k)) for k in range(1, 5)], len(allc), counts["instances"], bad, counts["unsat"]))
    expect(bad == 0, "enum_schemas instances valid")
    expect(len(allc) == counts["total"], "enum_schemas yields no duplicates")
    expect(sum(1 for _ in gen.enum_schemas(2, closed=True)) > sum(1 for _ in gen.enum_schemas(2)), "closed variants")

    section("fixtures")
    fx = gen.fixture_docs()
    print("  %d fixture documents" % len(fx))
    expect(len(fx) >= 20, "fixtures found")
    ok = bad = unsat = err = 0
    for name, doc in fx:
        o = oracle.Oracle(doc)
        tg = [("#", doc)] + [("#/%s/%s" % (key, gen.ptr_escape(k)), {"$ref": "#/%s/%s" % (key, gen.ptr_escape(k))})
                             for key in ("definitions", "$defs") for k in doc.get(key, {})]
        for tptr, ts in tg[:60]:
            try:
                v = gen.gen_valid(rng, doc, ts, depth=2)
            except gen.Unsat:
                unsat += 1; continue
            except RecursionError:
                err += 1; continue
            try:
                if o.valid(v, tptr): ok += 1
                else: bad += 1
            except Exception:
                err += 1
    print("  best-effort instances for fixture definitions: %d valid, %d oracle-invalid, %d Unsat/unsupported, %d oracle errors (dangling refs etc.)"
          % (ok, bad, unsat, err))
    d = gen.merge_descriptions([gen.describe(doc) for _, doc in fx])
    print("  fixture constructs: " + ", ".join("%s %d" % (k, v["count"]) for k, v in sorted(d["constructs"].items(), key=lambda kv: -kv[1]["count"])[:18]))

    section("oracle CLI (bulk, plain-python bridge)")
    rng = random.Random(seed + 1)
    reqs, want = [], []
    for i in range(25):
        doc = gen.gen_universe(rng, 3, gen.FEATURE_SETS["formats"])
        o = oracle.Oracle(doc)
        reqs.append({"doc_id": "d%d" % i, "doc": doc}); want.append("ok")
        for tptr, ts in targets(doc):
            v = gen.gen_valid(rng, doc, ts)
            reqs.append({"doc_id": "d%d" % i, "schema": tptr, "value": v}); want.append(o.valid(v, tptr))
            for _, w, _, _ in gen.mutants(rng, doc, ts, v):
                reqs.append({"doc": doc, "schema": ts, "value": w}); want.append(o.valid(w, ts))
    t0 = time.time()
    got = gen.run_oracle(reqs)
    print("  %d requests in one subprocess: %.2fs, agreement with in-process: %s" % (len(reqs), time.time() - t0, got == want))
    expect(got == want, "oracle CLI agrees with in-process Oracle")
    p = subprocess.run(["python3", "-c", "import sys; sys.path.insert(0, %r); import gen, shrink, oracle; print('stdlib import ok')" % HERE],
                       capture_output=True, text=True)
    print("  " + (p.stdout.strip() or p.stderr.strip()[-300:]))
    expect(p.returncode == 0, "plain python3 can import gen, shrink, oracle")


def main():
    ap = argparse.ArgumentParser()
    ap.add_argument("--n", type=int, default=300)
    ap.add_argument("--n-other", type=int, default=100)
    ap.add_argument("--seed", type=int, default=int(os.environ.get("VERIF_SEED", "1")))
    ap.add_argument("--no-typify", action="store_true")
    ap.add_argument("--sets", default="default,formats,recursive,allof,not,defaults,idioms,c05,c06,c09,all,hostile")
    ap.add_argument("--json", default=None)
    a = ap.parse_args()
    os.makedirs(CACHE, exist_ok=True)
    do_typify = not a.no_typify
    if do_typify and not os.path.exists(TYPIFY):
        print("building cargo-typify ...")
        subprocess.run("cd %s && cargo build --offline -p cargo-typify" % gen.REPO, shell=True)
        do_typify = os.path.exists(TYPIFY)
    unit_tests()
    misc_tests(a.seed)
    results = []
    for name in a.sets.split(","):
        results.append(universe_sweep(name, gen.FEATURE_SETS[name], a.n if name == "default" else a.n_other, a.seed, do_typify))
    section("construct distribution (documents using it / total occurrences)")
    for r in results:
        print(" [%s]" % r["name"])
        print_distribution(r)
    section("summary")
    if do_typify:
        print("  typify acceptance: " + ", ".join("%s %.1f%%" % (r["name"], 100 * r["typify"]["rate"]) for r in results))
    tot = {m: [0, 0] for m, _ in gen.MUTATORS}
    for r in results:
        for m in tot:
            tot[m][0] += r["kills"][m][0]; tot[m][1] += r["kills"][m][1]
    print("  mutator kill rates overall: " + ", ".join("%s %.1f%% (%d)" % (m, 100.0 * k / a if a else 0, a) for m, (a, k) in tot.items()))
    if a.json:
        with open(a.json, "w") as f: json.dump(results, f, indent=1)
    if FAILS:
        print("\n%d EXPECTATION(S) FAILED" % len(FAILS))
        for f in FAILS: print("  -", f)
        sys.exit(1)
    print("\nall expectations met")


if __name__ == "__main__":
    main()

#!/usr/bin/env python3
"""Prompt for a fresh sub-agent that is to produce realistic breaking changes for ONE property (it sees the property's text and
its own scratch worktree only, nothing from /verif).   seedprompt.py <Cxx> <round>  -> /tmp/seedprompts<round>/<Cxx>.txt
Also prepares /tmp/seed<round>_<Cxx>/wt (a detached worktree of /repo's HEAD)."""
import json, os, subprocess, sys
prop, rnd = sys.argv[1], int(sys.argv[2])
P = {json.loads(l)["id"]: json.loads(l) for l in open("/verif/properties.jsonl")}[prop]
base = "/tmp/seed%d_%s" % (rnd, prop)
os.makedirs(base + "/out", exist_ok=True)
if not os.path.isdir(base + "/wt"):
    subprocess.run("git -C /repo worktree add --detach %s/wt HEAD -q" % base, shell=True, check=True)
earlier = []
for d in sorted(os.listdir("/verif/seeded")):
    if d.startswith(prop + "-"):
        m = json.load(open("/verif/seeded/%s/meta.json" % d))
        earlier.append("- " + (m.get("summary") or "")[:420])
files = sorted({f for d in os.listdir("/verif/seeded") if d.startswith(prop + "-")
                for f in json.load(open("/verif/seeded/%s/meta.json" % d)).get("files", [])})
txt = """You are helping test a verification framework for the Rust project oxidecomputer/typify (a compiler from JSON Schema to Rust types with serde attributes). You have your own scratch git worktree of the project at {b}/wt (detached HEAD at the commit under study). Work ONLY inside {b} . Do not read or touch /repo, /verif or any other directory outside {b} (except reading the Rust toolchain / cargo registry as builds need). There is no network: always pass --offline to cargo and use CARGO_TARGET_DIR={b}/target for every cargo command, e.g.
  cd {b}/wt && CARGO_TARGET_DIR={b}/target cargo test --workspace --no-fail-fast --offline
(the existing suite has 132 tests and passes on the unchanged worktree; a cold build takes a few minutes).

Here is a semantic property that the project is supposed to satisfy:

ID: {id}
TITLE: {title}
STATEMENT: {st}
QUANTIFIER: {q}
WHY TESTS CANNOT SETTLE IT: {why}

Your task: produce TWO independent, realistic changes to the source of typify (each the kind of thing a maintainer might plausibly commit: a refactor, tidy-up, optimisation, 'simplification', small feature, or bug-fix attempt that goes subtly wrong) such that, for each change separately:
 1. the whole workspace still compiles and the existing test suite (all 132 tests, unedited, including the snapshot/expectorate fixtures) still passes with the change applied;
 2. the property above is broken by the change: there is a concrete input (schema / settings / sequence of calls / instance / string ...) on which the property holds WITHOUT the change and fails WITH it;
 3. the breakage needs something specific to manifest - an unusual input, a particular combination of settings, a multi-step sequence of operations, or two cooperating sites that each look fine alone - and is NOT something ordinary use or the existing fixtures would expose at once. Prefer changes deep in the logic the property depends on, and make the two changes differ in mechanism and in the source location they touch. Earlier work already produced the following changes for this property (do NOT repeat these mechanisms or close variants of them):
{earlier}
They touched: {files}. Find DIFFERENT mechanisms: other functions, other files (for example merge.rs, convert.rs arms not listed, structs.rs, enums.rs, cycles.rs, defaults.rs, value.rs, output.rs, util.rs, rust_extension.rs, conversions.rs, lib.rs finalisation, type_entry.rs templates, typify-macro, cargo-typify), or an interaction between two places; favour breakages that need a combination of schema features, a particular order of API calls, or a particular settings combination. Do not touch tests, fixtures or snapshot files. Do not add new cfg flags. Changes only to non-test source under typify-impl/src, typify/src, typify-macro/src or cargo-typify/src.
 4. you supply a demonstration: a small test or program (for example an untracked file under example-macro/examples/, typify-impl/tests/, or a scratch crate under {b}/demoN with a path dependency on the worktree crates, copying {b}/wt/Cargo.lock and rust-toolchain.toml so it resolves offline) that FAILS (or prints a visibly wrong result) with the change and PASSES without it. Actually run it both ways and record the outputs.

Deliverables, for change N in {{1,2}}, in directory {b}/out/N/ :
  patch.diff   - `git diff` of the source change only (relative to HEAD, applies with `git apply` at the worktree root); must not contain the demonstration files
  demo.md      - the change explained; the exact input; the demonstration program text in full; the exact commands you ran; the observed output without and with the change
  any demonstration source files (demo.rs, schema.json, ...)
  meta.json    - {{"property": "{id}", "summary": "<one or two sentences>", "files": [<changed source files>], "tests_pass": true, "mechanism": "<which clause of the property fails and through which code path>", "needs": "<what specific input/settings/sequence is needed to manifest>"}}
Before finishing, for each change: reset the worktree (git checkout -- . ; remove untracked demo files), apply ONLY patch.diff, run the full test suite and confirm it passes (record the summary in demo.md). Leave the worktree clean (git checkout -- . and git clean -fd) when done, and delete {b}/target and any scratch demo crates' target directories at the very end to free disk space. If after serious effort you can only produce one qualifying change, deliver one and say so. In your final message give, for each change, a three-line summary.""".format(
    b=base, id=prop, title=P["title"], st=P["statement"], q=P["quantifier"]["text"], why=P["why_tests_cant"],
    earlier="\n".join(earlier) or "(none)", files=", ".join(files) or "(none)")
os.makedirs("/tmp/seedprompts%d" % rnd, exist_ok=True)
open("/tmp/seedprompts%d/%s.txt" % (rnd, prop), "w").write(txt)
print(base, len(txt))

"""C01 — whenever ingestion succeeds the output is a complete Rust module that parses and type-checks;
schemas inside the supported fragment are never rejected.

Proof (lean/TypifyModel/Proofs/C01.lean over Model/Wf.lean): a decidable well-formedness predicate `WF` on
(settings, IR), a specification `Compiles` of the rustc / serde_derive rules relevant to the items typify
emits, `wf_compiles : WF = true -> Compiles (modOf ..)` for ALL IRs and settings (conjunct by conjunct), and
`render_total` / `panic_sites_covered` (every panic site reachable from to_stream(), regenerated from the source
by the translator table T9, is excluded by a WF conjunct).
Per run (translation validation): `WF` is evaluated by drv_c01 on every REAL IR dump; the correspondence is
    WF(dump) true  <=>  to_stream() returns, syn parses it as a File, rustc accepts it   (batch pipeline)
* WF true and the real output fails      -> the `Compiles` spec is wrong about Rust (MODEL-GAP) -> VIOLATION with the input
* WF false and rustc accepts             -> WF too strict: correspondence broken (except the conjuncts declared
                                            conservative: `no_prelude_shadow`, `no_module_clash`)
* WF false and the real output fails     -> a defect of typify: attributed to a listed known finding by WHICH
                                            conjunct is false + the rustc error code (+ a provenance predicate), else VIOLATION
"Never rejected" cannot be proved without a model of convert_schema; it is covered at implementation level:
for documents of the supported fragment (schemars-shaped generator output, the README's constructs) every
ingestion call must answer ok."""
import copy, json, os, re, subprocess, collections, time
import vlib, m2, gen

PROOF_TARGETS = ["TypifyModel.Proofs.C01", "TypifyModel.Proofs.C01Findings"]
PROOF_FILES = ["Proofs/C01.lean", "Proofs/C01Findings.lean", "Proofs/Lemmas/WfLemmas.lean", "Proofs/Lemmas/WfItems.lean",
               "Model/Wf.lean", "Model/PanicTable.lean"]
CONSERVATIVE = {"no_prelude_shadow", "no_module_clash"}
HASHMAP, BTREEMAP = "::std::collections::HashMap", "::std::collections::BTreeMap"
SUPPORTED_SETS = ("default", "formats", "recursive", "defaults")

def _ref(n): return {"$ref": "#/definitions/" + n}

# ------------------------------------------------------------------------------------------ README constructs
README = [
 ("builtin", {"title": "Root", "type": "object", "required": ["a", "b"], "properties": {
     "a": {"type": "integer", "minimum": 0, "maximum": 255}, "b": {"type": "number"}, "c": {"type": "string"},
     "d": {"type": "boolean"}, "e": {"type": "string", "format": "uuid"}, "f": {"type": "string", "format": "date-time"},
     "g": {"type": "integer", "format": "int32"}, "h": {"type": "integer", "minimum": 1}}}),
 ("arrays", {"title": "Root", "type": "object", "properties": {
     "v": {"type": "array", "items": {"type": "string"}}, "s": {"type": "array", "items": {"type": "integer"}, "uniqueItems": True},
     "t": {"type": "array", "items": [{"type": "string"}, {"type": "integer"}], "minItems": 2, "maxItems": 2},
     "fixed": {"type": "array", "items": {"type": "integer"}, "minItems": 3, "maxItems": 3}}}),
 ("objects", {"title": "Root", "type": "object", "required": ["r"], "properties": {
     "r": {"type": "string"}, "o": {"type": "string"}, "ov": {"type": "array", "items": {"type": "string"}},
     "m": {"type": "object", "additionalProperties": {"type": "integer"}}, "any": {"type": "object"},
     "inner": {"type": "object", "properties": {"x": {"type": "integer"}}}}}),
 ("oneof", {"title": "Root", "type": "object", "definitions": {
     "Ext": {"oneOf": [{"type": "object", "required": ["A"], "properties": {"A": {"type": "integer"}}, "additionalProperties": False},
                       {"type": "object", "required": ["B"], "properties": {"B": {"type": "object", "properties": {"x": {"type": "string"}}}}, "additionalProperties": False},
                       {"type": "string", "enum": ["C", "D"]}]},
     "Int": {"oneOf": [{"type": "object", "required": ["kind", "x"], "properties": {"kind": {"type": "string", "enum": ["a"]}, "x": {"type": "integer"}}},
                       {"type": "object", "required": ["kind"], "properties": {"kind": {"type": "string", "enum": ["b"]}}}]},
     "Adj": {"oneOf": [{"type": "object", "required": ["t", "c"], "properties": {"t": {"type": "string", "enum": ["a"]}, "c": {"type": "integer"}}},
                       {"type": "object", "required": ["t", "c"], "properties": {"t": {"type": "string", "enum": ["b"]}, "c": {"type": "array", "items": {"type": "string"}}}}]},
     "Unt": {"oneOf": [{"type": "string"}, {"type": "integer"}, {"type": "array", "items": {"type": "boolean"}}]},
     "Nul": {"oneOf": [{"type": "string"}, {"type": "null"}]}}}),
 ("allof", {"title": "Root", "type": "object", "definitions": {
     "A": {"type": "object", "required": ["a"], "properties": {"a": {"type": "string"}}},
     "B": {"type": "object", "properties": {"b": {"type": "integer"}}},
     "AB": {"allOf": [_ref("A"), _ref("B"), {"type": "object", "properties": {"c": {"type": "boolean"}}}]},
     "One": {"allOf": [_ref("A")]}}}),
 ("anyof", {"title": "Root", "type": "object", "definitions": {
     "A": {"type": "object", "required": ["a"], "properties": {"a": {"type": "string"}}},
     "B": {"type": "object", "required": ["b"], "properties": {"b": {"type": "integer"}}},
     "Any": {"anyOf": [_ref("A"), _ref("B")]}}}),
 ("additional", {"title": "Root", "type": "object", "definitions": {
     "Closed": {"type": "object", "properties": {"a": {"type": "string"}}, "additionalProperties": False},
     "Open": {"type": "object", "properties": {"a": {"type": "string"}}, "additionalProperties": True},
     "Flat": {"type": "object", "properties": {"a": {"type": "string"}}, "additionalProperties": {"type": "integer"}},
     "FlatAny": {"type": "object", "properties": {"a": {"type": "string"}}, "additionalProperties": {}},
     "Map": {"type": "object", "additionalProperties": {"type": "string"}}}}),
 ("recursive", {"title": "Root", "type": "object", "definitions": {
     "Node": {"type": "object", "required": ["v"], "properties": {"v": {"type": "integer"}, "next": _ref("Node"),
              "kids": {"type": "array", "items": _ref("Node")}}},
     "Expr": {"oneOf": [{"type": "object", "required": ["Lit"], "properties": {"Lit": {"type": "integer"}}, "additionalProperties": False},
                        {"type": "object", "required": ["Neg"], "properties": {"Neg": _ref("Expr")}, "additionalProperties": False}]}}}),
]

# ------------------------------------------------------------------------------------------ known findings (C01-specific witnesses)
def _root(defs, **kw):
    d = {"title": "Root", "type": "object"}; d.update(kw); d["definitions"] = defs; return d

# ------------------------------------------------------------------------------------------ cases
class Case:
    __slots__ = ("tag", "request", "supported", "nontrivial", "b", "wf", "abort", "kind")
    def __init__(self, tag, calls, settings=None, supported=False):
        self.tag, self.request, self.supported = tag, {"settings": settings or {}, "calls": calls}, supported
        self.b = None; self.wf = None; self.abort = False; self.kind = None

SETTINGS6 = [{}, {"struct_builder": True}, {"map_type": BTREEMAP}, {"derives": ["PartialEq"]},
             {"struct_builder": True, "map_type": BTREEMAP, "derives": ["PartialEq"], "type_mod": "types"},
             {"map_type": HASHMAP, "type_mod": "my_types", "struct_builder": True}]

def splits(doc):
    """history splits of one document: the root call; defs first then the root as a type; reversed defs order"""
    out = [("root", [{"root": doc}])]
    defs = doc.get("definitions") or doc.get("$defs")
    selfref = '"$ref": "#"' in json.dumps(doc)      # `#` only exists after add_root_schema: such documents are not split
    if isinstance(defs, dict) and defs and not selfref:
        rest = {k: v for k, v in doc.items() if k not in ("definitions", "$defs", "$schema")}
        name = rest.get("title")
        tcall = {"type": rest, "name": name if isinstance(name, str) else None}
        items = [[k, v] for k, v in defs.items()]
        typed = isinstance(rest, dict) and (set(rest) - {"title", "description", "$id", "$comment"})
        out.append(("defs+type", [{"defs": defs}] + ([tcall] if typed else [])))
        out.append(("defs_rev+type", [{"defs_list": items[::-1]}] + ([tcall] if typed else [])))
    return out

def fixture_list(thorough):
    out = []
    for name, doc in gen.fixture_docs():
        b = os.path.basename(name)[:-5]
        if b in ("github", "vega"):
            if not thorough: continue
        out.append((b, doc))
    return out

def build_cases(ctx):
    thorough = ctx.tier == "thorough"
    rng = ctx.rng
    cases = []
    # README constructs (supported fragment), every settings assignment
    for name, doc in README:
        for k, st in enumerate(SETTINGS6 if thorough else SETTINGS6[:4]):
            for sn, calls in (splits(doc) if (thorough or k == 0) else splits(doc)[:1]):
                cases.append(Case("readme:%s/%d/%s" % (name, k, sn), calls, st, supported=True))
    # fixtures x settings x history splits
    for b, doc in fixture_list(thorough):
        big = b in ("github", "vega")
        sts = SETTINGS6[:2] if big else (SETTINGS6 if thorough else [SETTINGS6[rng.randrange(6)], SETTINGS6[0]])
        for k, st in enumerate(sts):
            sp = splits(doc)
            for sn, calls in (sp if (thorough and not big) else sp[:1] + (sp[1:2] if k == 0 and not big else [])):
                cases.append(Case("fixture:%s/%d/%s" % (b, SETTINGS6.index(st), sn), calls, st))
    # type-directed generated schemas over ALL feature sets (hostile names included)
    per = 40 if thorough else 9
    for fs in sorted(gen.FEATURE_SETS):
        feats = gen.FEATURE_SETS[fs]
        for i in range(per):
            f2 = set(feats)
            if i % 5 == 4: f2 |= {"titles"}
            if i % 7 == 6 and fs not in ("hostile",): f2 |= {"root_enum"}
            doc = gen.gen_universe(rng, 2 + i % 7, f2)
            st = SETTINGS6[(i + len(fs)) % 6]
            sup = fs in SUPPORTED_SETS and "root_enum" not in f2
            sp = splits(doc)
            sn, calls = sp[i % len(sp)] if i % 3 == 2 else sp[0]
            cases.append(Case("gen:%s:%d/%s" % (fs, i, sn), calls, st, supported=sup))
            if "defaults" in f2 and i % 2 == 0:
                # the same document with the integers inside its defaults spelled 3.0 (the same JSON numbers; rejection is allowed)
                d2, nresp = gen.respell_integer_defaults(rng, doc)
                if nresp: cases.append(Case("gen:%s:%d/respelled" % (fs, i), [{"root": d2}], st, supported=False))
    # the add_type_with_name route on its own: one schema with every definition in-lined (nested in-line types, defaults inside them),
    # as the only call of the history and after an unrelated batch
    for i in range(60 if thorough else 10):
        doc = gen.gen_universe(rng, 1 + i % 3, gen.FEATURE_SETS["defaults"] - ({"enum_untagged"} if i % 2 else set()))
        one = gen.inline_refs(doc)
        if one is None or len(json.dumps(one)) > 6000: continue
        tcall = {"type": one, "name": "Root"}
        calls = [tcall] if i % 3 else [{"defs": {"Unrelated": {"type": "object", "properties": {"u": {"type": "string"}}}}}, tcall]
        cases.append(Case("inlined:%d" % i, calls, SETTINGS6[i % 6] if i % 2 else {}, supported=False))
    # histories over DIFFERENT documents: what an earlier call left in the space (shared default functions, uses_* flags, names)
    # must still be rendered after a later, unrelated call; definitions renamed apart, both orders
    from props import c16 as _c16
    for i in range(40 if thorough else 8):
        fs = "defaults" if i % 2 == 0 else sorted(gen.FEATURE_SETS)[i % len(gen.FEATURE_SETS)]
        da = _c16.rename_doc(gen.gen_universe(rng, 1 + i % 3, gen.FEATURE_SETS[fs]), "Aa")
        db = _c16.rename_doc(gen.gen_universe(rng, 1 + (i // 2) % 3, gen.FEATURE_SETS["defaults"]), "Bb")
        if not da.get("definitions") or not db.get("definitions"): continue
        calls = [{"defs": da["definitions"]}, {"defs": db["definitions"]}]
        cases.append(Case("twodocs:%d" % i, calls if i % 4 < 2 else calls[::-1], SETTINGS6[i % 6] if i % 3 == 0 else {}, supported=False))
    for i, (_, a, b) in enumerate(_c16.default_split_cases(rng, 12 if thorough else 4)):
        cases.append(Case("twodefaults:%d" % i, [{"defs_list": a}, {"defs_list": b}], {}, supported=True))
    # recursive documents over every containment edge kind (C07's schema generator), and the shared corpus of awkward documents
    try:
        from props import c07
        for k in range(150 if thorough else 24):
            d = c07.gen_schema(rng)["schema"]
            if "$ref\": \"#/definitions/" in json.dumps(d) and not d.get("definitions"): continue    # dangling references
            cases.append(Case("cyc:%d" % k, [{"root": d}], SETTINGS6[k % 6] if k % 3 == 0 else {}, supported=False))
    except Exception as e:
        ctx.notes.append("c07.gen_schema unavailable: %r" % (e,))
    import corpus
    for cid, cdoc, cst in corpus.documents():
        if cid.startswith(("hand:", "file:")): cases.append(Case("corpus:" + cid, [{"root": cdoc}], cst, supported=False))
    # settings drawn from the document (patch / replace / convert): c14's plans, compilable ones only
    try:
        from props import c14
        docs = [("readme:" + n, d) for n, d in README if d.get("definitions")] + \
               [("gen14:%d" % k, gen.gen_universe(rng, 3 + k % 5, gen.FEATURE_SETS["default"])) for k in range(30 if thorough else 4)]
        base = m2.tvh_ir([{"settings": {}, "calls": [{"root": d}]} for _, d in docs])
        for (tag, d), a in zip(docs, base):
            if not (a.get("calls") and a["calls"][-1].startswith("ok")): continue
            for p in c14.draw_plans(rng, tag, d, a, 8 if thorough else 4, thorough):
                if p.compilable and p.primary:
                    cases.append(Case("plan:" + p.tag, p.request["calls"], p.settings, supported=False))
    except Exception as e:
        ctx.notes.append("settings drawn by c14.draw_plans unavailable: %r" % (e,))
    # small-scope sweep: every schema with at most 3 grammar nodes, as a definition and as the root
    n = 0
    for s in gen.enum_schemas(3):
        n += 1
        if not thorough and n % 6: continue
        cases.append(Case("enum3:def:%d" % n, [{"root": _root({"T": s})}], SETTINGS6[n % 2], supported=True))
        if thorough or n % 12 == 0:
            cases.append(Case("enum3:root:%d" % n, [{"root": dict(s, title="Root")}], {}, supported=False))
    # fixture mutations (idiom rewrites: nullable, const, allOf wrapping, reordering, titles)
    fx = [(b, d) for b, d in fixture_list(False) if len(json.dumps(d)) < 20000]
    for k in range(120 if thorough else 10):
        b, d = fx[rng.randrange(len(fx))]
        try: d2, log = gen.mutate_idioms(rng, copy.deepcopy(d), rng.randint(1, 4))
        except Exception: continue
        if log: cases.append(Case("mut:%s:%d" % (b, k), [{"root": d2}], SETTINGS6[k % 6]))
    return cases

# ------------------------------------------------------------------------------------------ running the real code
def screen_aborts(reqs):
    """indices of requests that kill the harness process (stack overflow: not a catchable panic)"""
    bad = []; start = 0
    while start < len(reqs):
        inp = "".join(json.dumps(r) + "\n" for r in reqs[start:])
        p = subprocess.run([vlib.tvh("ir")], input=inp, capture_output=True, text=True)
        if p.returncode == 0: break
        n = len([l for l in p.stdout.split("\n") if l])
        cand = start + n
        q = subprocess.run([vlib.tvh("ir")], input=json.dumps(reqs[cand]) + "\n", capture_output=True, text=True) if cand < len(reqs) else None
        if q is None or q.returncode == 0:
            # buffered answers were lost: find the culprit one by one from `start`
            cand = None
            for i in range(start, len(reqs)):
                q = subprocess.run([vlib.tvh("ir")], input=json.dumps(reqs[i]) + "\n", capture_output=True, text=True)
                if q.returncode != 0: cand = i; break
            if cand is None: break
        bad.append(cand); start = cand + 1
    return bad

def wf_answers(pairs):
    """pairs: [(dump, settings)] -> drv_c01 answers (None where the driver could not read the dump)"""
    if not pairs: return []
    lines = ["wf c%d %s" % (k, json.dumps({"dump": d, "settings": s})) for k, (d, s) in enumerate(pairs)]
    out = m2.run_bin(vlib.drv("c01"), lines)
    res = []
    for l in out:
        try: res.append(json.loads(l))
        except ValueError: res.append(None)
    return res + [None] * (len(pairs) - len(res))

def outcome(c):
    """what the real code did with the case: ('ok',) | ('ingest', kind) | ('render_panic',) | ('noparse',) | ('rustc', codes)"""
    b = c.b
    if c.abort: return ("abort",)
    if b.error: return ("request_error", b.error)
    if not b.calls or any(not r.startswith("ok") for r in b.calls):
        bad = [r for r in b.calls if not r.startswith("ok")]
        return ("ingest", bad[0] if bad else "none")
    if b.render != "ok": return ("render_panic",)
    if not b.parses: return ("noparse",)
    if b.compiled: return ("ok",)
    return ("rustc", sorted({str(e.get("code")) for e in b.rustc_errors}))

# ------------------------------------------------------------------------------------------ attribution
def all_findings():
    p = os.path.join(vlib.VERIF, "KNOWN_FINDINGS.json")
    return json.load(open(p)).get("findings", []) if os.path.exists(p) else []

def _defs_of(req):
    out = {}
    for call in req["calls"]:
        if "root" in call:
            for key in ("definitions", "$defs"): out.update(call["root"].get(key) or {})
        if "defs" in call: out.update(call["defs"])
        if "defs_list" in call: out.update({k: v for k, v in call["defs_list"]})
    return out

def def_name_collision(dump):
    """two definition keys stored under one type name (C08-def-collision, read off the real IR)"""
    es = dump["entries"]; by = collections.defaultdict(set)
    for k, tid in dump.get("ref_to_id", {}).items():
        e = es.get(str(tid))
        if k.startswith("def:") and e and e.get("name"): by[e["name"]].add(k)
    return {n for n, ks in by.items() if len(ks) > 1}

def nullable_def_names(dump):
    """a definition whose entry is a newtype over Option<X> with X a struct/enum of the SAME name"""
    es = dump["entries"]; out = set()
    for e in es.values():
        if e["kind"] == "newtype":
            i = es.get(str(e["type_id"]))
            if i and i["kind"] == "option": i = es.get(str(i["id"]))
            if i and i.get("name") == e["name"]: out.add(e["name"])
    return out

CASCADE = {"E0428": {"E0119", "E0072", "E0391", "E0560", "E0609", "E0308", "E0599", "E0592", "E0223", "E0063", "E0027", "E0026", "E0061", "E0533", "E0532", "E0618", "E0423", "E0574", "E0277", "E0107", "None"},
           "E0124": {"E0062", "E0592", "E0308", "E0025", "E0416", "E0560", "E0609", "None"}}

# findings of other properties whose mechanism also breaks C01, with a witness that fails to COMPILE
REUSED = {
 "C08-field-collision": {"conjunct": "idents", "witness": {"settings": {}, "calls": [{"root": {"title": "T", "type": "object", "properties": {"foo-bar": {"type": "string"}, "foo_bar": {"type": "string"}}}}]}},
 "C08-extra-field-collision": {"conjunct": "idents", "witness": {"settings": {}, "calls": [{"root": {"title": "T", "type": "object", "properties": {"Extra": {"type": "string"}}, "additionalProperties": {"type": "integer"}}}]}},
 "C08-def-collision": {"conjunct": "items_unique", "witness": {"settings": {}, "calls": [{"root": {"title": "Root", "type": "object", "definitions": {"foo-bar": {"type": "string"}, "foo_bar": {"type": "string"}}}}]}},
 "C08-variant-panic": {"conjunct": "(ingestion panics)", "witness": {"settings": {}, "calls": [{"root": {"title": "T", "type": "string", "enum": ["a", "A"]}}]}},
 "C06-nested-default": {"conjunct": "defaults_typed", "witness": {"settings": {}, "calls": [{"root": {"title": "Root", "type": "object",
     "properties": {"s": {"allOf": [_ref("Inner")], "default": {}}},
     "definitions": {"Inner": {"type": "object", "properties": {"e": {"allOf": [_ref("E")], "default": "q"}}}, "E": {"type": "string", "enum": ["p", "q"]}}}}]},
     "what": "a struct default that omits a member with its own default writes `Default::default()` for it: E0277 when the member's type (an enum) has no Default impl"},
 "C04-root-route-recursive-root": {"conjunct": "items_unique", "witness": {"settings": {}, "calls": [{"root": {"title": "Tree", "type": "object",
     "properties": {"kids": {"type": "array", "items": _ref("Tree")}},
     "definitions": {"Tree": {"type": "object", "properties": {"kids": {"type": "array", "items": _ref("Tree")}}}}}}]},
     "what": "a root schema whose title is also a definition (what schemars emits for a self-referential root type): two items of that name (E0428)"},
 "C04-root-route-enum-struct-variant": {"conjunct": "(ingestion panics)", "witness": {"settings": {}, "calls": [{"root": {"title": "Root",
     "oneOf": [{"type": "object", "required": ["S"], "properties": {"S": {"type": "object", "properties": {"x": {"type": "integer"}}}}, "additionalProperties": False},
               {"type": "string", "enum": ["U"]}]}}]},
     "what": "a titled root schema that is a union with an inline object payload (schemars' root schema of an enum with a struct variant, or oneOf[object, null]) panics at ingestion (type_entry.rs get_type_name(..).unwrap())"},
}

def root_def_names(dump):
    """the root schema and a definition stored under one type name (C04-root-route-recursive-root)"""
    es = dump["entries"]; r2i = dump.get("ref_to_id", {})
    root = es.get(str(r2i.get("#"))) if "#" in r2i else None
    if not root or not root.get("name"): return set()
    for k, tid in r2i.items():
        e = es.get(str(tid))
        if k.startswith("def:") and e and e.get("name") == root["name"] and tid != r2i["#"]: return {root["name"]}
    return set()

def attribute(c, findings):
    """ids of the known findings that explain the failure of case c (WF false, real output fails), or None.
    Identification = WHICH conjunct is false (+ the provenance predicate on the IR dump) + the rustc error class."""
    wf = c.wf; oc = outcome(c)
    false = [n for n, b in wf["conjuncts"].items() if not b]
    wit = dict(wf.get("witnesses", {}))
    if wf.get("unsupported") and "idents" in false:
        # identifiers outside the model's ASCII domain are not judged; the remaining witnesses are
        wit["idents"] = [w for w in wit.get("idents", []) if "." in w or all(ord(ch) < 128 for ch in w)]
        if not wit["idents"]: false.remove("idents")
        if not false: return None
    codes = set(oc[1]) if oc[0] == "rustc" else set()
    ids = set(); allowed = set(); primaries = []
    def use(fid, primary, extra=()):
        ids.add(fid); allowed.update(primary); allowed.update(extra); primaries.append(set(primary))
        for p in primary: allowed.update(CASCADE.get(p, ()))
    dump = c.b.dump
    dup_items = set(wit.get("items_unique", []))
    for n in false:
        if n == "items_unique":
            dc, nd, rd = def_name_collision(dump), nullable_def_names(dump), root_def_names(dump)
            for name in dup_items:
                if name in dc: use("C08-def-collision", ["E0428"])
                elif name in rd: use("C04-root-route-recursive-root", ["E0428"])
                elif name in nd: use("C01-nullable-def-name", ["E0428"])
                else: use("C01-derived-name-collision", ["E0428"])
        elif n == "idents":
            for w in wit.get("idents", []):
                if w.endswith(".extra"): use("C08-extra-field-collision", ["E0124"])
                elif "." in w: use("C08-field-collision", ["E0124"])
                else: return None
        elif n == "impls_coherent":
            for w in wit.get("impls_coherent", []):
                a, _, b = w.partition("  /  ")
                selfty = a.split(" for ")[-1] if " for " in a else ""
                if a == b and selfty in dup_items: continue          # the item itself is emitted twice
                if w.startswith(("blanket TryFrom: impl TryFrom<::std::string::String> for", "blanket TryFrom: impl TryFrom<&::std::string::String> for")):
                    use("C01-tryfrom-blanket", ["E0119"]); continue
                if w.startswith("reflexive: ") and "Box<" in w and "deref_finite" in false: use("C01-alias-cycle-deref", ["E0055"], ["E0119"]); continue
                if a.startswith("impl Default for") and "Default" in (c.request["settings"].get("derives") or []): use("C01-derive-default-conflict", ["E0119"])
                elif "Vec<" in a and a != b and a.replace("::std::vec::Vec<", "Vec<") == b.replace("::std::vec::Vec<", "Vec<"): use("C01-set-vec-from", ["E0119"])
                elif dup_items: continue
                else: return None
        elif n == "derivable":
            for w in wit.get("derivable", []):
                if "tuple of" in w or "array of" in w: use("C01-arity-limits", ["E0277"])
                elif "map key is not Eq + Hash" in w: use("C01-map-key-not-hashable", ["E0277"])
                else: return None
        elif n == "no_prelude_shadow": use("C01-prelude-shadow", ["E0308", "E0107", "E0599"], ["E0423", "E0574", "E0532", "E0533", "E0618", "E0061", "E0277", "E0119", "E0412", "E0404", "None"])
        elif n == "default_fns_unique": use("C01-default-fn-clash", ["E0428"])
        elif n == "deref_finite": use("C01-alias-cycle-deref", ["E0055"])
        elif n == "defaults_typed": use("C06-nested-default", ["E0277", "E0308"], ["E0063", "E0560", "E0599", "None"])
        elif n == "serde_legal":
            rm = c.b.render_message or ""
            if oc[0] == "render_panic" and "assertion failed: variants" in rm: use("C01-untagged-unit-assert", [])
            else: return None
        elif n == "ids_resolve":
            if all("is not a path" in w for w in wit.get("ids_resolve", [])) and oc[0] == "render_panic": use("C01-native-path-panic", [])
            else: return None
        else:
            return None
    known = {f["id"] for f in findings}
    if not ids or not ids <= known: return None
    if oc[0] == "rustc":
        dup = bool(codes & {"E0428", "E0124"}) and any(p & {"E0428", "E0124"} for p in primaries)   # duplicate definitions: any follow-up error
        if not dup and not codes <= allowed: return None
        if not any(codes & p for p in primaries if p): return None
    if oc[0] in ("render_panic", "noparse") and not ids & {"C01-native-path-panic", "C01-prelude-shadow", "C01-untagged-unit-assert"}: return None
    return sorted(ids)

PANIC_RULES = [
    (re.compile(r"Failed to make unique variant names"), "C08-variant-panic"),
    (re.compile(r"type_entry\.rs:\d+: called `Option::unwrap\(\)` on a `None` value"), "C04-root-route-enum-struct-variant"),
]

def allof_self_ref(req):
    """a reference cycle among definitions every one of which merges (`allOf`): try_merge follows the references of
    overlapping members without a visited set (the one-definition case is the finding's canonical witness)"""
    defs = {k: v for k, v in _defs_of(req).items() if isinstance(v, dict)}
    txt = {k: json.dumps(v) for k, v in defs.items()}
    merging = {k for k, t in txt.items() if '"allOf"' in t}
    edges = {k: {m for m in merging if ('"$ref": "#/definitions/%s"' % m) in txt[k]} for k in merging}
    for k in merging:
        seen, work = set(), list(edges[k])
        while work:
            m = work.pop()
            if m == k: return True
            if m in seen: continue
            seen.add(m); work += list(edges[m])
    return False

def attribute_ingest(c, findings):
    """a panic / error during ingestion, by the panic site + a predicate on the document"""
    known = {f["id"] for f in findings}
    msgs = [m for m in (c.b.messages or []) if m]
    for rx, fid in PANIC_RULES:
        if any(rx.search(m) for m in msgs) and fid in known:
            if fid == "C04-root-route-enum-struct-variant":
                roots = [call["root"] for call in c.request["calls"] if "root" in call] + \
                        [call["type"] for call in c.request["calls"] if "type" in call]
                if not any(isinstance(r, dict) and ("oneOf" in r or "anyOf" in r) for r in roots): continue
            return [fid]
    return None

# ------------------------------------------------------------------------------------------ evaluate
def evaluate(ctx, cases, findings, driver_ok):
    import batch
    reqs = [c.request for c in cases]
    bad = set(screen_aborts(reqs))
    for i in bad: cases[i].abort = True
    b = batch.Batch(ctx, shards=14, assertions=False, ops=(), allow_failed_calls=False)
    for i, c in enumerate(cases):
        if i not in bad: c.b = b.add_case(c.request["calls"], c.request["settings"], tag=c.tag)
    b.prepare(); b.build()
    live = [c for c in cases if c.b is not None and c.b.dump is not None and not c.b.error]
    if driver_ok:
        for c, a in zip(live, wf_answers([(c.b.dump, c.request["settings"]) for c in live])): c.wf = a
    return b

def classify(ctx, cases, findings):
    """-> dict of lists"""
    R = collections.defaultdict(list)
    for c in cases:
        oc = outcome(c); c.kind = oc[0]
        if oc[0] == "abort":
            if allof_self_ref(c.request) and any(f["id"] == "C01-allof-self-ref-overflow" for f in findings): R["known_ingest"].append((c, ["C01-allof-self-ref-overflow"]))
            else: R["abort"].append(c)
            continue
        if oc[0] == "request_error": R["request_error"].append(c); continue
        if oc[0] == "ingest":
            if oc[1] == "panic" or c.supported:
                att = attribute_ingest(c, findings)
                if att: R["known_ingest"].append((c, att))
                elif c.supported: R["rejected_supported"].append(c)
                else: R["ingest_panic_unsupported"].append(c)
            else: R["ingest_err_unsupported"].append(c)
            continue
        # every call ok: the first half of the property applies
        if c.wf is None: R["no_model_answer"].append(c); continue
        if c.wf.get("unsupported"):
            R["outside_model_domain"].append(c)
            if oc[0] != "ok":
                att = attribute(c, findings)
                if att: R["known"].append((c, att))
                else: R["outside_domain_failures"].append(c)
            continue
        wf = c.wf["wf"]
        if oc[0] == "ok":
            if wf: R["agree_ok"].append(c)
            else:
                false = {n for n, v in c.wf["conjuncts"].items() if not v}
                (R["conservative"] if false <= CONSERVATIVE else R["wf_too_strict"]).append(c)
        else:
            if wf: R["model_gap"].append(c)
            else:
                att = attribute(c, findings)
                if att: R["known"].append((c, att))
                else: R["unattributed"].append(c)
    return R

def brief(c):
    oc = outcome(c)
    d = {"case": c.tag, "outcome": list(oc), "input": c.request}
    if c.b is not None:
        d["messages"] = [m for m in (c.b.messages or []) if m][:2]
        if c.b.render_message: d["render_message"] = c.b.render_message[:400]
        d["rustc"] = [{"code": e.get("code"), "message": e.get("message")} for e in (c.b.rustc_errors or [])[:4]]
    if c.wf: d["wf"] = {"wf": c.wf["wf"], "false_conjuncts": [n for n, v in c.wf["conjuncts"].items() if not v], "witnesses": c.wf.get("witnesses")}
    return d

def witness_cases(findings):
    out = []
    for f in findings:
        if f["property"] == "C01":
            w = f["witness"]
            out.append((f, Case("witness:" + f["id"], w["calls"], w.get("settings", {}), supported=False)))
        elif f["id"] in REUSED:
            r = REUSED[f["id"]]; w = r["witness"]
            out.append((dict(f, what=r.get("what", f["what"])), Case("witness:" + f["id"], w["calls"], w.get("settings", {}), supported=False)))
    return out

def run(ctx):
    t0 = time.time()
    st = vlib.proof_stage(ctx, "C01", PROOF_TARGETS + ["TypifyModel.Proofs.Dispatch", "TypifyModel.Proofs.DispatchFuel", "TypifyModel.Proofs.DispatchSourceAll", "TypifyModel.Proofs.DispatchFragmentSource"], PROOF_FILES + ["Proofs/Dispatch.lean", "Proofs/DispatchFuel.lean", "Proofs/DispatchSource.lean", "Proofs/DispatchSourceS1.lean", "Proofs/DispatchSourceS2.lean", "Proofs/DispatchSourceAll.lean", "Proofs/DispatchFragmentSource.lean"], slices=["c01", "disp"])
    # "schemas of the supported fragment are never rejected", at the shape dispatch of convert.rs: the arm every keyword combination
    # ends in (the final `todo!()` included) against Model/Dispatch.lean over the keyword lattice (M0)
    import dispstage
    dstats, ddis = dispstage.stage(ctx, ctx.tier == "thorough") if st["driver_ok"] else ({"ran": False}, [])
    ctx.log("shape dispatch M0: %s disagreements=%d" % ({k: v for k, v in dstats.items() if k != "arms"}, len(ddis)))
    if ddis:
        st["broken"].append("correspondence M0 (convert_schema_object dispatch vs Model/Dispatch.lean) disagrees on %d of %d schemas, first: %s"
                            % (len(ddis), dstats.get("schemas", 0), json.dumps(ddis[0])[:500]))
    st["dispatch_M0"] = dstats
    findings = all_findings()
    wits = witness_cases(findings)
    cases = [c for _, c in wits] + build_cases(ctx)
    ctx.log("cases: %d (%d finding witnesses)" % (len(cases), len(wits)))
    b = evaluate(ctx, cases, findings, st["driver_ok"])
    R = classify(ctx, cases, findings)
    n_all_ok = sum(1 for c in cases if c.kind not in ("abort", "request_error", "ingest"))
    ctx.log("all-calls-ok=%d agree(WF&compiles)=%d known(WF false & fails)=%d conservative=%d outside-domain=%d | model_gap=%d too_strict=%d unattributed=%d abort=%d rejected_supported=%d known_ingest=%d"
            % (n_all_ok, len(R["agree_ok"]), len(R["known"]), len(R["conservative"]), len(R["outside_model_domain"]),
               len(R["model_gap"]), len(R["wf_too_strict"]), len(R["unattributed"]), len(R["abort"]), len(R["rejected_supported"]), len(R["known_ingest"])))
    # known findings: print while the canonical witness still fails
    seen_ids = set()
    for c, att in R["known"] + R["known_ingest"]: seen_ids.update(att)
    for f, c in wits:
        oc = outcome(c)
        if oc[0] != "ok" and f["id"] not in ctx.known_seen:
            vlib.known(ctx, {"id": f["id"], "what": "[%s] %s" % (f["id"], f["what"])})
    broken = list(st["broken"])
    if R["wf_too_strict"]:
        broken.append("correspondence WF<=>compiles: WF false but rustc accepts on %d cases (model too strict)" % len(R["wf_too_strict"]))
    if R["no_model_answer"]:
        broken.append("drv_c01 could not read %d IR dumps" % len(R["no_model_answer"]))
    # violations with a concrete failing input
    shown = set()
    def viol(kind, c, extra=None):
        key = (kind, tuple(outcome(c)[:1]), tuple(sorted(n for n, v in (c.wf or {}).get("conjuncts", {}).items() if not v)))
        if key in shown or len(ctx.violations) >= 6: return
        shown.add(key)
        obj = {"property": "C01", "kind": kind, "broken_obligations": broken}
        obj.update(brief(c))
        if extra: obj.update(extra)
        vlib.violation(ctx, obj)
    for c in R["abort"]: viol("typify kills the process (stack overflow) instead of returning", c)
    for c in R["model_gap"]: viol("MODEL-GAP layer=M2: WF holds of the IR but the real output does not compile (the Compiles spec is wrong about Rust, or the render model about the output)", c)
    for c in R["unattributed"]: viol("ingestion succeeded but the output does not compile / render (no listed finding explains it)", c)
    for c in R["rejected_supported"]: viol("a document of the supported fragment is rejected", c)
    for c in R["outside_domain_failures"]:
        # non-ASCII identifiers: explored on the implementation only; failures there still count against the property
        viol("ingestion succeeded but the output does not compile (input outside the model's ASCII domain)", c)
    if broken and not ctx.violations:
        first = (R["wf_too_strict"] or R["no_model_answer"] or [None])[0]
        vlib.violation(ctx, {"property": "C01", "kind": "property no longer shown to hold", "broken_obligations": broken,
                             "first_disagreement": brief(first) if first else None, "lean_log": st.get("log", "")}, no_input=True)
    nontrivial = sum(1 for c in R["agree_ok"] if c.wf and c.wf.get("items", 0) >= 2)
    kinds = collections.Counter(c.kind for c in cases)
    cov = {"shape_dispatch_M0": st.get("dispatch_M0"), "obligations": st["obligations"], "discharged": st["discharged"],
           "checker_cmd": "cd /verif/lean && lake build TypifyModel.Proofs.C01 && lake env lean TypifyModel/Audit/C01.lean",
           "trusted_base": vlib.TRUSTED_BASE + ["rustc 1.80.1 + serde_derive 1.0.219 as the oracle for `Compiles` (batch pipeline, one module per case)",
                                               "tvh_m2 / the M2 correspondence of C19/C17/C14 for the Render model that `modOf` projects to"],
           "axioms": st.get("axioms", {}),
           "evaluations": n_all_ok, "distinct_nontrivial": nontrivial + len(R["known"]),
           "rule": "one evaluation = one (document, settings, call history) whose calls all succeeded: WF evaluated by drv_c01 on the real IR dump and compared with to_stream()+syn+rustc of the real output; non-trivial = at least two generated items and agreement, or a reproduced finding",
           "samples": [c.tag for c in R["agree_ok"][:4]] + [brief(c) for c, _ in R["known"][:1]],
           "cases": len(cases), "outcomes": dict(kinds),
           "wf_true_and_compiles": len(R["agree_ok"]), "wf_false_and_fails_attributed": len(R["known"]),
           "wf_false_but_compiles_conservative_conjunct": len(R["conservative"]), "wf_false_but_compiles": len(R["wf_too_strict"]),
           "wf_true_but_fails": len(R["model_gap"]), "failures_unattributed": len(R["unattributed"]),
           "outside_model_domain_non_ascii": len(R["outside_model_domain"]),
           "supported_fragment_cases": sum(1 for c in cases if c.supported),
           "supported_fragment_rejected": len(R["rejected_supported"]),
           "ingest_failures_attributed": len(R["known_ingest"]),
           "ingest_panics_outside_fragment_exploration": len(R["ingest_panic_unsupported"]),
           "ingest_errors_outside_fragment": len(R["ingest_err_unsupported"]),
           "findings_seen": sorted(seen_ids), "batch_timings": getattr(b, "timings", {}),
           "traces_validated_against_impl": len(R["agree_ok"]) + len(R["known"]),
           "tables_regenerated": st["tables_ok"]}
    vlib.write_evidence(ctx, "proof", cov, [
        "rustc is an oracle, not verified: `Compiles` is a hand-written specification of the rules relevant to the items typify emits; its agreement with rustc is the WF<=>compiles correspondence over the listed cases",
        "the second half of the property (supported fragment => never rejected) is NOT proved (no model of convert_schema): implementation-level only, over schemars-shaped generated documents and the README's constructs",
        "conjunct 6 (default expressions well typed) is delivered by the C06 slice (Defaults.outputValue / hasType) and enters wf_compiles as the parameter env.dfltOk",
        "type equality on impl-header type strings is a parameter (env.sameTy); the driver's instance knows Vec<T> = ::std::vec::Vec<T> and the String aliases",
        "user-requested derives are the user's claim (deriveOk accepts them); identifiers are ASCII in the model (others: counted, explored on the implementation only)",
        "conjunct no_prelude_shadow is sufficient, not necessary (a type named Default / Vec / String, a newtype named Ok / Err)"])
    ctx.log("done in %.0fs" % (time.time() - t0))

def replay(ctx, path):
    obj = json.load(open(path))
    if "input" not in obj:
        print("replay file names broken obligations only:", obj.get("broken_obligations")); return 1
    findings = all_findings()
    c = Case("replay", obj["input"]["calls"], obj["input"].get("settings", {}), supported=bool(obj.get("supported")))
    vlib.lean_build(ctx, ["drv_c01"])
    evaluate(ctx, [c], findings, True)
    R = classify(ctx, [c], findings)
    print(json.dumps(brief(c), indent=1)[:3000])
    bad = [k for k in ("abort", "model_gap", "unattributed", "rejected_supported", "wf_too_strict", "outside_domain_failures") if R[k]]
    print("classification:", {k: len(v) for k, v in R.items()})
    return 1 if bad else 0

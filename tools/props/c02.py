"""C02 — every schema-valid JSON instance deserializes into the generated type.
Theorem: lean/TypifyModel/Proofs/C02.lean `conv_accepts` (all IRs, documents, schemas, types, instances,
recursive $refs): AllConv ∧ convB S τ ∧ valid S v ⇒ the model of Deserialize does not reject v.
Per run: (i) translation validation — `convB` is evaluated by the Lean driver on the REAL (schema, IR dump)
of every definition (for those the ∀-instances guarantee is exactly the theorem); (ii) M4 — model `valid`
vs python-jsonschema; (iii) M3 — model `de` vs the compiled generated code; (iv) implementation oracle —
oracle-valid instance ⇒ compiled from_str is Ok."""
import json
import vlib, m2, m3
from batch import Batch, J

PROOF_TARGETS = ["TypifyModel.Proofs.C02", "TypifyModel.Proofs.FlattenFindings", "TypifyModel.Proofs.Tagging", "TypifyModel.Proofs.TaggingComplete"]
PROOF_FILES = ["Proofs/C02.lean", "Proofs/Lemmas/ConvLemmas.lean", "Proofs/Lemmas/ConvAccepts.lean",
               "Proofs/Lemmas/ConvAccepts2.lean", "Proofs/Lemmas/ConvAccepts3.lean"]

HAND = [
 {"title": "Root", "type": "object", "properties": {"a": {"type": "string"}, "n": {"type": ["integer", "null"], "format": "int32"},
    "e": {"$ref": "#/definitions/E"}, "t": {"$ref": "#/definitions/T"}, "m": {"type": "object", "additionalProperties": {"type": "boolean"}},
    "next": {"$ref": "#/definitions/Node"}}, "required": ["a", "e"],
  "definitions": {
    "E": {"type": "string", "enum": ["x", "y-z", "Z"]},
    "T": {"type": "array", "items": [{"type": "string"}, {"type": "integer", "minimum": 0, "maximum": 255}], "minItems": 2, "maxItems": 2},
    "Node": {"type": "object", "properties": {"v": {"type": "integer", "format": "uint8"}, "next": {"$ref": "#/definitions/Node"}}, "required": ["v"]},
    "Ext": {"oneOf": [{"type": "string", "enum": ["A", "B"]}, {"type": "object", "properties": {"C": {"type": "integer", "format": "int64"}}, "required": ["C"], "additionalProperties": False},
                      {"type": "object", "properties": {"D": {"type": "object", "properties": {"p": {"type": "string"}}, "required": ["p"]}}, "required": ["D"], "additionalProperties": False}]},
    "Int": {"oneOf": [{"type": "object", "properties": {"k": {"type": "string", "enum": ["u"]}}, "required": ["k"]},
                      {"type": "object", "properties": {"k": {"type": "string", "enum": ["s"]}, "x": {"type": "integer", "format": "int16"}}, "required": ["k", "x"]}]},
    "Adj": {"oneOf": [{"type": "object", "properties": {"t": {"type": "string", "enum": ["u"]}}, "required": ["t"], "additionalProperties": False},
                      {"type": "object", "properties": {"t": {"type": "string", "enum": ["v"]}, "c": {"type": "array", "items": {"type": "string"}}}, "required": ["t", "c"], "additionalProperties": False}]},
    "Unt": {"anyOf": [{"type": "integer", "format": "int32"}, {"type": "string"}, {"type": "array", "items": {"type": "boolean"}}]},
    "S3": {"type": "string", "minLength": 1, "maxLength": 3},
    "Arr": {"type": "array", "items": {"$ref": "#/definitions/S3"}, "minItems": 2, "maxItems": 2}}},
]

# allOf of objects that constrain ONE member from two sides: the merge must intersect (multi-byte values at the length limit,
# integral literals under `number`, a pattern next to an enumeration, a range next to an enumeration)
HAND.append({"title": "Merged", "type": "object", "properties": {"m": {"$ref": "#/definitions/Label"}, "s": {"$ref": "#/definitions/Scale"}},
  "definitions": {
    "Label": {"allOf": [{"type": "object", "properties": {"label": {"type": "string", "maxLength": 4}}, "required": ["label"]},
                        {"type": "object", "properties": {"label": {"type": "string", "enum": ["mi\u00e9.", "s\u00e1b.", "lun", "\u65e5\u65e5\u65e5\u65e5", "toolong"]}, "n": {"type": "integer"}}}]},
    "Scale": {"allOf": [{"type": "object", "properties": {"ratio": {"type": "number"}}},
                        {"type": "object", "properties": {"ratio": {"enum": [1, 2.5, 4]}}, "required": ["ratio"]}]},
    "Word": {"allOf": [{"type": "object", "properties": {"w": {"type": "string", "pattern": "^[a-z]+$"}}},
                       {"type": "object", "properties": {"w": {"type": "string", "enum": ["abc", "x", "A1"]}}, "required": ["w"]}]},
    "Level": {"allOf": [{"type": "object", "properties": {"l": {"type": "integer", "minimum": 0, "maximum": 10}}, "required": ["l"]},
                        {"type": "object", "properties": {"l": {"type": "integer", "enum": [0, 5, 10, 11]}}}]}}})

def cases(ctx):
    import gen
    out = [("hand:%d" % i, d) for i, d in enumerate(HAND)]
    for name, doc in gen.fixture_docs():
        if (name.startswith("github") or name.startswith("vega")) and ctx.tier != "thorough": continue
        out.append(("fixture:" + name, doc))
    import corpus
    for cid, cdoc, _ in corpus.oracle_documents():
        if cid.startswith(("hand:", "file:")): out.append(("corpus:" + cid, cdoc))
    n = 300 if ctx.tier == "thorough" else 36
    for k in range(n):
        fs = [gen.DEFAULT_FEATURES, gen.FEATURE_SETS["formats"], gen.FEATURE_SETS["allof"], gen.FEATURE_SETS["recursive"],
              gen.DEFAULT_FEATURES, gen.FEATURE_SETS["maps"] - {"defaults"}, gen.FEATURE_SETS["unions"]][k % 7]
        out.append(("gen:%d" % k, gen.gen_universe(ctx.rng, 3 + k % 7, set(fs))))
    return out

def defs_of(doc):
    d = [("#", {k: v for k, v in doc.items() if k != "definitions"})] if doc.get("title") else []
    return d + [(k, s) for k, s in doc.get("definitions", {}).items()]

def typeless_struct(s, depth=0):
    """a subschema using object/array keywords without `type`: outside the faithful fragment (draft-07 lets
    any non-object through; typify reads it as a struct)"""
    if not isinstance(s, dict) or depth > 12: return False
    if "type" not in s and "$ref" not in s and any(k in s for k in ("properties", "required", "additionalProperties", "items")):
        return True
    for k, v in s.items():
        if k in ("properties", "definitions") and isinstance(v, dict):
            if any(typeless_struct(x, depth + 1) for x in v.values()): return True
        elif k in ("oneOf", "anyOf", "allOf") and isinstance(v, list):
            if any(typeless_struct(x, depth + 1) for x in v): return True
        elif k in ("items", "additionalProperties", "not"):
            if isinstance(v, list):
                if any(typeless_struct(x, depth + 1) for x in v): return True
            elif typeless_struct(v, depth + 1): return True
    return False

def small_ints(v):
    """instance domain of the model: integer literals serde_json keeps exact (i64 and u64)"""
    if isinstance(v, bool): return True
    if isinstance(v, int): return -2**63 <= v <= 2**64 - 1      # what serde_json reads as i64 / u64 (beyond: f64)
    if isinstance(v, float): return v == v and abs(v) < 1e15 and (v * 64) == int(v * 64)
    if isinstance(v, list): return all(small_ints(x) for x in v)
    if isinstance(v, dict): return all(small_ints(x) for x in v.values())
    return True

def _union_declared_twice(doc, schema, fuel=40):
    """the mechanism of C02-allof-union-remerge, on the SCHEMA: somewhere in it an allOf two members of which declare one member
    (directly or one object level down) with a schema that holds a oneOf / anyOf of two or more object branches AND, inside
    those branches, a type list or another anyOf / oneOf (what keeps `roughly` from recognising the merge as the original)"""
    import gen
    def deref(x, n=6):
        while isinstance(x, dict) and isinstance(x.get("$ref"), str) and n > 0:
            try: x = gen.resolve_ref(doc, x["$ref"])
            except Exception: return None
            n -= 1
        return x
    def unions(x, n=8):
        """the unions of object branches inside x"""
        if n <= 0 or not isinstance(x, (dict, list)): return
        if isinstance(x, list):
            for y in x: yield from unions(y, n - 1)
            return
        for k in ("oneOf", "anyOf"):
            brs = x.get(k)
            if isinstance(brs, list) and sum(1 for b in brs if isinstance(deref(b), dict) and (deref(b).get("type") == "object" or "properties" in deref(b))) >= 2:
                yield brs
        for k, v in x.items():
            if k not in ("default", "enum", "const", "examples"): yield from unions(v, n - 1)
    def awkward(brs):
        t = json.dumps(brs)
        return '"type": [' in t or '"anyOf"' in t or '"oneOf"' in t
    def member_decls(m, depth):
        """(path, schema) of the members an allOf member declares, down to `depth` object levels"""
        m = deref(m)
        if not isinstance(m, dict): return
        for pn, ps in (m.get("properties") or {}).items():
            yield (pn,), ps
            if depth > 0:
                for path, sub in member_decls(ps, depth - 1): yield (pn,) + path, sub
    def walk(x, n):
        if n <= 0 or not isinstance(x, (dict, list)): return False
        if isinstance(x, list): return any(walk(y, n - 1) for y in x)
        if isinstance(x.get("allOf"), list) and len(x["allOf"]) >= 2:
            seen = {}
            for m in x["allOf"]:
                for path, ps in member_decls(m, 1):
                    if any(awkward(b) for b in unions(ps)): seen[path] = seen.get(path, 0) + 1
            if any(v >= 2 for v in seen.values()): return True
        r = x.get("$ref")
        if isinstance(r, str):
            t = deref(x)
            if t is not None and walk({k: v for k, v in t.items()} if isinstance(t, dict) else t, n - 1): return True
        return any(walk(v, n - 1) for k, v in x.items() if k not in ("default", "enum", "const", "examples", "definitions", "$defs"))
    return walk(schema, fuel)

def attribute(fd_list, doc, key, schema, value, dump, answer=""):
    """attribute an implementation failure to a listed finding by its mechanism predicate"""
    txt = json.dumps(schema) + json.dumps(doc.get("definitions", {}))
    for fd in fd_list:
        if fd["id"] == "C02-adjacent-unit-content":
            # an adjacently tagged union, the instance carries the content member on a data-less variant
            for e in dump["entries"].values():
                if e["kind"] == "enum" and isinstance(e["tag"], dict) and "adjacent" in e["tag"]:
                    tg, ct = e["tag"]["adjacent"]
                    def hit(v):
                        if isinstance(v, dict):
                            if tg in v and ct in v and any(x["raw_name"] == v[tg] and x["details"] == "simple" for x in e["variants"]): return True
                            return any(hit(x) for x in v.values())
                        if isinstance(v, list): return any(hit(x) for x in v)
                        return False
                    if hit(value): return fd
        if fd["id"] == "C02-untagged-deny-flatten-map" and isinstance(value, (dict, list)):
            for e in dump["entries"].values():
                if e["kind"] == "enum" and e["tag"] == "untagged" and e.get("deny"):
                    for x in e["variants"]:
                        ps = x["details"].get("struct") if isinstance(x["details"], dict) else None
                        if ps and any(p.get("rename") == "flatten" for p in ps):
                            named = {p["name"] for p in ps if p.get("rename") != "flatten"}
                            req = {p["name"] for p in ps if p["state"] == "required" and p.get("rename") != "flatten"}
                            def hit3(v):
                                if isinstance(v, dict):
                                    return (req <= set(v) and bool(set(v) - named)) or any(hit3(y) for y in v.values())
                                if isinstance(v, list): return any(hit3(y) for y in v)
                                return False
                            if hit3(value): return fd
        if fd["id"] == "C02-variant-shared-inline-type":
            from props import c05 as _c05
            import irutil as _ir
            _t = dump["ref_to_id"].get("#" if key == "#" else "def:" + key)
            pairs = _c05.shared_variant_types(dump, only=_ir.reachable(dump, _t) if _t is not None else None)
            def hit2(v):
                if isinstance(v, dict):
                    return any(tg in v and any(k in v for k in ks) for tg, ks in pairs) or any(hit2(x) for x in v.values())
                if isinstance(v, list): return any(hit2(x) for x in v)
                return False
            if pairs and hit2(value): return fd
        if fd["id"] == "C02-allof-union-remerge" and _union_declared_twice(doc, schema):
            return fd
        if fd["id"] == "C02-native-default-panic" and answer == "panic" and '"format"' in txt and '"default"' in txt:
            return fd
        if fd["id"] == "C02-uint-format" and ('"uint"' in txt or '"int"' in txt):
            # the instance holds an integer that a 32-bit type cannot (what u32 / i32 for usize / isize rejects)
            def big(v):
                if isinstance(v, bool): return False
                if isinstance(v, int): return v > 2**31 - 1 or v < -2**31
                if isinstance(v, list): return any(big(x) for x in v)
                if isinstance(v, dict): return any(big(x) for x in v.values())
                return False
            if big(value): return fd
    return None

def run(ctx):
    import gen
    findings = vlib.load_findings("C02")
    st = vlib.proof_stage(ctx, "C02", PROOF_TARGETS, PROOF_FILES + ["Proofs/Tagging.lean", "Proofs/TaggingComplete.lean"], slices=["ir", "tag"])
    # which shape a union gets (Option / enum under which tagging / flattened struct): convert_one_of and enums.rs against their model (M0)
    import tagstage
    tstats, tdis = tagstage.stage(ctx, ctx.tier == "thorough") if st["driver_ok"] else ({"ran": False}, [])
    ctx.log("union shape M0: %s disagreements=%d" % (tstats, len(tdis)))
    if tdis:
        st["broken"].append("correspondence M0 (convert_one_of / enums.rs tagging detection vs Model/Tagging.lean) disagrees on %d of %d requests" % (len(tdis), tstats.get("requests", 0)))
        json.dump(tdis[:50], open(vlib.os.path.join(vlib.CACHE, "c02_tag_disagreements.json"), "w"), indent=1)
    cs = cases(ctx)
    b = Batch(ctx, assertions=False, ops=("de",), ops_for="all")
    bc = []
    for tag, doc in cs:
        c = b.add_case([{"root": doc}], {}, tag=tag); c.settings = {}; c.doc = doc; c.request = {"settings": {}, "calls": [{"root": doc}]}; bc.append(c)
    b.prepare()
    for c in bc:
        if c.dump:
            ids = []
            for k, _ in defs_of(c.doc):
                t = c.dump["ref_to_id"].get("#" if k == "#" else "def:" + k)
                if t is not None: ids.append(t)
            c.ops_types = ids
    b.build()
    live = [c for c in bc if c.compiled]
    # translation validation: convB on the real (schema, dump) pairs
    lines = []
    for k, c in enumerate(live):
        lines.append("ir c%d %s" % (k, json.dumps({"dump": c.dump, "settings": {}, "doc": c.doc}))); lines.append("allconv c%d" % k); lines.append("allenc c%d" % k)
    conv = {}
    tv = {"conv_true": 0, "conv_false": 0, "schema_unsupported": 0}
    conv_open = []
    if st["driver_ok"] and live:
        out = m2.run_bin(vlib.drv("ir"), lines)
        for k, c in enumerate(live):
            r = json.loads(out[3 * k + 1]) if out[3 * k] == "ok" else {"defs": {}, "unsupported": []}
            re_ = json.loads(out[3 * k + 2]) if out[3 * k] == "ok" else {"defs": {}}
            for key, v in r["defs"].items():
                if not v["conv"] and key not in r["unsupported"] and re_["defs"].get(key, {}).get("frag") and v.get("rid") is not None:
                    conv_open.append((c.tag, key))
            conv[id(c)] = r
            allc = all(v["conv"] for v in r["defs"].values()) and not r["unsupported"]
            c.allconv = allc
            for v in r["defs"].values(): tv["conv_true" if v["conv"] else "conv_false"] += 1
            tv["schema_unsupported"] += len(r["unsupported"])
    ctx.log("convB false inside the fragment: %d %s" % (len(conv_open), conv_open[:12]))
    # instances
    reqs = []; meta = []; oreq = []; skipped_typeless = 0; docids = {}
    ninst = 12 if ctx.tier == "thorough" else 6
    for c in live:
        for key, schema in defs_of(c.doc):
            t = c.dump["ref_to_id"].get("#" if key == "#" else "def:" + key)
            if t is None: continue
            if typeless_struct(schema): skipped_typeless += 1; continue
            vals = []
            for _ in range(ninst):
                try: vals.append(gen.gen_valid(ctx.rng, c.doc, schema))
                except Exception: break
            try: vals += [v for v, _ in gen.gen_boundary(ctx.rng, c.doc, schema)]
            except Exception: pass
            muts = []
            for v in vals[:4]:
                try: muts += [m[0] for m in gen.mutants(ctx.rng, c.doc, schema, v)]
                except Exception: pass
            seen = set()
            for v in vals + muts:
                s = J(v)
                if s in seen or not small_ints(v): continue
                seen.add(s)
                reqs.append((c, t, "de", s)); meta.append((c, key, schema, v))
                if id(c) not in docids:
                    docids[id(c)] = "d%d" % len(docids); oreq.append({"doc_id": docids[id(c)], "doc": c.doc})
                oreq.append({"doc_id": docids[id(c)], "schema": schema, "value": v})
    verdicts = [x for x in (gen.run_oracle(oreq) if oreq else []) if x != "ok"]
    ctx.log("cases=%d compiled=%d defs conv=%s instances=%d (oracle-valid %d)" % (len(bc), len(live), tv, len(reqs), sum(1 for x in verdicts if x is True)))
    r = m3.compare(b, live, reqs) if st["driver_ok"] else {"real": b.run(reqs), "model": None, "disagreements": [], "skipped_model": 0, "skipped_real": 0}
    # M4: model validity vs the python oracle
    m4_dis = []
    if st["driver_ok"] and reqs:
        vreq = [(c, key, "valid", J(v)) for (c, key, schema, v) in meta]
        mv, _ = m3.model_answers(live, vreq)
        for (c, key, schema, v), a, o in zip(meta, mv, verdicts):
            if a in ("true", "false") and isinstance(o, bool) and (a == "true") != o:
                m4_dis.append({"case": c.tag, "def": key, "value": v, "model": a, "oracle": o})
    # implementation oracle
    fails = []; known_hit = {}; validated = 0
    for (c, key, schema, v), ra, o in zip(meta, r["real"], verdicts):
        if o is not True: continue
        nr = m3.norm_real("de", ra)
        if nr[0] in m3.SKIP_REAL: continue
        if nr[0] == "ok":
            if getattr(c, "allconv", False): validated += 1
            continue
        fd = attribute(findings, c.doc, key, schema, v, c.dump, ra)
        if fd: known_hit[fd["id"]] = known_hit.get(fd["id"], 0) + 1
        else: fails.append((c, key, v, ra))
    for fd in findings:
        w = fd.get("witness")
        if not w: continue
        vlib.known(ctx, fd) if witness_fails(fd) else ctx.notes.append("known finding %s no longer reproduces" % fd["id"])
    broken = list(st["broken"])
    if r["disagreements"]: broken.append("correspondence M3 (de): model and compiled code disagree on %d requests" % len(r["disagreements"]))
    if m4_dis: broken.append("correspondence M4 (validity): model `valid` and python-jsonschema disagree on %d instances" % len(m4_dis))
    seen = set()
    for c, key, v, ra in fails:
        if (c.tag, key) in seen or len(ctx.violations) >= 5: continue
        seen.add((c.tag, key))
        vlib.violation(ctx, {"property": "C02", "kind": "implementation violates the property: a schema-valid instance is rejected",
                             "input": c.request, "case": c.tag, "definition": key, "instance": v, "compiled_answer": ra,
                             "convB_on_this_case": conv.get(id(c)), "broken_obligations": broken})
    if r["disagreements"]:
        json.dump([{"case": rq[0].tag, "type_id": rq[1], "payload": rq[3], "compiled": ra, "model": ma} for rq, ra, ma in r["disagreements"][:50]],
                  open(vlib.os.path.join(vlib.CACHE, "c02_last_disagreements.json"), "w"), indent=1)
    if broken and not fails:
        vlib.violation(ctx, {"property": "C02", "kind": "property no longer shown to hold", "broken_obligations": broken,
                             "first_disagreements": [{"case": rq[0].tag, "input": rq[0].request, "type_id": rq[1], "payload": rq[3], "compiled": ra, "model": ma} for rq, ra, ma in r["disagreements"][:3]],
                             "first_m4_disagreements": m4_dis[:3], "union_shape_disagreements": tdis[:3], "lean_log": st.get("log", "")}, no_input=True)
    cov = {"union_shape_M0": tstats, "obligations": st["obligations"], "discharged": st["discharged"],
           "checker_cmd": "cd /verif/lean && lake build TypifyModel.Proofs.C02 TypifyModel.Proofs.Tagging && lake env lean TypifyModel/Audit/C02.lean",
           "trusted_base": vlib.TRUSTED_BASE + ["python-jsonschema Draft7Validator (tools/oracle.py) as the independent validity oracle", "serde modelled (Model/Serde.lean), tied by M3", "rustc"],
           "axioms": st.get("axioms", {}),
           "evaluations": len(reqs), "distinct_nontrivial": len(reqs),
           "rule": "per definition of every compiled case: schema-directed valid instances, boundary instances and single-constraint mutants, each classified by the python oracle; distinct by (case, definition, JSON text); all non-trivial (each exercises at least the definition's own construct)",
           "samples": [{"case": c.tag, "def": k, "instance": v} for (c, k, s, v) in meta[:4]],
           "definitions_translation_validated(convB true)": tv["conv_true"], "definitions_convB_false": tv["conv_false"],
           "definitions_schema_outside_model": tv["schema_unsupported"], "definitions_skipped_typeless": skipped_typeless,
           "oracle_valid_instances_accepted_in_fully_validated_cases": validated,
           "traces_validated_against_impl": len(reqs) - r["skipped_model"] - r["skipped_real"],
           "model_disagreements_M3": len(r["disagreements"]), "model_disagreements_M4": len(m4_dis),
           "model_out_of_fragment": r["skipped_model"], "impl_oracle_failures_new": len(fails), "impl_oracle_failures_known": known_hit}
    vlib.write_evidence(ctx, "proof", cov, [
        "instance domain: integer literals within i64, non-integers as short dyadic decimals, no duplicate object keys; `1.0` for integers is outside the model (draft-07 accepts it, serde rejects it)",
        "that typify's convert_schema establishes convB is NOT proved; it is checked per definition by running convB on the real IR dump (translation validation); definitions with convB false are exercised by M3 + oracle only",
        "serde_derive/serde_json are modelled, not verified"])

def witness_fails(fd):
    b = Batch("c02_wit_" + fd["id"], assertions=False, ops=("de",), ops_for="named", verbose=False)
    c = b.add_case(fd["witness"]["calls"], fd["witness"].get("settings", {})); b.prepare(); b.build()
    if not c.compiled: return True
    a = b.run([(c, fd["type"], "de", J(fd["instance"]))])[0]
    return not a.startswith("ok")

def replay(ctx, path):
    obj = json.load(open(path))
    if "input" not in obj: print("replay names broken obligations only:", obj.get("broken_obligations")); return 1
    import gen
    b = Batch("c02_replay", assertions=False, ops=("de",), ops_for="all")
    c = b.add_case(obj["input"]["calls"], {}); b.prepare(); b.build(); c.settings = {}
    doc = obj["input"]["calls"][0]["root"]; key = obj["definition"]
    t = c.dump["ref_to_id"].get("#" if key == "#" else "def:" + key)
    schema = dict(defs_of(doc))[key]
    o = gen.run_oracle([{"doc": doc, "schema": schema, "value": obj["instance"]}])[0]
    rr = m3.compare(b, [c], [(c, t, "de", J(obj["instance"]))])
    print("oracle valid:", o, "| compiled:", rr["real"][0], "| model:", rr["model"][0])
    return 1 if (o is True and not rr["real"][0].startswith("ok")) else 0

"""C14 — replacement, conversion, patch, derive and map-type settings apply everywhere, and none of them (nor
the builder) changes what the remaining types accept or emit.

Theorems: lean/TypifyModel/Proofs/C14.lean (uses_by_id, rename_global, patch_everywhere, derives_everywhere(_render),
map_everywhere, map_skip_everywhere, replace_not_generated, items_are_named_entries, replace_use/_everywhere,
builder_inert, settings_noninterference(_types)) over Model/Render.lean + Model/SettingsApply.lean, ∀ IR ∀ settings.
Their hypotheses about the IR ("the replaced definition's id maps to a native entry", "the patched entry is stored
under its new name with the patch's derives, no entry keeps the old name", "derives / map type / builder leave the IR
unchanged") are evaluated on the REAL dump of every case (hyp_*).
Correspondence M2: Render model (drv_ir) vs syn summary (tvh_m2) of the real to_stream() under every settings assignment.
Implementation oracle (the property on the real output, `oracle_case`): parsed items + code text of the run with the
settings, compared with the default-settings run of the same schema.
Non-interference on compiled code: default variant and settings variant built with tools/batch.py, the same de / rt
requests (valid instances + mutants) on every type the setting does not touch, identical canonical answers required;
additionally the IR sub-graphs of those types must be equal in both dumps (all cases, not only the compiled ones).

Domain notes (documented behaviour, not findings): a replacement / patch is keyed by the *type name*
(`sanitize(def, Pascal)`; import_types! takes an identifier there) — a raw definition name such as `foo-bar` is
silently ignored; "annotations" ignored by a conversion are the members of schemars `Metadata` at the top level of the
subschema ($id title description default deprecated readOnly writeOnly examples) — `$comment`, `$schema`, extensions and
annotations of nested subschemas take part in the comparison (with_conversion documents a *precise* match); patch
renames are drawn fresh (renaming onto an existing type's name yields two items of that name: the user's collision);
derive spellings are the user's (`Clone` is deduplicated against the base set, `::std::clone::Clone` is not)."""
import copy, json, os, re
import vlib, m2, m3, irutil, gen

PROOF_TARGETS = ["TypifyModel.Proofs.C14"]
PROOF_FILES = ["Proofs/C14.lean", "Proofs/Lemmas/SettingsApplyLemmas.lean", "Proofs/Lemmas/RenderLemmas.lean"]
NAMED = ("struct", "enum", "newtype")
HASHMAP = "::std::collections::HashMap"
BTREEMAP = "::std::collections::BTreeMap"
INDEXMAP = "::indexmap::IndexMap"
META_KEYS = ("$id", "title", "description", "default", "deprecated", "readOnly", "writeOnly", "examples")
ns = m2.norm

# ------------------------------------------------------------------------------------------ hand-written documents
def _ref(n): return {"$ref": "#/definitions/" + n}
HAND = [
 ("uses", {"title": "Root", "type": "object", "required": ["early"], "properties": {
     "early": _ref("Zed"), "opt": _ref("Zed"), "list": {"type": "array", "items": _ref("Zed")},
     "map": {"type": "object", "additionalProperties": _ref("Zed")},
     "any": {"type": "object"}, "ints": {"type": "object", "additionalProperties": {"type": "integer"}},
     "tup": {"type": "array", "items": [_ref("Zed"), {"type": "integer"}], "minItems": 2, "maxItems": 2},
     "inl": {"type": "object", "properties": {"q": _ref("Zed"), "n": {"type": "integer", "minimum": 3, "description": "count"}}},
     "merged": {"allOf": [_ref("Zed"), {"type": "object", "properties": {"extra": {"type": "integer"}}}]},
     "lone": {"allOf": [_ref("Zed")]}, "nt": _ref("Name"), "col": _ref("Colour")},
   "definitions": {
     "Alpha": {"type": "object", "properties": {"z": _ref("Zed"), "next": _ref("Alpha"), "n": {"type": "integer", "minimum": 3}}},
     "Zed": {"type": "object", "required": ["y"], "properties": {"y": {"type": "string"}, "k": {"type": "integer", "minimum": 3, "title": "K"}}},
     "Either": {"oneOf": [_ref("Zed"), _ref("Name")]},
     "Tagged": {"oneOf": [{"type": "object", "required": ["A"], "properties": {"A": _ref("Zed")}, "additionalProperties": False},
                          {"type": "object", "required": ["B"], "properties": {"B": {"type": "integer", "minimum": 3}}, "additionalProperties": False}]},
     "Name": {"type": "string", "maxLength": 8}, "Colour": {"type": "string", "enum": ["red", "green"]},
     "Plain": {"type": "string"}, "Count": {"type": "integer", "minimum": 3},
     # names that EXTEND another definition's name by a word (a patch of `Zed` / `Name` is not a patch of these)
     "ZedRate": {"type": "object", "properties": {"hz": {"type": "number"}}}, "NameTag": {"type": "string", "maxLength": 4}}}),
 # named types at which a containment cycle is cut (the Box goes INTO the named type, not into an anonymous Option)
 ("recursive", {"title": "Root", "type": "object", "properties": {"e": _ref("Expr"), "t": _ref("Tree")},
   "definitions": {
     "Expr": {"oneOf": [{"type": "object", "required": ["Lit"], "properties": {"Lit": {"type": "integer"}}, "additionalProperties": False},
                        {"type": "object", "required": ["Neg"], "properties": {"Neg": _ref("Expr")}, "additionalProperties": False},
                        {"type": "object", "required": ["Add"], "properties": {"Add": {"type": "array", "items": [_ref("Expr"), _ref("Expr")], "minItems": 2, "maxItems": 2}}, "additionalProperties": False}]},
     "Tree": {"type": "object", "required": ["rest"], "properties": {"v": {"type": "integer"}, "rest": _ref("Forest")}},
     "Forest": {"oneOf": [{"type": "null"}, _ref("Tree")]},
     "Chain": {"type": "object", "required": ["next"], "properties": {"next": {"type": "array", "items": _ref("Chain"), "minItems": 1, "maxItems": 1}}}}}),
 # two definitions whose keys give ONE type name (two schema files sharing a definition, merged): a replacement for that name
 # covers both
 ("same-name", {"title": "Root", "type": "object", "properties": {"a": _ref("Timestamp"), "b": _ref("timestamp")},
   "definitions": {"Timestamp": {"type": "object", "properties": {"secs": {"type": "integer"}}},
                   "timestamp": {"type": "object", "properties": {"secs": {"type": "integer"}}},
                   "Event": {"type": "object", "properties": {"at": _ref("Timestamp"), "until": _ref("timestamp")}}}}),
 # subschemas that carry the x-rust-type extension (honoured or not depending on the crate policy of the run): a conversion or
 # a replacement registered for them applies under EVERY crate policy
 ("xrust", {"title": "Root", "type": "object", "required": ["where"], "properties": {
     "where": {"type": "string", "x-rust-type": {"crate": "std", "version": "1.0.0", "path": "std::path::PathBuf"}},
     "addrs": {"type": "array", "items": {"type": "string", "x-rust-type": {"crate": "std", "version": "1.0.0", "path": "std::net::IpAddr"}}},
     "byname": {"type": "object", "additionalProperties": {"type": "string", "description": "a path", "x-rust-type": {"crate": "std", "version": "1.0.0", "path": "std::path::PathBuf"}}},
     "d": _ref("Dir"), "plain": {"type": "string", "maxLength": 9}},
   "definitions": {
     "Dir": {"type": "string", "x-rust-type": {"crate": "std", "version": "1.0.0", "path": "std::path::PathBuf"}},
     "Peer": {"type": "object", "properties": {"ip": {"type": "string", "x-rust-type": {"crate": "std", "version": "1.0.0", "path": "std::net::Ipv4Addr"}}, "n": {"type": "integer"}}}}}),
 # a member inherited through allOf and declared again (to make it required, to document it): the two declarations refer to the
 # same definition and differ in annotations at most; the definitions are of kinds a merge does not reproduce literally
 ("redeclare", {"title": "Root", "type": "object", "properties": {"d": _ref("Derived"), "e": _ref("Derived2"), "f": _ref("Derived3")},
   "definitions": {
     "Kind": {"type": "string", "const": "fixed"},
     "Labels": {"type": "object", "patternProperties": {"^x-": {"type": "string"}}, "additionalProperties": False},
     "Codes": {"type": "object", "additionalProperties": {"type": "integer"}, "propertyNames": {"type": "string", "maxLength": 4}},
     "Shade": {"type": "string", "enum": ["light", "dark"]},
     "Base": {"type": "object", "properties": {"kind": _ref("Kind"), "labels": _ref("Labels"), "codes": _ref("Codes"), "shade": _ref("Shade"), "name": {"type": "string"}}},
     "Derived": {"allOf": [_ref("Base"), {"type": "object", "required": ["kind", "shade"], "properties": {
         "kind": {"description": "the kind; required here", "$ref": "#/definitions/Kind"}, "shade": dict(_ref("Shade"), description="required here")}}]},
     "Derived2": {"allOf": [_ref("Base"), {"type": "object", "required": ["labels"], "properties": {
         "labels": {"title": "Labels (required)", "$ref": "#/definitions/Labels"}, "codes": _ref("Codes")}}]},
     "Derived3": {"allOf": [{"type": "object", "properties": {"codes": dict(_ref("Codes"), description="left")}},
                            {"type": "object", "properties": {"codes": dict(_ref("Codes"), description="right"), "kind": _ref("Kind")}}]}}}),
]

# ------------------------------------------------------------------------------------------ small helpers
def strip_docs(code):
    """without doc comments: `///` lines and the `/** .. */` blocks prettyplease writes for a multi-line doc string"""
    code = re.sub(r"/\*\*.*?\*/", "", code, flags=re.S)
    return "\n".join(l for l in code.split("\n") if not l.lstrip().startswith("///"))

_STR = re.compile(r'"(?:[^"\\]|\\.)*"')
def code_idents(code):
    """identifier tokens of the code outside doc comments and string literals"""
    # a path segment after `::` (`::serde_json::Value`, `error::ConversionError`) is not a bare name of this module
    flat = re.sub(r"\s*::\s*", "::", _STR.sub('""', strip_docs(code)))
    return re.findall(r"(?<![A-Za-z0-9_:])[A-Za-z_][A-Za-z0-9_]*", flat)

def sub_ident(s, old, new):
    """replace the bare type identifier `old` (not a path segment) in a whitespace-free type string"""
    return re.sub(r"(?<![A-Za-z0-9_:])" + re.escape(old) + r"(?![A-Za-z0-9_])", lambda m: new, s)

def has_ident(s, name):
    return re.search(r"(?<![A-Za-z0-9_:])" + re.escape(name) + r"(?![A-Za-z0-9_])", s) is not None

def strip_wrapper(s, head):
    """remove every `head<...>` wrapper (keeps the argument) from a whitespace-free type string"""
    while True:
        i = s.find(head + "<")
        if i < 0: return s
        j = i + len(head) + 1; depth = 1; k = j
        while k < len(s) and depth:
            depth += s[k] == "<"; depth -= s[k] == ">"; k += 1
        s = s[:i] + s[j:k - 1] + s[k:]

def strip_box(s): return strip_wrapper(s, "::std::boxed::Box")
def strip_opt(s): return strip_wrapper(strip_box(s), "::std::option::Option")

def children(e):
    k = e["kind"]
    if k in ("option", "box", "vec", "set", "array"): return [e["id"]]
    if k == "map": return [e["key"], e["value"]]
    if k == "tuple": return list(e["ids"])
    if k == "newtype": return [e["type_id"]]
    if k == "native": return list(e.get("parameters", []))
    if k == "struct": return [p["type_id"] for p in e["props"]]
    if k == "enum":
        out = []
        for v in e["variants"]:
            d = v["details"]
            if isinstance(d, dict):
                if "item" in d: out.append(d["item"])
                elif "tuple" in d: out += d["tuple"]
                elif "struct" in d: out += [p["type_id"] for p in d["struct"]]
        return out
    return []

def reach(es, tid):
    seen = set(); st = [tid]
    while st:
        t = st.pop()
        if t in seen or t not in es: continue
        seen.add(t); st += children(es[t])
    return seen

def subgraph(es, tid, rename=None, drop_box=False):
    """canonical form of the IR reachable from tid: ids renumbered in DFS order, extra_derives dropped, names mapped"""
    order = {}; out = []
    def go(t):
        if t in order: return order[t]
        e = es.get(t)
        if e is None: return -1
        if drop_box and e["kind"] == "box": return go(e["id"])
        order[t] = len(order); slot = len(out); out.append(None)
        c = copy.deepcopy(e); c.pop("extra_derives", None)
        if rename and c.get("name") in rename: c["name"] = rename[c["name"]]
        k = c["kind"]
        if k in ("option", "box", "vec", "set", "array"): c["id"] = go(c["id"])
        elif k == "map": c["key"] = go(c["key"]); c["value"] = go(c["value"])
        elif k == "tuple": c["ids"] = [go(x) for x in c["ids"]]
        elif k == "newtype": c["type_id"] = go(c["type_id"])
        elif k == "native": c["parameters"] = [go(x) for x in c.get("parameters", [])]
        elif k == "struct":
            for p in c["props"]: p["type_id"] = go(p["type_id"])
        elif k == "enum":
            for v in c["variants"]:
                d = v["details"]
                if isinstance(d, dict):
                    if "item" in d: d["item"] = go(d["item"])
                    elif "tuple" in d: d["tuple"] = [go(x) for x in d["tuple"]]
                    elif "struct" in d:
                        for p in d["struct"]: p["type_id"] = go(p["type_id"])
        out[slot] = c
        return order[t]
    go(tid)
    return out

def schema_key(s):
    """subschema modulo its own (top-level) annotations; JSON-equal keys are equal schemars SchemaObjects"""
    if not isinstance(s, dict): return json.dumps(s)
    return json.dumps({k: v for k, v in s.items() if k not in META_KEYS}, sort_keys=True)

def wire_of(p):
    r = p.get("rename")
    return r["rename"] if isinstance(r, dict) else p["name"]

def def_items(doc):
    out = []
    for key in ("definitions", "$defs"):
        for k, s in (doc.get(key) or {}).items(): out.append((k, s, "/%s/%s" % (key, gen.ptr_escape(k))))
    return out

# ------------------------------------------------------------------------------------------ settings drawn from the schema
class Plan:
    """one settings assignment for one document"""
    def __init__(self, tag, doc, settings, primary=None, info=None, compilable=True):
        self.tag, self.doc, self.settings, self.primary, self.info, self.compilable = tag, doc, settings, primary, info or {}, compilable
        self.request = {"settings": settings, "calls": [{"root": doc}]}

REPLACEMENTS = [("::std::string::String", ["FromStr", "Display", "Default"], True), ("::serde_json::Value", ["Default"], True),
                ("::std::string::String", [], True), ("::my_crate::Thing", ["Display"], False), ("::other::deep::Ty", [], False)]
CONVERSIONS = [("::serde_json::Value", ["Default"], True), ("::serde_json::Value", [], True), ("::my_crate::Conv", ["FromStr"], False)]

def container_positions(doc, base):
    """[(pointer, schema, container entry id, wire name, shape)] for the positions whose conversion the oracle can
    locate in the output: a property of the root / of a definition that is a struct (shape 'direct'), its `items`
    ('items') or `additionalProperties` ('values'); and the definitions themselves ('def')"""
    es = irutil.entries(base["dump"]); out = []
    conts = [("#", doc, "")] + [("def:" + k, s, p) for k, s, p in def_items(doc)]
    for key, s, ptr in conts:
        tid = base["dump"]["ref_to_id"].get(key)
        if key != "#" and isinstance(s, dict) and tid in es: out.append((ptr, s, tid, None, "def"))
        if tid is None or es.get(tid, {}).get("kind") != "struct" or not isinstance(s, dict): continue
        if any(k in s for k in ("allOf", "anyOf", "oneOf", "not", "$ref")): continue
        fields = {wire_of(p): p for p in es[tid]["props"]}
        for pn, ps in (s.get("properties") or {}).items():
            if pn not in fields or not isinstance(ps, dict): continue
            pp = gen.ptr_join(ptr + "/properties", pn)
            out.append((pp, ps, tid, pn, "direct"))
            if isinstance(ps.get("items"), dict): out.append((pp + "/items", ps["items"], tid, pn, "items"))
            if isinstance(ps.get("additionalProperties"), dict) and not ps.get("properties"):
                out.append((pp + "/additionalProperties", ps["additionalProperties"], tid, pn, "values"))
            # a nullable member spelled as a union with `null`: the other branch is a subschema in its own right (the member is
            # then `Option` of whatever that branch converts to)
            for comb in ("oneOf", "anyOf"):
                bs = ps.get(comb)
                if isinstance(bs, list) and len(bs) == 2 and not (set(ps) - set(META_KEYS) - {comb}):
                    nulls = [i for i, b in enumerate(bs) if isinstance(b, dict) and b.get("type") == "null" and not (set(b) - set(META_KEYS) - {"type"})]
                    if len(nulls) == 1 and isinstance(bs[1 - nulls[0]], dict):
                        out.append(("%s/%s/%d" % (pp, comb, 1 - nulls[0]), bs[1 - nulls[0]], tid, pn, "direct"))
    return out

def convertible(s):
    if not isinstance(s, dict) or "$ref" in s: return False
    return bool(set(s) - set(META_KEYS))     # not the `{}` schema

_ANNOT_KEYS = {"title", "description", "$comment", "examples", "readOnly", "writeOnly", "deprecated"}
def ref_uses(doc, defname):
    """[(definition key D, [property names])]: properties of D (its own, or those of the members of its allOf, references to
    object definitions followed) EVERY declaration of which is a plain `$ref` to `defname` (annotations aside)"""
    defs = doc.get("definitions") or doc.get("$defs") or {}
    target = "#/definitions/" + gen.ptr_escape(defname) if "definitions" in doc else "#/$defs/" + gen.ptr_escape(defname)
    def decls(s, fuel, acc):
        """property name -> list of declared schemas, over an object schema / allOf of such / references to such"""
        if fuel <= 0 or not isinstance(s, dict): return False
        if "$ref" in s and not (set(s) - _ANNOT_KEYS - {"$ref"}):
            try: return decls(gen.resolve_ref(doc, s["$ref"]), fuel - 1, acc)
            except Exception: return False
        if set(s) & {"oneOf", "anyOf", "not", "if", "$ref", "patternProperties"}: return False
        ok = True
        for m in s.get("allOf", []): ok = decls(m, fuel - 1, acc) and ok
        for pn, ps in (s.get("properties") or {}).items(): acc.setdefault(pn, []).append(ps)
        return ok
    out = []
    for D, s in defs.items():
        if D == defname: continue
        acc = {}
        if not decls(s, 5, acc): continue
        ps = [pn for pn, ds in acc.items()
              if all(isinstance(x, dict) and x.get("$ref") == target and not (set(x) - _ANNOT_KEYS - {"$ref"}) for x in ds)]
        if ps: out.append((D, ps))
    return out

def draw_plans(rng, tag, doc, base, n, thorough, ambient=None):
    """settings assignments drawn from the document's own definitions / subschemas (base = the answer under the ambient settings,
    by default none); `ambient` (a crate policy) is part of every assignment drawn and of the base run alike"""
    es = irutil.entries(base["dump"]); nm = irutil.named(base["dump"]); r2i = base["dump"]["ref_to_id"]
    plans = []
    defs = [(k, s) for k, s, _ in def_items(doc)]
    rep_c = [(k, es[r2i["def:" + k]]["name"]) for k, s in defs
             if r2i.get("def:" + k) in es and es[r2i["def:" + k]]["kind"] in NAMED and nm.get(es[r2i["def:" + k]]["name"], (None,))[0] == r2i["def:" + k]]
    conv_c = [c for c in container_positions(doc, base) if convertible(c[1])]
    patch_c = sorted(nm)
    def orth(compilable):
        st = copy.deepcopy(ambient) if ambient else {}
        if rng.random() < 0.5: st["struct_builder"] = True
        d = rng.choice([[], [], ["PartialEq"], ["PartialEq"]] + ([] if compilable else [["JsonSchema"], ["PartialEq", "Hash"], ["::schemars::JsonSchema", "Eq"],
                                                                                   # other macros that share the NAME of a derive typify applies itself
                                                                                   ["::rkyv::Serialize"], ["::derive_more::Debug", "PartialEq"], ["::miniserde::Deserialize", "::rkyv::Serialize"]]))
        if d: st["derives"] = d
        m = rng.choice([None, HASHMAP, BTREEMAP, BTREEMAP] + ([] if compilable else [INDEXMAP, INDEXMAP]))
        if m: st["map_type"] = m
        return st
    kinds = ["orth", "replace", "convert", "patch"]
    hand = tag.startswith("hand:")
    if hand:
        # hand-written documents: every definition replaced, every named type patched (renamed AND given derives), in turn
        seq = ["orth"] + ["replace"] * len(rep_c) + ["patch"] * len(patch_c) + ["convert"] * min(len(conv_c), max(4, n // 4)) + ["orth"]
        n = len(seq)
    ri = pi = 0
    for k in range(n):
        kind = seq[k] if hand else kinds[k % 4]
        compilable = rng.random() < 0.6
        st = orth(compilable)
        if kind == "replace" and rep_c:
            # hand-written documents: every definition in turn; otherwise a random one
            dn, tn = rep_c[ri % len(rep_c)] if hand else rng.choice(rep_c)
            ri += 1
            path, impls, comp = rng.choice([r for r in REPLACEMENTS if r[2] or not compilable])
            st["replace"] = [{"name": tn, "replace": path, "impls": impls}]
            plans.append(Plan("%s/replace:%s" % (tag, dn), doc, st, "replace", {"def": dn, "name": tn, "path": path, "impls": impls}, compilable and comp))
        elif kind == "convert" and conv_c:
            annotated = [c for c in conv_c if set(c[1]) & set(META_KEYS)]     # the document's subschema carries annotations
            ptr, s, tid, pn, shape = rng.choice(annotated if annotated and rng.random() < 0.6 else conv_c)
            cs = {k_: copy.deepcopy(v) for k_, v in s.items() if k_ not in META_KEYS}
            if rng.random() < 0.6:       # the conversion schema carries annotations of its own
                for mk, mv in rng.sample([("title", "Conv title"), ("description", "another description"), ("default", None),
                                          ("examples", [1]), ("deprecated", True), ("readOnly", True)], rng.randint(1, 2)):
                    cs[mk] = mv
            elif rng.random() < 0.5:
                cs = copy.deepcopy(s)
            path, impls, comp = rng.choice([c for c in CONVERSIONS if c[2] or not compilable])
            st["convert"] = [{"schema": cs, "type": path, "impls": impls}]
            plans.append(Plan("%s/convert:%s" % (tag, ptr), doc, st, "convert", {"ptr": ptr, "schema": cs, "path": path}, compilable and comp))
        elif kind == "patch" and patch_c:
            old = patch_c[pi % len(patch_c)] if hand else rng.choice(patch_c)
            pi += 1
            new = "Px" + old + "Renamed"
            while new in nm: new += "X"
            tid = nm[old][0]
            leaf = not any(es[c]["kind"] in NAMED for c in reach(es, tid) - {tid})
            mode = "both" if hand else rng.choice(["rename", "both", "both", "derives"])
            if hand and not leaf: compilable = False       # a derive on a type that contains other named types: syntactic half only
            pd = []
            if mode != "rename":
                pd = ["PartialEq"] if (leaf or "PartialEq" in st.get("derives", [])) else (["Hash", "PartialEq"] if not compilable else [])
                if not compilable and rng.random() < 0.3: pd = pd + [rng.choice(["::rkyv::Deserialize", "::derive_more::Clone", "::other::Serialize"])]
            p = {"name": old, "derives": pd}
            if mode != "derives" or not pd: p["rename"] = new
            st["patch"] = [p]
            plans.append(Plan("%s/patch:%s" % (tag, old), doc, st, "patch", {"old": old, "new": p.get("rename"), "derives": pd, "id": tid}, compilable))
        else:
            plans.append(Plan("%s/orth:%d" % (tag, k), doc, st, None, {}, compilable))
    return plans

def documents(ctx):
    thorough = ctx.tier == "thorough"
    docs = [("hand:" + n, d) for n, d in HAND]
    small = ("various-enums", "simple-types", "id-or-name", "more_types", "maps", "arrays-and-tuples", "types-with-defaults",
             "reflexive", "string-enum-with-default", "x-rust-type")
    for name, doc in gen.fixture_docs():
        b = os.path.basename(name)[:-5]
        if b.startswith("github") or b in ("vega", "rust-collisions"):
            if not thorough or b != "github": continue
        if thorough or b in small: docs.append(("fixture:" + b, doc))
    import corpus
    for cid, cdoc, _ in corpus.documents():
        if cid.startswith("file:"): docs.append(("corpus:" + cid, cdoc))
    n = 400 if thorough else 30
    for k in range(n):
        fs = ["default", "defaults", "allof", "recursive", "formats", "allof"][k % 6]
        feats = set(gen.FEATURE_SETS[fs]) | ({"titles"} if k % 3 == 0 else set()) | ({"any"} if k % 4 == 0 else set()) | \
                ({"map_keys", "const"} if k % 6 == 5 else set())
        docs.append(("gen:%d" % k, gen.gen_universe(ctx.rng, 3 + k % 7, feats)))
    return docs

# ------------------------------------------------------------------------------------------ hypotheses of the theorems, on real dumps
def hyp_failures(plan, base, a):
    """the IR-side hypotheses under which the theorems give the property; evaluated on the real dump"""
    f = []
    es0 = irutil.entries(base["dump"]); es = irutil.entries(a["dump"]); info = plan.info
    if plan.primary is None:
        if a["dump"]["entries"] != base["dump"]["entries"] or a["dump"]["ref_to_id"] != base["dump"]["ref_to_id"]:
            f.append("derives / map type / builder changed the IR dump")
    if plan.primary == "replace":
        e = es.get(a["dump"]["ref_to_id"].get("def:" + info["def"]))
        if not (e and e["kind"] == "native" and ns(e["type_name"]) == ns(info["path"]) and sorted(e["impls"]) == sorted(info["impls"])):
            f.append("refId(%s) does not map to native %s with impls %s" % (info["def"], info["path"], info["impls"]))
    if plan.primary == "patch":
        e = es.get(info["id"]); new = info["new"] or info["old"]
        if not (e and e.get("name") == new): f.append("entry %d is not stored under the name %s" % (info["id"], new))
        if e and not set(info["derives"]) <= set(e["extra_derives"]): f.append("patch derives not in extra_derives of entry %d" % info["id"])
        if info["new"] and any(x.get("name") == info["old"] for x in es.values()): f.append("an entry is still named " + info["old"])
        ren = {info["old"]: new}
        if sorted(es) != sorted(es0) or any(subgraph(es0, t, ren) != subgraph(es, t) for t in es0):
            f.append("the patch changed the IR beyond the rename / extra_derives")
        # the patch derives reach the patched entry ONLY (an entry whose name merely resembles the patched name is not patched)
        other = [i for i in es if i in es0 and i != info["id"] and es0[i].get("name") != info["old"] and sorted(es[i].get("extra_derives") or []) != sorted(es0[i].get("extra_derives") or [])]
        if other: f.append("the extra_derives of entry %s (%s) changed although only %s is patched" % (other[0], es[other[0]].get("name"), info["old"]))
    return f

# ------------------------------------------------------------------------------------------ the property on the real output
def item_view(it, map_type, builder_too=False):
    """what a setting must not change, of a real item summary (whitespace-free); map type normalised to HashMap.
    `impl From<T> for Enum` is reported by tvh_m2 on T as well (`for:Enum:From<T>`): kept on the enum only."""
    def ty(s): return ns(s).replace(ns(map_type), HASHMAP)
    def sa(x):      # custom default fns are named after the (possibly patched) type: `defaults::<type>_<member>`
        x = ty(x)
        return 'default="defaults::<custom>"' if x.startswith('default="defaults::') and "::<" not in x else x
    def fld(f): return (f["name"], sorted(sa(x) for x in f["serde"]), ty(f["ty"]))
    return {"kind": it["kind"], "serde": sorted(ns(it["serde"])), "fields": sorted(fld(f) for f in it["fields"]),
            "variants": [(v["name"], sorted(ns(v["serde"])), v["kind"], [ty(t) for t in v["tys"]], sorted(fld(f) for f in v["fields"])) for v in it["variants"]],
            "impls": sorted(ty(i) for i in it["impls"] if (builder_too or ns(i) != "inherent:builder") and
                            not re.match(r"for:[A-Za-z_][A-Za-z0-9_]*:", ns(i)))}

def map_view(view, fn):
    def fld(f): return (f[0], sorted(fn(x) for x in f[1]), fn(f[2]))
    return {"kind": view["kind"], "serde": view["serde"], "fields": sorted(fld(f) for f in view["fields"]),
            "variants": [(v[0], v[1], v[2], [fn(t) for t in v[3]], sorted(fld(f) for f in v[4])) for v in view["variants"]],
            "impls": sorted(fn(i) for i in view["impls"])}

def all_type_strings(it):
    out = [f["ty"] for f in it["fields"]]
    for v in it["variants"]: out += list(v["tys"]) + [f["ty"] for f in v["fields"]]
    return [ns(x) for x in out] + [ns(i).replace("for:", "for: ").replace(":From<", " :From<") for i in it["impls"]]

def oracle_case(plan, base, a, real0, real):
    """failed clauses of the property on the real output of `plan` (a, real) given the default-settings run (base, real0)"""
    f = []
    st = plan.settings; info = plan.info
    map_type = st.get("map_type", HASHMAP)
    items = {}; items0 = {}
    for it in real["items"]: items.setdefault(it["name"], it)
    for it in real0["items"]: items0.setdefault(it["name"], it)
    es = irutil.entries(a["dump"]); es0 = irutil.entries(base["dump"])
    code = ns(strip_docs(a["code"]))
    # ---- globally requested derives on every type generated for a schema
    for d in st.get("derives", []):
        for it in real["items"]:
            if ns(d) not in ns(it["derives"]): f.append(("derive", "global derive %s missing on %s %s" % (d, it["kind"], it["name"])))
    # ---- map type at every map-typed member, also in skip_serializing_if; string->any maps are serde_json::Map
    for t in a["types"]:
        plist = list(t.get("props") or [])
        for v in t.get("variants") or []: plist += list(v.get("props") or [])
        for p in plist:
            e = es.get(p["type_id"])
            if e and e["kind"] == "map":
                k, v = es.get(e["key"], {}), es.get(e["value"], {})
                want = "::serde_json::Map<" if (k.get("kind") == "string" and v.get("kind") == "json_value") else ns(map_type) + "<"
                if not ns(p["type_ident"]).startswith(want):
                    f.append(("map", "member %s.%s has type %s, expected %s…" % (ns(t["name"]), p["name"], ns(p["type_ident"]), want)))
    for it in real["items"]:
        flds = list(it["fields"])
        for v in it["variants"]: flds += v["fields"]
        for fl in flds:
            ty = ns(fl["ty"])
            for sa in ns(fl["serde"]):
                if sa.startswith("skip_serializing_if=") and sa.endswith("::is_empty\"") and "Vec::is_empty" not in sa:
                    path = sa[len("skip_serializing_if=\""):-len("::is_empty\"")]
                    if not ty.startswith(path + "<"):
                        f.append(("map", "member %s.%s: skip_serializing_if names %s but the type is %s" % (it["name"], fl["name"], path, ty)))
    if ns(map_type) != HASHMAP and "collections::HashMap" in code:
        f.append(("map", "HashMap occurs in the output although the map type is " + map_type))
    # ---- builder does not change the type definitions (vs default run), nor do derives / map type
    if plan.primary is None:
        for n in sorted(set(items) | set(items0)):
            if n not in items or n not in items0: f.append(("inert", "item %s present only %s the settings" % (n, "with" if n in items else "without"))); continue
            if item_view(items[n], map_type) != item_view(items0[n], HASHMAP): f.append(("inert", "type definition of %s changed" % n))
            if "struct_builder" not in st and ns(items[n]["derives"]) != sorted(set(ns(items0[n]["derives"])) | set(ns(st.get("derives", [])))):
                f.append(("inert", "derives of %s are not base + requested" % n))
    # ---- replacement
    if plan.primary == "replace":
        K, path = info["name"], ns(info["path"])
        if K in items: f.append(("replace", "replaced definition %s is still generated" % K))
        for it in real["items"]:
            for s in all_type_strings(it):
                if has_ident(s, K): f.append(("replace", "%s still refers to %s in %s" % (it["name"], K, s)))
        did = base["dump"]["ref_to_id"].get("def:" + info["def"]); below = reach(es0, did)
        for n in sorted(set(items0) - set(items)):
            tid = irutil.named(base["dump"]).get(n, (None,))[0]
            if tid not in below: f.append(("replace", "item %s disappeared although it does not belong to the replaced definition" % n))
        for n in sorted(set(items) - set(items0)): f.append(("replace", "item %s appears only with the replacement" % n))
        # read off the SCHEMA, not off the default run: a member every declaration of which refers to the replaced definition
        # has the replacement type
        for D, ps in ref_uses(plan.doc, info["def"]):
            dt = es0.get(base["dump"]["ref_to_id"].get("def:" + D))
            it = items.get(dt["name"]) if dt and dt.get("name") else None
            if not it or it.get("kind") != "struct": continue
            have = sum(1 for fl in it.get("fields", []) if path in ns(fl["ty"]))
            if have < len(ps):
                f.append(("replace", "%s: the members %s are declared as references to %s, but only %d member(s) of %s have the type %s"
                          % (D, ps, info["def"], have, it["name"], path)))
        for n in sorted(set(items) & set(items0)):
            want = map_view(item_view(items0[n], HASHMAP), lambda s: strip_box(sub_ident(s, K, path)))
            got = map_view(item_view(items[n], map_type), strip_box)
            affected = any(has_ident(s, K) for s in all_type_strings(items0[n]))
            if affected: want.pop("impls"); got.pop("impls")
            if want != got:
                k = next(k for k in want if want[k] != got[k])
                f.append(("replace", "%s.%s: expected the default-run text with %s -> %s; got %s, expected %s" % (n, k, K, path, json.dumps(got[k])[:300], json.dumps(want[k])[:300])))
    # ---- conversion
    if plan.primary == "convert":
        path = ns(info["path"]); key = schema_key(info["schema"])
        if path not in code: f.append(("convert", "conversion type %s occurs nowhere" % path))
        for ptr, s, tid, pn, shape in container_positions(plan.doc, base):
            if schema_key(s) != key: continue
            cont = es0[tid]
            if shape == "def":
                e = es.get(a["dump"]["ref_to_id"].get("def:" + [k for k, _, p in def_items(plan.doc) if p == ptr][0]))
                inner = es.get(e["type_id"]) if e and e["kind"] == "newtype" else e
                if not (inner and inner["kind"] == "native" and ns(inner["type_name"]) == path):
                    f.append(("convert", "definition at %s equals the conversion schema but is not the conversion type" % ptr))
                continue
            it = items.get(cont["name"])
            fl = next((x for x in (it["fields"] if it else []) if any(ns(sa) == 'rename="%s"' % pn for sa in x["serde"]) or
                       (x["name"] == pn and not any(ns(sa).startswith("rename=") for sa in x["serde"]))), None)
            if fl is None:
                fl = next((x for x in (it["fields"] if it else []) if x["name"] == next((p["name"] for p in cont["props"] if wire_of(p) == pn), None)), None)
            if fl is None: f.append(("convert", "member for %s not found in %s" % (ptr, cont["name"]))); continue
            ty = strip_opt(ns(fl["ty"]))
            want = {"direct": path, "items": "::std::vec::Vec<%s>" % path, "values": "%s<::std::string::String,%s>" % (ns(map_type), path)}[shape]
            if shape == "items" and not ty.startswith("::std::vec::Vec<"): continue      # sets, tuples
            # (a map whose keys are constrained - `propertyNames` - has a key type of its own: only the VALUE type is the conversion's)
            if shape == "values" and ty.startswith(ns(map_type) + "<") and ty.endswith("," + path + ">"): continue
            if ty != want: f.append(("convert", "%s (%s): member type %s, expected %s" % (ptr, shape, ty, want)))
    # ---- patch
    if plan.primary == "patch":
        old, new = info["old"], info["new"] or info["old"]
        if new not in items: f.append(("patch", "no item named %s (the patched type)" % new))
        else:
            for d in info["derives"]:
                if ns(d) not in ns(items[new]["derives"]): f.append(("patch", "patch derive %s missing on %s" % (d, new)))
        if info["new"]:
            if old in items: f.append(("patch", "an item is still named " + old))
            if old in real.get("builders", []): f.append(("patch", "a builder is still named " + old))
            for it in real["items"]:
                for s in all_type_strings(it):
                    if has_ident(s, old): f.append(("patch", "%s still refers to the old name in %s" % (it["name"], s)))
            label = any(v["name"] == old for it in real0["items"] for v in it["variants"]) or \
                any(fl["name"] == old for it in real0["items"] for fl in it["fields"])
            if not label and old in code_idents(a["code"]):      # not also a variant / member label: nowhere at all
                f.append(("patch", "the old name %s occurs in the code outside doc comments and strings" % old))
        ren = lambda s: sub_ident(s, old, new)
        for n0 in sorted(items0):
            n = new if n0 == old else n0
            if n not in items: f.append(("patch", "item %s missing" % n)); continue
            want = map_view(item_view(items0[n0], HASHMAP), ren); got = item_view(items[n], map_type)
            if want != got:
                k = next(k for k in want if want[k] != got[k])
                f.append(("patch", "%s.%s differs from the default run with %s -> %s: %s vs %s" % (n, k, old, new, json.dumps(got[k])[:300], json.dumps(want[k])[:300])))
        for n in sorted(set(items) - {new if n0 == old else n0 for n0 in items0}): f.append(("patch", "unexpected item " + n))
    return f

def unaffected_types(plan, base, a):
    """[(name in the default run, name in the settings run, id0, id)] of the named types the primary setting does not touch"""
    es0 = irutil.entries(base["dump"]); es = irutil.entries(a["dump"])
    nm0 = irutil.named(base["dump"]); nm = irutil.named(a["dump"]); info = plan.info; out = []
    ren = {info["old"]: info["new"]} if plan.primary == "patch" and info.get("new") else {}
    bad_path = ns(info["path"]) if plan.primary in ("replace", "convert") else None
    did = base["dump"]["ref_to_id"].get("def:" + info["def"]) if plan.primary == "replace" else None
    for n0, (t0, _) in sorted(nm0.items()):
        n = ren.get(n0, n0)
        if n not in nm: continue
        t = nm[n][0]
        if bad_path is not None:
            if any(es[x]["kind"] == "native" and ns(es[x]["type_name"]) == bad_path for x in reach(es, t)): continue
            if did is not None and did in reach(es0, t0): continue
        out.append((n0, n, t0, t))
    return out

def ir_noninterference(plan, base, a):
    """the IR of every unaffected type is the same in both dumps (so `Serde.de/se` of the model agree by definition)"""
    es0 = irutil.entries(base["dump"]); es = irutil.entries(a["dump"]); f = []
    ren = {plan.info["old"]: plan.info["new"]} if plan.primary == "patch" and plan.info.get("new") else None
    box = plan.primary in ("replace", "convert")         # cycles through the replaced type no longer need a Box
    n = 0
    for n0, n1, t0, t in unaffected_types(plan, base, a):
        n += 1
        if subgraph(es0, t0, ren, box) != subgraph(es, t, None, box): f.append(("ir", "IR of unaffected type %s differs from the default run" % n0))
    return f, n

# ------------------------------------------------------------------------------------------ compiled non-interference
def compiled_stage(ctx, plans, ans, base_of, budget):
    """build default + settings variants, run the same de / rt requests on unaffected types, compare answers"""
    from batch import Batch, J
    sel = []
    seen_kinds = {}
    for i, p in enumerate(plans):
        if not p.compilable or ans[i] is None or p.tag.startswith("fixture:github"): continue
        k = (p.primary, p.settings.get("map_type"), bool(p.settings.get("struct_builder")), bool(p.settings.get("derives")))
        seen_kinds[k] = seen_kinds.get(k, 0) + 1
        sel.append((seen_kinds[k], ctx.rng.random(), i))
    sel = [i for _, _, i in sorted(sel)][:budget]
    b = Batch(ctx, assertions=False, ops=("de", "rt"), ops_for="named")
    pairs = []; base_cases = {}
    for i in sel:
        p = plans[i]; bi = base_of[i]
        doc = p.doc
        # instances for definitions / root whose type is unaffected
        un = {n0: (n1, t0, t1) for n0, n1, t0, t1 in unaffected_types(p, ans[bi], ans[i])}
        es0 = irutil.entries(ans[bi]["dump"]); targets = []
        for key, s in [("#", doc)] + [("def:" + k, s) for k, s, _ in def_items(doc)]:
            tid = ans[bi]["dump"]["ref_to_id"].get(key)
            e = es0.get(tid)
            if not e or e["kind"] not in NAMED or e["name"] not in un or un[e["name"]][1] != tid or not isinstance(s, dict): continue
            targets.append((e["name"], un[e["name"]][0], s))
        targets = targets[:6]
        if not targets: continue
        if bi not in base_cases:
            base_cases[bi] = b.add_case(plans[bi].request["calls"], plans[bi].settings, tag=plans[bi].tag, ops_types=set())
        c0 = base_cases[bi]
        c0.ops_types |= {t[0] for t in targets}
        c1 = b.add_case(p.request["calls"], p.settings, tag=p.tag, ops_types={t[1] for t in targets})
        pairs.append((i, c0, c1, targets))
    b.prepare(); b.build()
    reqs0 = []; reqs1 = []; meta = []
    for i, c0, c1, targets in pairs:
        if not (c0.compiled and c1.compiled): continue
        doc = plans[i].doc
        for n0, n1, s in targets:
            vals = []
            try:
                for _ in range(3): vals.append(gen.gen_valid(ctx.rng, doc, s, depth=3))
                vals += [v for v, _ in gen.gen_boundary(ctx.rng, doc, s, depth=3)[:4]]
                for v in list(vals[:3]): vals += [m[1] for m in gen.mutants(ctx.rng, doc, s, v)[:6]]
            except (gen.Unsat, KeyError, RecursionError, TypeError, ValueError, IndexError):
                pass
            vals += [None, {}, [], "x", 0]
            seen = set()
            for v in vals:
                js = J(v)
                if js in seen: continue
                seen.add(js)
                for op in ("de", "rt"):
                    reqs0.append((c0, n0, op, js)); reqs1.append((c1, n1, op, js)); meta.append((i, n0, n1, op, v))
    r0 = b.run(reqs0); r1 = b.run(reqs1)
    fails = []; compared = 0; ok_n = 0
    for (i, n0, n1, op, v), x, y in zip(meta, r0, r1):
        nx, ny = m3.norm_real(op, x), m3.norm_real(op, y)
        if nx[0] in m3.SKIP_REAL or ny[0] in m3.SKIP_REAL: continue
        compared += 1; ok_n += nx[0] == "ok"
        if nx != ny: fails.append((i, n0, n1, op, v, x, y))
    notcomp = [(plans[i].tag, [e.get("message") for e in (c1.rustc_errors or [])][:2]) for i, c0, c1, _ in pairs if c0.compiled and not c1.compiled]
    return {"pairs": len(pairs), "pairs_compiled": sum(1 for _, c0, c1, _ in pairs if c0.compiled and c1.compiled), "requests": compared,
            "accepted": ok_n, "fails": fails, "settings_variant_not_compiled": notcomp, "timings": b.timings}

# ------------------------------------------------------------------------------------------ run
def evaluate(plans, base_of, ans, real, model):
    """per plan: hypotheses, oracle, IR non-interference, M2; returns (records, counters)"""
    recs = []
    for i, p in enumerate(plans):
        a = ans[i]
        if a is None or base_of[i] == i: recs.append(None); continue
        base = ans[base_of[i]]
        hyp = hyp_failures(p, base, a)
        orc = oracle_case(p, base, a, real[base_of[i]], real[i])
        irf, nun = ir_noninterference(p, base, a)
        d = m2.diff_case(real[i], model[i]) if model[i] is not None else None
        recs.append({"hyp": hyp, "oracle": orc + irf, "m2": d, "unaffected": nun})
    return recs

def usable(a):
    return "error" not in a and a.get("calls") and a["calls"][-1].startswith("ok") and a.get("render") == "ok" and a.get("parses")

def run(ctx):
    st = vlib.proof_stage(ctx, "C14", PROOF_TARGETS, PROOF_FILES, slices=["ir"])
    thorough = ctx.tier == "thorough"
    docs = [(tag, d, {}) for tag, d in documents(ctx)]
    # documents with x-rust-type subschemas again under the crate policies that honour the extension: what replace / convert /
    # patch promise does not depend on the crate policy of the run (the base run of each variant has the same policy)
    for tag, d, _ in list(docs):
        if '"x-rust-type"' in json.dumps(d):
            crates = sorted({x["crate"] for _, x in gen.iter_schemas(d) if isinstance(x, dict) and isinstance(x.get("x-rust-type"), dict)
                             for x in [x["x-rust-type"]] if isinstance(x.get("crate"), str)})
            docs.append((tag + "@allow", d, {"unknown_crates": "allow"}))
            if crates: docs.append((tag + "@crates", d, {"crates": [{"name": c, "version": "*"} for c in crates]}))
    bases = m2.tvh_ir([{"settings": amb, "calls": [{"root": d}]} for _, d, amb in docs])
    plans = []; base_of = {}
    for (tag, doc, amb), b in zip(docs, bases):
        if not usable(b): continue
        bi = len(plans); plans.append(Plan(tag + "/default", doc, copy.deepcopy(amb), None)); base_of[bi] = bi
        nplans = (10 if thorough else 5) if not tag.startswith("hand:") else max(24 if thorough else 12, 4 * len(doc.get("definitions") or {}))
        for p in draw_plans(ctx.rng, tag, doc, b, nplans, thorough, ambient=amb):
            base_of[len(plans)] = bi; plans.append(p)
    raw = m2.tvh_ir([p.request for p in plans])
    ans = [a if usable(a) else None for a in raw]
    okidx = [i for i, a in enumerate(ans) if a is not None]
    rs = m2.real_summaries([ans[i]["code"] for i in okidx])
    real = [None] * len(plans)
    for i, r in zip(okidx, rs): real[i] = r
    model = [None] * len(plans)
    if st["driver_ok"]:
        ms = m2.model_summaries([(ans[i]["dump"], plans[i].settings) for i in okidx])
        for i, m in zip(okidx, ms): model[i] = m
    # a settings variant that fails where the default run succeeds is itself a finding candidate
    setting_breaks = [(plans[i], raw[i]) for i in range(len(plans)) if ans[i] is None and base_of[i] != i and ans[base_of[i]] is not None]
    recs = evaluate(plans, base_of, ans, real, model)
    nvar = sum(1 for r in recs if r); kinds = {}
    hyp_bad = []; orc_bad = []; m2_bad = []; clauses = {}
    for i, r in enumerate(recs):
        if not r: continue
        kinds[plans[i].primary or "orth"] = kinds.get(plans[i].primary or "orth", 0) + 1
        if r["hyp"]: hyp_bad.append((i, r["hyp"]))
        if r["oracle"]: orc_bad.append((i, r["oracle"]))
        if st["driver_ok"] and (r["m2"] is None or r["m2"]): m2_bad.append((i, r["m2"]))
    ctx.log("documents=%d variants=%d kinds=%s hypotheses_failed=%d oracle_failed=%d m2_disagreements=%d settings_break_ingest=%d"
            % (len(docs), nvar, kinds, len(hyp_bad), len(orc_bad), len(m2_bad), len(setting_breaks)))
    comp = {"pairs": 0, "pairs_compiled": 0, "requests": 0, "accepted": 0, "fails": [], "settings_variant_not_compiled": []}
    try:
        comp = compiled_stage(ctx, plans, ans, base_of, 300 if thorough else 30)
        ctx.log("compiled pairs=%d/%d requests compared=%d (accepted by the default variant: %d) differing=%d settings-variant-only compile failures=%d"
                % (comp["pairs_compiled"], comp["pairs"], comp["requests"], comp["accepted"], len(comp["fails"]), len(comp["settings_variant_not_compiled"])))
    except Exception as ex:
        ctx.notes.append("batch pipeline unavailable for the compiled non-interference stage: %r" % (ex,))
    for tag, errs in comp["settings_variant_not_compiled"][:5]:
        ctx.notes.append("settings variant does not compile while the default variant does (not compared): %s %s" % (tag, errs))
    for p, a in setting_breaks[:5]:
        ctx.notes.append("settings variant not ingested/rendered while the default run is: %s %s" % (p.tag, (a.get("error") or a.get("messages") or a.get("render_message"))))
    broken = list(st["broken"])
    if m2_bad: broken.append("correspondence M2 (render under settings): model and implementation disagree on %d variants" % len(m2_bad))
    if hyp_bad: broken.append("IR hypotheses of the C14 theorems fail on %d real dumps (e.g. %s)" % (len(hyp_bad), hyp_bad[0][1][0]))
    seen = set()
    for i, fl in orc_bad:
        key = fl[0][0]
        if key in seen or len(ctx.violations) >= 6: continue
        seen.add(key)
        vlib.violation(ctx, {"property": "C14", "kind": "implementation violates the property", "input": plans[i].request, "case": plans[i].tag,
                             "primary": plans[i].primary, "info": {k: v for k, v in plans[i].info.items()}, "failed_clauses": [list(x) for x in fl[:6]],
                             "hypotheses_failed": recs[i]["hyp"], "broken_obligations": broken})
    for i, n0, n1, op, v, x, y in comp["fails"][:3]:
        vlib.violation(ctx, {"property": "C14", "kind": "a type the setting does not touch answers differently on compiled code",
                             "input": plans[i].request, "case": plans[i].tag, "type_default": n0, "type_settings": n1, "op": op, "payload": v,
                             "default_variant": x, "settings_variant": y, "compiled": True})
    if broken and not orc_bad and not comp["fails"]:
        # search among the disagreeing inputs: the oracle found nothing on them
        first = [{"case": plans[i].tag, "input": plans[i].request, "diffs": [list(map(str, x))[:4] for x in (d or [("model failed",)])[:3]]} for i, d in m2_bad[:3]]
        first += [{"case": plans[i].tag, "input": plans[i].request, "hypotheses": h} for i, h in hyp_bad[:3]]
        vlib.violation(ctx, {"property": "C14", "kind": "property no longer shown to hold", "broken_obligations": broken,
                             "first_disagreements": first, "lean_log": st.get("log", "")}, no_input=True)
    ntypes = sum(len(real[i]["items"]) for i in okidx if base_of[i] != i)
    distinct = len({json.dumps(plans[i].request, sort_keys=True) for i in okidx if base_of[i] != i and plans[i].settings})
    cov = {"obligations": st["obligations"], "discharged": st["discharged"],
           "checker_cmd": "cd /verif/lean && lake build TypifyModel.Proofs.C14 && lake env lean TypifyModel/Audit/C14.lean",
           "trusted_base": vlib.TRUSTED_BASE + ["tvh_ir (real typify under settings), tvh_m2 (syn summary of the emitted items)",
                                                "rustc + serde for the compiled non-interference comparison (tools/batch.py)"],
           "axioms": st.get("axioms", {}),
           "evaluations": ntypes + comp["requests"], "distinct_nontrivial": distinct,
           "rule": "one evaluation = one generated item of one (schema, settings assignment) checked by the oracle, or one de/rt request answered by both compiled variants; distinct non-trivial = distinct (schema, settings assignment) pairs with a non-empty assignment drawn from the schema (replace a definition / convert a subschema / patch a type / derives, map type, builder)",
           "samples": [plans[i].tag for i in okidx if base_of[i] != i][:6] + ([plans[okidx[-1]].request["settings"]] if okidx else []),
           "documents": len(docs), "variants": nvar, "variant_kinds": kinds,
           "traces_validated_against_impl": nvar - len(m2_bad), "model_disagreements": len(m2_bad),
           "ir_hypotheses_checked": nvar, "ir_hypotheses_failed": len(hyp_bad),
           "unaffected_types_ir_compared": sum(r["unaffected"] for r in recs if r),
           "impl_oracle_failures_new": len(orc_bad) + len(comp["fails"]),
           "compiled_pairs": comp["pairs_compiled"], "compiled_requests_compared": comp["requests"],
           "compiled_requests_accepted": comp["accepted"], "settings_variant_only_compile_failures": len(comp["settings_variant_not_compiled"]),
           "settings_variant_not_ingested": len(setting_breaks), "tables_regenerated": st["tables_ok"]}
    vlib.write_evidence(ctx, "proof", cov, [
        "patch / replace / convert act while the IR is built: the theorems take the resulting IR facts as hypotheses (native entry under the definition's id; entry stored under the new name with the patch derives; no entry with the old name) and the check evaluates exactly these on every real dump",
        "Serde.de/se take no settings: wire non-interference is definitional in the model once the IR of the untouched types is unchanged (checked on every dump); its substance is the compiled default-vs-settings comparison",
        "replacement / patch keys are type names (sanitised Pascal case), conversion ignores top-level schemars Metadata only, patch renames are fresh names, derive spellings are the user's — see the module docstring",
        "custom map types that do not compile here (::indexmap::IndexMap) and custom replacement paths are checked at text level only"])

def replay(ctx, path):
    obj = json.load(open(path))
    if "input" not in obj:
        print("replay file names broken obligations only:", obj.get("broken_obligations")); return 1
    rq = obj["input"]; doc = rq["calls"][0]["root"]
    base, a = m2.tvh_ir([{"settings": {}, "calls": rq["calls"]}, rq])
    if not usable(base) or not usable(a):
        print("not ingested / rendered:", a.get("error") or a.get("messages")); return 1
    real0, real = m2.real_summaries([base["code"], a["code"]])
    plan = Plan(obj.get("case", "replay"), doc, rq["settings"], obj.get("primary"), obj.get("info"))
    bad = 0
    if obj.get("compiled"):
        from batch import Batch, J
        b = Batch("c14_replay", assertions=False, ops=("de", "rt"), ops_for="named")
        c0 = b.add_case(rq["calls"], {}, ops_types={obj["type_default"]}); c1 = b.add_case(rq["calls"], rq["settings"], ops_types={obj["type_settings"]})
        b.prepare(); b.build()
        x, y = b.run([(c0, obj["type_default"], obj["op"], J(obj["payload"])), (c1, obj["type_settings"], obj["op"], J(obj["payload"]))])
        print("default variant :", x); print("settings variant:", y)
        bad += m3.norm_real(obj["op"], x) != m3.norm_real(obj["op"], y)
    hyp = hyp_failures(plan, base, a); fl = oracle_case(plan, base, a, real0, real); irf, _ = ir_noninterference(plan, base, a)
    model = m2.model_summaries([(a["dump"], rq["settings"])])[0]
    d = m2.diff_case(real, model) if model else ["model failed"]
    for x in (fl + irf)[:10]: print("oracle:", x)
    for x in hyp: print("hypothesis:", x)
    print("model diffs:", d[:3])
    return 1 if (bad or fl or irf or hyp or d) else 0

"""C03 — round trip keeps declared data, stays schema-valid and is idempotent.
Theorems: lean/TypifyModel/Proofs/C03.lean — de_se_de / roundtrip_value / rt_fixed_point: for every IR, every
reference-closed set of entries satisfying the decidable side conditions (Model/RoundTrip.lean), every type in
it, every document: de v = ok x ∧ se x = ok w ⇒ de w = ok x (so roundtrip(w) = w).
Per run: the side conditions are evaluated by the Lean driver on the REAL IR dump of every definition (op rtok);
M3 ties de/se to the compiled generated code (op rt); the implementation oracle evaluates the whole property on
compiled code: w valid under the schema (python-jsonschema), prune(v) contained in prune(w), roundtrip(w) = w."""
import json
import vlib, m2, m3
from batch import Batch, J
from props.c02 import HAND, defs_of, small_ints, typeless_struct

PROOF_TARGETS = ["TypifyModel.Proofs.C03Valid", "TypifyModel.Proofs.C03", "TypifyModel.Proofs.C03Contain", "TypifyModel.Proofs.FlattenFindings", "TypifyModel.Proofs.Exclusive", "TypifyModel.Proofs.SerdeAttrs", "TypifyModel.Proofs.StructProps"]
PROOF_FILES = ["Proofs/C03Valid.lean", "Proofs/C03.lean", "Proofs/Lemmas/RoundTripLemmas.lean", "Proofs/Lemmas/RoundTripStruct.lean",
               "Proofs/Lemmas/RoundTripStruct2.lean", "Proofs/Lemmas/RoundTripMain.lean", "Proofs/Lemmas/RoundTripEnum.lean",
               "Proofs/Lemmas/SortedKv.lean", "Proofs/C03Contain.lean", "Proofs/Lemmas/ContainBasic.lean", "Proofs/Lemmas/ContainRefl.lean",
               "Proofs/Lemmas/ContainList.lean", "Proofs/Lemmas/ContainStruct.lean", "Proofs/Lemmas/ContainEnum.lean",
               "Proofs/Lemmas/RoundTripFlat.lean", "Proofs/Lemmas/ContainFlat.lean", "Proofs/FlattenFindings.lean",
               "Proofs/Exclusive.lean", "Model/Exclusive.lean"]

def cases(ctx):
    import gen
    out = [("hand:%d" % i, d) for i, d in enumerate(HAND)]
    for name, doc in gen.fixture_docs():
        if (name.startswith("github") or name.startswith("vega")) and ctx.tier != "thorough": continue
        out.append(("fixture:" + name, doc))
    n = 300 if ctx.tier == "thorough" else 36
    import corpus
    for cid, cdoc, _ in corpus.oracle_documents():
        if cid.startswith(("hand:", "file:")): out.append(("corpus:" + cid, cdoc))
    for k in range(n):
        fs = [gen.DEFAULT_FEATURES, gen.FEATURE_SETS["defaults"], gen.FEATURE_SETS["allof"], gen.FEATURE_SETS["recursive"],
              gen.FEATURE_SETS["formats"], gen.FEATURE_SETS["maps"], gen.FEATURE_SETS["unions"]][k % 7]
        out.append(("gen:%d" % k, gen.gen_universe(ctx.rng, 3 + k % 7, set(fs))))
    return out

def _native(s):
    """semantic value of a string that a native format type (chrono, uuid, std::net) may re-spell"""
    import uuid, ipaddress, datetime
    for f in (lambda x: ("uuid", uuid.UUID(x)), lambda x: ("ip", ipaddress.ip_address(x)),
              lambda x: ("dt", datetime.datetime.fromisoformat(x.replace("Z", "+00:00").replace("z", "+00:00")).astimezone(datetime.timezone.utc))):
        try: return f(s)
        except Exception: pass
    return None

def contained(a, b):
    """gen.contained, except that two strings naming the same uuid / instant / address are equal: a plain String
    member round-trips byte for byte, so this only matters for members typify maps to chrono/uuid/std::net types,
    whose canonical re-spelling is the external crate's behaviour, not typify's."""
    import gen
    if isinstance(a, dict):
        if not isinstance(b, dict): return False
        for k, x in a.items():
            kb = k if k in b else next((k2 for k2 in b if _native(k) is not None and _native(k) == _native(k2)), None)
            if kb is None or not contained(x, b[kb]): return False
        return True
    if isinstance(a, list): return isinstance(b, list) and len(a) == len(b) and all(contained(x, y) for x, y in zip(a, b))
    if isinstance(a, str) and isinstance(b, str) and a != b:
        na = _native(a); return na is not None and na == _native(b)
    return gen.jeq(a, b)

def losses(a, b, path=()):
    """the deepest places (paths into `a`) at which `a` is not contained in `b`"""
    if isinstance(a, dict) and isinstance(b, dict):
        out = []
        for k, x in a.items():
            kb = k if k in b else next((k2 for k2 in b if _native(k) is not None and _native(k) == _native(k2)), None)
            if kb is None: out.append(path + (k,))
            else: out += losses(x, b[kb], path + (k,))
        return out
    if isinstance(a, list) and isinstance(b, list) and len(a) == len(b):
        return [p for i, (x, y) in enumerate(zip(a, b)) for p in losses(x, y, path + (i,))]
    return [] if contained(a, b) else [path]

def f32_safe(v):
    """floats with at most 6 significant digits survive f32 and its shortest-representation printing exactly"""
    if isinstance(v, float): return v == float("%.6g" % v)
    if isinstance(v, dict): return all(f32_safe(x) for x in v.values())
    if isinstance(v, list): return all(f32_safe(x) for x in v)
    return True

def _open_branch_shadows(doc, key, fuel=40):
    """some anyOf / oneOf reachable from the definition has, after resolving a reference per branch, only PLAIN object
    schemas among its object branches, an earlier one of them open (additionalProperties not false) and without `required`"""
    import gen
    defs = doc.get("definitions") or doc.get("$defs") or {}
    start = doc if key == "#" else defs.get(key)
    seen = set(); work = [start]
    def res(b):
        for _ in range(4):
            if isinstance(b, dict) and set(b) - {"description", "title"} == {"$ref"}:
                try: b = gen.resolve_ref(doc, b["$ref"])
                except Exception: return None
            else: break
        return b
    def plain_obj(b): return isinstance(b, dict) and b.get("type") == "object" and not ({"allOf", "anyOf", "oneOf", "not", "$ref", "enum", "const"} & set(b))
    while work and fuel > 0:
        s = work.pop(); fuel -= 1
        if isinstance(s, list): work += s; continue
        if not isinstance(s, dict) or id(s) in seen: continue
        seen.add(id(s))
        for comb in ("anyOf", "oneOf"):
            bs = [res(b) for b in s.get(comb) or []]
            objs = [(i, b) for i, b in enumerate(bs) if isinstance(b, dict) and (b.get("type") == "object" or "properties" in b or "allOf" in b)]
            if len(objs) >= 2 and all(plain_obj(b) for _, b in objs):
                for n, (i, b) in enumerate(objs[:-1]):
                    if b.get("additionalProperties", True) is not False and not b.get("required"): return True
        if "$ref" in s and isinstance(s["$ref"], str):
            try: work.append(gen.resolve_ref(doc, s["$ref"]))
            except Exception: pass
        for k2, v2 in s.items():
            if k2 in ("default", "enum", "const", "examples", "definitions", "$defs"): continue
            if isinstance(v2, (dict, list)): work.append(v2)
            if k2 in ("properties", "patternProperties") and isinstance(v2, dict): work += list(v2.values())
    return False

def attribute(findings, c, key, v, what, w=None):
    """mechanism predicates, evaluated on the part of the IR the failing definition can reach"""
    import irutil
    es = irutil.entries(c.dump)
    t = c.dump["ref_to_id"].get("#" if key == "#" else "def:" + key)
    reach = irutil.reachable(c.dump, t) if t is not None else set()
    def through(i, fuel=8):
        e = es.get(i)
        while e is not None and e["kind"] in ("option", "box", "newtype") and fuel > 0:
            e = es.get(e["id"] if e["kind"] != "newtype" else e["type_id"]); fuel -= 1
        return e
    def swallows_objects(dt, enum_deny=False):
        """a variant that reads ANY object: an open struct (variant) without required members"""
        if not isinstance(dt, dict): return False
        ps = dt.get("struct")
        if ps is not None and enum_deny: return False      # container-level deny_unknown_fields closes in-line struct variants
        if ps is None and "item" in dt:
            e = through(dt["item"])
            if e is None or e["kind"] != "struct" or e.get("deny"): return False
            ps = e["props"]
        return ps is not None and all(p["state"] != "required" for p in ps)
    def objectlike(dt):
        if not isinstance(dt, dict): return False
        if "struct" in dt: return True
        e = through(dt["item"]) if "item" in dt else None
        return bool(e and e["kind"] in ("struct", "map"))
    for fd in findings:
        if fd["id"] == "C03-box-option-null" and what in ("invalid", "not-contained"):
            # an optional member whose Option node was boxed by cycle breaking: Box<Option<X>> serialises null
            for i in reach:
                e = es[i]
                props = (e.get("props") or []) + [p for vv in e.get("variants") or [] if isinstance(vv["details"], dict) for p in vv["details"].get("struct", [])]
                for p in props:
                    te = es.get(p["type_id"], {})
                    if p["state"] == "optional" and te.get("kind") == "box" and es.get(te.get("id"), {}).get("kind") == "option":
                        return fd
        if fd["id"] == "C03-untagged-shadow" and what in ("not-contained", "not-fixed-point", "invalid"):
            # the mechanism is a fact about the SCHEMA: a union of plain object schemas in which an OPEN branch without required
            # members comes before another object branch (util.rs object_schemas_mutually_exclusive calls the two exclusive as
            # soon as the later one requires a member the earlier does not declare, although the earlier, being open, accepts
            # it); the generated type is then an untagged enum whose earlier variant reads the later one's objects.
            # (A closed earlier branch, or a branch that is a composition, is a different defect.)
            if _open_branch_shadows(c.doc, key) and any(es[i]["kind"] == "enum" and es[i]["tag"] == "untagged" and
                    any(swallows_objects(a["details"], es[i].get("deny")) and any(objectlike(b["details"]) for b in es[i]["variants"][k + 1:])
                        for k, a in enumerate(es[i]["variants"])) for i in reach):
                return fd
        if fd["id"] == "C03-variant-shared-inline-type" and what in ("not-contained", "not-fixed-point", "invalid"):
            from props import c05 as _c05
            pairs = _c05.shared_variant_types(c.dump, only=reach)
            def hit2(x):
                if isinstance(x, dict):
                    return any(tg in x and any(k in x for k in ks) for tg, ks in pairs) or any(hit2(y) for y in x.values())
                if isinstance(x, list): return any(hit2(y) for y in x)
                return False
            if pairs and what == "not-contained" and w is not None:
                # every place at which data is lost lies under the shared member of an object of such a union
                import gen as _g
                def under(path):
                    cur = v
                    for t in path:
                        if isinstance(cur, dict) and any(tg in cur and t in ks for tg, ks in pairs): return True
                        try: cur = cur[t]
                        except Exception: return False
                    return False
                ls = losses(_g.prune(v), _g.prune(w))
                if ls and all(under(p) for p in ls): return fd
            elif pairs and hit2(v): return fd
        if fd["id"] == "C03-anyof-flatten-shared-member" and what in ("not-contained", "not-fixed-point", "invalid"):
            # a struct of flattened Option<struct> members two of which declare a member of the same name
            for i in reach:
                e = es[i]
                if e["kind"] != "struct": continue
                subs = []
                for p in e["props"]:
                    te = es.get(p["type_id"], {})
                    if p.get("rename") == "flatten" and te.get("kind") == "option":
                        se = through(te["id"])
                        if se and se["kind"] == "struct": subs.append({q["name"] if q.get("rename") in (None, "flatten") else q["rename"] for q in se["props"]})
                if any(subs[a] & subs[b] for a in range(len(subs)) for b in range(a + 1, len(subs))) and isinstance(v, dict) and \
                   any(sum(1 for sb in subs if m in sb) >= 2 for m in v):
                    return fd
    return None

def run(ctx):
    import gen
    findings = vlib.load_findings("C03")
    st = vlib.proof_stage(ctx, "C03", PROOF_TARGETS, PROOF_FILES, slices=["ir", "excl"])
    # which unions become enums at all: the exclusivity test of util.rs against its model (M0)
    import exclstage
    xstats, xdis = exclstage.stage(ctx, ctx.tier == "thorough") if st["driver_ok"] else ({"ran": False}, [])
    ctx.log("exclusivity M0: %s disagreements=%d" % (xstats, len(xdis)))
    if xdis:
        st["broken"].append("correspondence M0 (util.rs all_mutually_exclusive vs Model/Exclusive.lean) disagrees on %d of %d requests" % (len(xdis), xstats.get("requests", 0)))
        json.dump(xdis[:50], open(vlib.os.path.join(vlib.CACHE, "c03_excl_disagreements.json"), "w"), indent=1)
    cs = cases(ctx)
    b = Batch(ctx, assertions=False, ops=("de", "rt"), ops_for="all")
    bc = []
    for tag, doc in cs:
        c = b.add_case([{"root": doc}], {}, tag=tag); c.settings = {}; c.doc = doc; c.request = {"settings": {}, "calls": [{"root": doc}]}; bc.append(c)
    b.prepare()
    for c in bc:
        if c.dump:
            c.ops_types = [t for t in (c.dump["ref_to_id"].get("#" if k == "#" else "def:" + k) for k, _ in defs_of(c.doc)) if t is not None]
    b.build()
    live = [c for c in bc if c.compiled]
    reqs = []; meta = []; oreq = []; docids = {}; rtok_req = []; decl_req = []
    ninst = 10 if ctx.tier == "thorough" else 5
    for c in live:
        for key, schema in defs_of(c.doc):
            t = c.dump["ref_to_id"].get("#" if key == "#" else "def:" + key)
            if t is None or typeless_struct(schema): continue
            rtok_req.append((c, t, "rtok", ""))
            has_f32 = '"float"' in json.dumps(c.doc)
            vals = []
            for _ in range(ninst):
                try: vals.append(gen.gen_valid(ctx.rng, c.doc, schema))
                except Exception: break
            try: vals += [v for v, _ in gen.gen_boundary(ctx.rng, c.doc, schema)]
            except Exception: pass
            seen = set()
            for v in vals:
                s = J(v)
                if s in seen or not small_ints(v): continue
                if has_f32 and not f32_safe(v): continue
                try:
                    if not gen.only_declared(c.doc, schema, v): continue
                except Exception: continue
                seen.add(s)
                reqs.append((c, t, "rt", s)); meta.append((c, key, schema, v)); decl_req.append((c, t, "declared", s))
    # side conditions of the theorem on the real dumps
    rtok = {"true": 0, "false": 0, "other": 0}; ans = []
    if st["driver_ok"] and rtok_req:
        ans, _ = m3.model_answers(live, rtok_req)
        for a in ans: rtok[a if a in rtok else "other"] += 1
    # hypotheses of C03V.rt_valid_enforced (validity clause for the enforced constraints): rtok AND encB on the same definition
    both = 0; enc_true = 0
    if st["driver_ok"] and rtok_req:
        try:
            lines = []
            for k, c in enumerate(live):
                lines.append("ir c%d %s" % (k, json.dumps({"dump": c.dump, "settings": {}, "doc": c.doc}))); lines.append("allenc c%d" % k)
            out = m2.run_bin(vlib.drv("ir"), lines)
            encd = {}
            for k, c in enumerate(live):
                rr = json.loads(out[2 * k + 1]) if out[2 * k] == "ok" else {"defs": {}}
                for key, v in rr["defs"].items():
                    if v.get("enc") and v.get("rid") is not None: encd[(id(c), v["rid"])] = True
            enc_true = len(encd)
            both = sum(1 for rq, a in zip(rtok_req, ans) if a == "true" and encd.get((id(rq[0]), rq[1])))
        except Exception as e:
            ctx.notes.append("allenc unavailable: %r" % (e,))
    decl = {"true": 0, "false": 0, "other": 0}; inside = 0
    if st["driver_ok"] and decl_req:
        dans, _ = m3.model_answers(live, decl_req)
        okt = {(id(rq[0]), rq[1]) for rq, a in zip(rtok_req, ans) if a == "true"}
        for rq, a in zip(decl_req, dans):
            decl[a if a in decl else "other"] += 1
            if a == "true" and (id(rq[0]), rq[1]) in okt: inside += 1
    r = m3.compare(b, live, reqs) if st["driver_ok"] else {"real": b.run(reqs), "model": None, "disagreements": [], "skipped_model": 0, "skipped_real": 0}
    # implementation oracle
    ws = []; idx = []
    for k, ((c, key, schema, v), ra) in enumerate(zip(meta, r["real"])):
        stt, parts = m3.split_answer(ra)
        if stt == "ok" and len(parts) == 2:
            try: w = json.loads(parts[0]); w2 = json.loads(parts[1])
            except Exception: continue
            ws.append((k, w, w2))
            if id(c) not in docids:
                docids[id(c)] = "d%d" % len(docids); oreq.append({"doc_id": docids[id(c)], "doc": c.doc})
            oreq.append({"doc_id": docids[id(c)], "schema": schema, "value": v}); idx.append(("v", k))
            oreq.append({"doc_id": docids[id(c)], "schema": schema, "value": w}); idx.append(("w", k))
    verd = [x for x in (gen.run_oracle(oreq) if oreq else []) if x != "ok"]
    vvalid = {}; wvalid = {}
    for (which, k), o in zip(idx, verd):
        (vvalid if which == "v" else wvalid)[k] = o
    fails = []; known_hit = {}; checked = 0
    for k, w, w2 in ws:
        c, key, schema, v = meta[k]
        if vvalid.get(k) is not True: continue
        checked += 1
        probs = []
        if wvalid.get(k) is not True: probs.append("invalid")
        try:
            if not contained(gen.prune(v), gen.prune(w)): probs.append("not-contained")
        except Exception: pass
        if m3.canon(json.dumps(w)) != m3.canon(json.dumps(w2)): probs.append("not-fixed-point")
        for what in probs:
            fd = attribute(findings, c, key, v, what, w)
            if fd: known_hit[fd["id"]] = known_hit.get(fd["id"], 0) + 1
            else: fails.append((c, key, v, w, w2, what))
    ctx.log("cases=%d compiled=%d rt requests=%d checked=%d rtok=%s declared=%s M3 disagreements=%d oracle failures=%d known=%s" %
            (len(bc), len(live), len(reqs), checked, rtok, decl, len(r["disagreements"]), len(fails), known_hit))
    for fd in findings:
        vlib.known(ctx, fd) if witness_fails(fd) else ctx.notes.append("known finding %s no longer reproduces" % fd["id"])
    broken = list(st["broken"])
    if r["disagreements"]:
        broken.append("correspondence M3 (rt): model and compiled code disagree on %d requests" % len(r["disagreements"]))
        json.dump([{"case": rq[0].tag, "type_id": rq[1], "payload": rq[3], "compiled": ra, "model": ma} for rq, ra, ma in r["disagreements"][:50]],
                  open(vlib.os.path.join(vlib.CACHE, "c03_last_disagreements.json"), "w"), indent=1)
    seen = set()
    for c, key, v, w, w2, what in fails:
        if (c.tag, key, what) in seen or len(ctx.violations) >= 5: continue
        seen.add((c.tag, key, what))
        vlib.violation(ctx, {"property": "C03", "kind": "implementation violates the property", "input": c.request, "case": c.tag,
                             "definition": key, "instance": v, "roundtrip": w, "second_roundtrip": w2, "clause": what, "broken_obligations": broken})
    if broken and not fails:
        vlib.violation(ctx, {"property": "C03", "kind": "property no longer shown to hold", "broken_obligations": broken,
                             "first_disagreements": [{"case": rq[0].tag, "input": rq[0].request, "type_id": rq[1], "payload": rq[3], "compiled": ra, "model": ma} for rq, ra, ma in r["disagreements"][:3]],
                             "exclusivity_disagreements": xdis[:3], "lean_log": st.get("log", "")}, no_input=True)
    cov = {"exclusivity_M0": xstats,"obligations": st["obligations"], "discharged": st["discharged"],
           "checker_cmd": "cd /verif/lean && lake build TypifyModel.Proofs.C03 && lake env lean TypifyModel/Audit/C03.lean",
           "trusted_base": vlib.TRUSTED_BASE + ["python-jsonschema (tools/oracle.py)", "serde modelled (Model/Serde*.lean), tied by M3 op rt", "rustc"],
           "axioms": st.get("axioms", {}), "evaluations": len(reqs), "distinct_nontrivial": len(reqs),
           "rule": "per definition of every compiled case: schema-directed valid instances and boundary instances containing only declared members; distinct by (case, definition, JSON text); each is non-trivial (round-trips through at least the definition's own type)",
           "samples": [{"case": c.tag, "def": k, "instance": v} for (c, k, s, v) in meta[:4]],
           "definitions_satisfying_validity_clause_hypotheses(rtok and encB, C03V.rt_valid_enforced)": both, "definitions_with_encB": enc_true,
           "definitions_satisfying_theorem_hypotheses(rtok)": rtok["true"], "definitions_outside_hypotheses": rtok["false"],
           "instances_declared(hypothesis of rt_contains)": decl, "instances_inside_both_theorems": inside,
           "traces_validated_against_impl": len(reqs) - r["skipped_model"] - r["skipped_real"],
           "model_disagreements_M3": len(r["disagreements"]), "differences_attributed_to_C06_nested_default": r.get("attributed_C06_nested_default", 0), "model_out_of_fragment": r["skipped_model"],
           "oracle_checked_roundtrips": checked, "impl_oracle_failures_new": len(fails), "impl_oracle_failures_known": known_hit}
    vlib.write_evidence(ctx, "proof", cov, [
        "theorems: value-level idempotence (de_se_de, rt_fixed_point: roundtrip(w) = w) and containment (rt_contains: declared v => prune(v) contained in prune(w)), both for every reference-closed closedOkB set; schema-validity of w is NOT a theorem: it is evaluated on the compiled code by the oracle for every instance (as are the other two clauses)",
        "untagged enums, internally tagged newtype variants, flattened members and natives are outside the theorem's hypotheses (entryOkB) and exercised on compiled code only",
        "serde_derive/serde_json modelled, not verified"])

def witness_fails(fd):
    import gen
    b = Batch("c03_wit_" + fd["id"], assertions=False, ops=("rt",), ops_for="named", verbose=False)
    c = b.add_case(fd["witness"]["calls"], fd["witness"].get("settings", {})); b.prepare(); b.build()
    if not c.compiled: return True
    a = b.run([(c, fd["type"], "rt", J(fd["instance"]))])[0]
    stt, parts = m3.split_answer(a)
    if stt != "ok": return True
    w = json.loads(parts[0])
    doc = fd["witness"]["calls"][0]["root"]
    schema = doc["definitions"][fd["type"]] if fd["type"] in doc.get("definitions", {}) else {k: v for k, v in doc.items() if k != "definitions"}
    o = gen.run_oracle([{"doc": doc, "schema": schema, "value": w}])[0]
    return (o is not True) or (not gen.contained(gen.prune(fd["instance"]), gen.prune(w))) or m3.canon(parts[0]) != m3.canon(parts[1])

def replay(ctx, path):
    obj = json.load(open(path))
    if "input" not in obj: print("replay names broken obligations only:", obj.get("broken_obligations")); return 1
    b = Batch("c03_replay", assertions=False, ops=("rt",), ops_for="all")
    c = b.add_case(obj["input"]["calls"], {}); b.prepare(); b.build(); c.settings = {}
    key = obj["definition"]; t = c.dump["ref_to_id"].get("#" if key == "#" else "def:" + key)
    rr = m3.compare(b, [c], [(c, t, "rt", J(obj["instance"]))])
    print("compiled:", rr["real"][0], "| model:", rr["model"][0]); return 1

"""C15 — macro, cargo subcommand and builder generate the same types.
Theorems: lean/TypifyModel/Proofs/C15.lean (cli_eq_builder, cli_documented, macro_eq_builder,
macro_order_irrelevant, macro_documented, spec_accepts(_rename), spec_rejects, spec_sound, macro_spec_accepts,
t7_*_exact_ascii, cli_macro_same_names, out_path, set_extension_*, fail_writes_nothing, bad_spec_fails, ...)
over Generated/Frontends.lean (T7, regenerated from cargo-typify/src/lib.rs and typify-macro/src/*.rs).
Correspondence: slice c15 —
  model  : drv_c15 (Lean) answers the canonical Settings + output place for a parsed command line / macro options
  impl   : tvh_c15 runs the real cargo-typify binary (rebuilt from the working tree), the real builder in-process,
           and compares real `import_types!` expansions (rustc -Zunpretty=expanded) with include!d builder output.
Oracle (no model in the loop): items(front-end) = items(builder(settings read off the options by `spec_*` below)),
valid specifiers accepted, output place, nothing written on failure."""
import json, os, re, shutil, subprocess, sys, hashlib, itertools
from pathlib import PurePosixPath
import vlib

PROOF_TARGETS = ["TypifyModel.Proofs.C15"]
PROOF_FILES = ["Proofs/C15.lean", "Proofs/Lemmas/FrontendsLemmas.lean"]
THEOREMS = ["t7_cli_exact_ascii", "t7_macro_exact_ascii", "cli_macro_same_names", "spec_accepts",
            "spec_accepts_rename", "spec_rejects", "spec_sound", "macro_spec_accepts", "macro_spec_accepts_plain",
            "cli_eq_builder", "cli_documented", "macro_eq_builder", "macro_impls_order_fixed",
            "macro_order_irrelevant", "macro_crates_order_partial", "macro_documented", "impls_default",
            "impls_set_mem", "out_path", "set_extension_replaces", "set_extension_appends",
            "fail_writes_nothing", "bad_spec_fails", "same_settings_same_items", "frontends_same_items"]
CLI_BIN = os.path.join(vlib.REPO, "target", "debug", "cargo-typify")
MACRO_DIR = os.path.join(vlib.CACHE, "c15_macro")
DEFAULT_MAP = "::std::collections::HashMap"

# ------------------------------------------------------------------ independent specs (python)
SEMVER_RE = re.compile(r"(0|[1-9]\d*)\.(0|[1-9]\d*)\.(0|[1-9]\d*)"
                       r"(?:-((?:0|[1-9]\d*|\d*[a-zA-Z-][0-9a-zA-Z-]*)(?:\.(?:0|[1-9]\d*|\d*[a-zA-Z-][0-9a-zA-Z-]*))*))?"
                       r"(?:\+([0-9a-zA-Z-]+(?:\.[0-9a-zA-Z-]+)*))?", re.A)   # semver.org's regular expression

def spec_valid_name(s):
    return len(s) > 0 and all(c.isascii() and (c.isalnum() or c in "-_") for c in s)

def spec_valid_vers(v):
    if v in ("*", "!"): return True
    m = SEMVER_RE.fullmatch(v)
    return bool(m) and all(int(m.group(i)) < 2**64 for i in (1, 2, 3))

def spec_specifier(s):
    """None = the property says nothing; ('accept', name, vers, rename) / ('reject',)"""
    if "@" not in s: return ("reject",)
    m = re.fullmatch(r"(?:([^=@]*)=)?([^=@]*)@([^=]*)", s, re.S)
    if m and spec_valid_name(m.group(2)) and spec_valid_vers(m.group(3)) and \
            (m.group(1) is None or spec_valid_name(m.group(1))):
        return ("accept", m.group(2), m.group(3), m.group(1))
    return None

def path_str(p, spaced=False):
    sep = " :: " if spaced else "::"
    return ((":: " if spaced else "::") if p.get("leading") else "") + sep.join(p["segs"])

def dedupe(xs):
    out = []
    for x in xs:
        if x not in out: out.append(x)
    return out

def spec_cli_settings(a):
    """documented meaning of the CLI options (README, --help), written independently of the model"""
    crates = {}
    for c in a.get("crates", []):
        r = spec_specifier(c)
        if r is None or r[0] != "accept": return None
        crates[r[1]] = {"vers": r[2], "rename": r[3]}
    return {"type_mod": None, "derives": dedupe(a.get("derives", [])),
            "struct_builder": not a.get("no_builder", False),
            "unknown": a.get("unknown") or "generate",
            "crates": [[k, crates[k]] for k in sorted(crates, key=lambda s: s.encode())],
            "map_type": a.get("map_type") or DEFAULT_MAP, "patch": [], "replace": [], "convert": []}

def spec_out(a):
    o = a.get("output")
    if o == "-": return "stdout"
    if o is not None: return "file:" + o
    return "file:" + str(PurePosixPath(a["input"]).with_suffix(".rs"))

IMPL_ORDER = ["FromStr", "Display", "Default"]
def spec_impls(tai):
    s = {"FromStr", "Display"}
    for it in tai.get("impls", []):
        if it["name"] in IMPL_ORDER:
            (s.discard if it.get("maybe") else s.add)(it["name"])
    return [i for i in IMPL_ORDER if i in s]

def spec_macro_settings(o, spaced):
    """documented meaning of the macro options. Derive paths as a person writes them (`a::B`).
    `spaced`: replacement/conversion type paths as the macro's token printer writes them (`a :: B`)
    rather than as a person would pass them to the builder (`a::B`); the generator re-parses them."""
    crates = {}
    for key, val in sorted(o.get("crates", []), key=lambda kv: kv[0].encode()):
        if "@" in val:
            orig, vers = val.split("@", 1)
            crates[orig] = {"vers": vers, "rename": key}
        else:
            crates[key] = {"vers": val, "rename": None}
    ps = lambda p: path_str(p, spaced)
    ds = lambda p: path_str(p, False)
    return {"type_mod": None, "derives": dedupe([ds(d) for d in o.get("derives", [])]),
            "struct_builder": bool(o.get("struct_builder", False)),
            "unknown": (o.get("unknown") or "Generate").lower(),
            "crates": [[k, crates[k]] for k in sorted(crates, key=lambda s: s.encode())],
            "map_type": o.get("map_type") or DEFAULT_MAP,
            "patch": [[k, {"rename": v.get("rename"), "derives": [ds(d) for d in v.get("derives", [])]}]
                      for k, v in sorted(o.get("patch", []), key=lambda kv: kv[0].encode())],
            "replace": [[k, {"type": ps(v["type"]), "impls": spec_impls(v)}]
                        for k, v in sorted(o.get("replace", []), key=lambda kv: kv[0].encode())],
            "convert": [{"schema": k, "type": ps(v["type"]), "impls": spec_impls(v)} for k, v in o.get("convert", [])]}

# ------------------------------------------------------------------ generators
CRATE_NAMES = ["base64", "serde_json", "my-crate", "x86_64", "r2d2", "a", "my_crate-2", "std"]
ODD_NAMES = ["9lives", "_", "-", "a-", "A0_-z", "0", "crate9name", "x" * 40]
VERSIONS = ["*", "!", "1.2.3", "0.21.0", "1.0.0-alpha.1", "2.0.0+build.7", "10.20.30", "0.0.0", "1.2.3-rc.1+exp.sha.5114f85"]
BAD_VERSIONS = ["1.2", "1", "01.2.3", "1.2.3.4", "v1.2.3", "", "1.2.3-", "1.2.3+", "^1.2.3", ">=1.0.0", "1.2.x", "**", "!!", "1.2.3 ", "18446744073709551616.0.0"]
BAD_NAMES = ["a b", "a.b", "a/b", "a+b", "a,b", "a:b", "a!b", "a*b", "a~", "é", "naïve", "中", "a\tb"]
DERIVES_CLI = ["Hash", "PartialEq", "a::B", "::x::Y", "schemars::JsonSchema", "a0::Y", "a::Z", "::strum::Display", "Eq"]
MAP_TYPES = [None, "::std::collections::HashMap", "::std::collections::BTreeMap", "::indexmap::IndexMap", "std::collections::BTreeMap"]
POLICIES = [None, "generate", "allow", "deny"]
INPUTS = ["in.json", "dir/in.schema.json", "noext", "d.x/noext", ".hidden", "a-b_c.JSON", "deep/er/dir/s.json"]

def ident(n): return n.replace("-", "_")

REQS = ["1.2.3", "*", ">=0.21.0, <1.0.0", "^1.0.0-alpha", "2", "1.2", "0.0.0"]
def make_schema(k, rng):
    """a schema that makes every option observable in the items: every crate of the pool is named by
    an x-rust-type definition (requirement varies per schema), maps, structs, enums, defaults"""
    crates = list(CRATE_NAMES)
    defs = {
        "Kind": {"type": "string", "enum": ["a", "b", "c-%d" % k]},
        "Veggie": {"type": "object", "properties": {"veggieName": {"type": "string"}, "veggieLike": {"type": "boolean"}},
                   "required": ["veggieName"]},
        "Fruit": {"type": "object", "additionalProperties": {"type": "string"}},
        "Dec": {"type": "number"},
        "Id": {"type": "string", "format": "date-time-x"},
    }
    for i, c in enumerate(crates):
        defs["Ext%d" % i] = {"type": "string", "x-rust-type": {"crate": c, "version": REQS[(i + k) % len(REQS)] if k else "*",
                                                                "path": "%s::T%d" % (ident(c), i)}}
    props = {"a": {"type": "string"}, "n": {"type": "integer", "minimum": 0, "maximum": 255},
             "m": {"type": "object", "additionalProperties": {"type": "integer"}},
             "k": {"$ref": "#/definitions/Kind"}, "v": {"$ref": "#/definitions/Veggie"},
             "f": {"$ref": "#/definitions/Fruit"}, "d": {"$ref": "#/definitions/Dec"},
             "inner": {"type": "object", "properties": {"x": {"type": "number"}, "y": {"type": "array", "items": {"type": "string"}}}}}
    for i in range(len(crates)):
        props["e%d" % i] = {"$ref": "#/definitions/Ext%d" % i}
    if k % 3 == 1:
        props["opt"] = {"type": ["string", "null"]}
        defs["Veggie"]["properties"]["count"] = {"type": "integer", "default": 3}
    if k % 3 == 2:
        defs["Either"] = {"oneOf": [{"type": "string"}, {"type": "integer"}]}
        props["either"] = {"$ref": "#/definitions/Either"}
    s = {"$schema": "http://json-schema.org/draft-07/schema#", "title": "Root%d" % k, "type": "object",
         "properties": props, "required": ["a"], "definitions": defs}
    return {"text": json.dumps(s, sort_keys=True), "crates": crates}

def gen_spec_strings(ctx, n_random):
    out = []
    names = CRATE_NAMES + ODD_NAMES
    for n in names:
        for v in VERSIONS: out.append("%s@%s" % (n, v))
    for r in names[:8]:
        for n in names[:8]:
            out.append("%s=%s@%s" % (r, n, ctx.rng.choice(VERSIONS)))
    for n in CRATE_NAMES[:3]:
        for v in BAD_VERSIONS: out.append("%s@%s" % (n, v))
    for n in BAD_NAMES:
        out += ["%s@1.2.3" % n, "%s=a@1.2.3" % n, "a=%s@*" % n]
    out += ["", "@", "=", "=@", "a", "a=b", "a@", "@1.2.3", "=a@1.2.3", "a=@1.2.3", "a=b=c@1.2.3", "a@b@1.2.3",
            "a@1.2.3=b", "a@1.2.3+x=y", "a=b@1.2.3@4", "a@*@", "a@@*", "==a@*", "a@1.2.3\n", " a@1.2.3", "a @1.2.3",
            "base64@0.21.0", "r2=d2@1.0.0", "9lives@1.0.0"]
    alphabet = "ab9-_@=*!.+1 Zé"
    for _ in range(n_random):
        k = ctx.rng.randint(1, 9)
        out.append("".join(ctx.rng.choice(alphabet) for _ in range(k)))
    return dedupe(out)

def rand_crate_spec(rng, pool):
    n = rng.choice(pool)
    v = rng.choice(["*", "*", "!", "1.2.3", "0.21.7", "1.0.0-alpha.1", "2.0.0+build.7", "1.2.0", "0.0.0", "3.0.0"])
    if rng.random() < 0.4:
        return "%s=%s@%s" % (rng.choice(["r1", "re_named", "x-y", "b64", "r2"]), n, v)
    return "%s@%s" % (n, v)

def gen_cli_assignments(ctx, n):
    """option assignments of the CLI: every option alone over all its values, then random combinations"""
    A = [{}]
    for d in ([x] for x in DERIVES_CLI[:5]): A.append({"derives": d})
    A += [{"derives": ["Hash", "PartialEq"]}, {"derives": ["Hash", "Hash"]}, {"derives": ["a0::Y", "a::Z"]},
          {"derives": ["PartialEq", "Hash", "PartialEq", "::x::Y"]}]
    A += [{"builder": True}, {"no_builder": True}]
    A += [{"map_type": m} for m in MAP_TYPES[1:]]
    A += [{"unknown": p} for p in POLICIES[1:]]
    for c in CRATE_NAMES: A.append({"crates": ["%s@*" % c]})
    A += [{"crates": ["base64@0.21.0"]}, {"crates": ["b64=base64@!"]}, {"crates": ["my-crate@1.2.3", "my-crate@!"]},
          {"crates": ["x=my-crate@1.2.3", "y=my-crate@1.2.3"]}, {"crates": ["serde_json@1.2.3", "x86_64@1.0.0-alpha.1", "r2d2@2.0.0+build.7"]},
          {"crates": ["a@*"], "unknown": "deny"}, {"crates": ["a@!"], "unknown": "allow"}]
    while len(A) < n:
        rng = ctx.rng
        a = {}
        if rng.random() < .6: a["derives"] = [rng.choice(DERIVES_CLI) for _ in range(rng.choice([1, 2, 2, 3]))]
        b = rng.choice(["default", "on", "off"])
        if b == "on": a["builder"] = True
        if b == "off": a["no_builder"] = True
        m = rng.choice(MAP_TYPES)
        if m: a["map_type"] = m
        p = rng.choice(POLICIES)
        if p: a["unknown"] = p
        if rng.random() < .8: a["crates"] = [rand_crate_spec(rng, CRATE_NAMES) for _ in range(rng.choice([1, 2, 3, 4]))]
        A.append(a)
    return A[:max(n, 0)] if n < len(A) else A

def gen_cli_cases(ctx, n_assign, n_schema):
    schemas = [make_schema(k, ctx.rng) for k in range(n_schema)]
    assigns = gen_cli_assignments(ctx, n_assign)
    cases = []
    for i, a in enumerate(assigns):
        for k, s in enumerate(schemas):
            args = dict(a)
            args["input"] = INPUTS[(i + k) % len(INPUTS)]
            o = [None, None, "-", "out/gen.rs", "x.txt"][(i * 3 + k) % 5]
            if o: args["output"] = o
            cases.append({"args": args, "schema": s["text"]})
    # failures: bad specifier, conflicting flags, bad policy, bad schema text, unreadable input
    s0 = schemas[0]["text"]
    fails = [({"input": "in.json", "crates": ["nospec"]}, s0), ({"input": "in.json", "crates": ["a@1.2"]}, s0),
             ({"input": "in.json", "crates": ["base64@0.21.0", "a b@1.2.3"]}, s0),
             ({"input": "in.json", "builder": True, "no_builder": True}, s0),
             ({"input": "in.json", "unknown": "maybe"}, s0),
             ({"input": "in.json"}, "{not json"), ({"input": "in.json", "output": "-"}, "{not json"),
             ({"input": "in.json"}, None), ({"input": "in.json"}, json.dumps({"type": "object", "properties": {"a": {"$ref": "#/definitions/Nope"}}})),
             ({"input": "in.json", "unknown": "deny"}, s0), ({"input": "d/in.json", "output": "o.rs", "unknown": "deny", "crates": ["a@*"]}, s0)]
    for a, s in fails: cases.append({"args": a, "schema": s})
    return cases, schemas

MACRO_DERIVES = [{"segs": ["PartialEq"]}, {"leading": True, "segs": ["std", "hash", "Hash"]}, {"segs": ["std", "cmp", "Eq"]},
                 {"segs": ["PartialOrd"]}, {"leading": True, "segs": ["core", "cmp", "Ord"]}, {"segs": ["Hash"]}]
def gen_macro_cases(ctx, n, schemas):
    rng = ctx.rng
    M = []
    # systematic first modules: every macro option at least once, including the two documented defaults
    M.append({})
    M.append({"derives": [MACRO_DERIVES[1], MACRO_DERIVES[0], MACRO_DERIVES[1]], "struct_builder": True, "unknown": "Allow",
              "map_type": "::std::collections::BTreeMap",
              "crates": [["b64", "base64@*"], ["my-crate", "1.2.3"], ["serde_json", "*"], ["zz", "x86_64@!"], ["r2", "r2d2@2.0.0"]],
              "patch": [["Veggie", {"rename": "Vegetable", "derives": [{"segs": ["Eq"]}, {"leading": True, "segs": ["std", "hash", "Hash"]}]}],
                        ["Kind", {"derives": [{"segs": ["PartialOrd"]}]}]],
              "replace": [["Fruit", {"type": {"segs": ["my", "Fruit"]}, "impls": [{"maybe": True, "name": "Display"}, {"name": "Default"}]}]],
              "convert": [["{\"type\":\"number\"}", {"type": {"leading": True, "segs": ["dec", "Decimal"]}, "impls": [{"maybe": True, "name": "FromStr"}]}]]})
    M.append({"struct_builder": False, "unknown": "Generate", "map_type": "::std::collections::HashMap",
              "crates": [["r1", "my-crate@*"], ["r2", "my-crate@*"], ["r3", "my-crate@*"], ["r4", "my-crate@*"], ["r5", "my-crate@*"],
                         ["r6", "my-crate@*"], ["r7", "my-crate@*"], ["a", "*"], ["x", "x86_64@*"]],
              "replace": [["Veggie", {"type": {"segs": ["V"]}}], ["Fruit", {"type": {"segs": ["F"]}, "impls": [{"name": "Bogus"}, {"maybe": True, "name": "FromStr"}, {"name": "FromStr"}]}]]})
    M.append({"derives": [MACRO_DERIVES[2], MACRO_DERIVES[3]], "unknown": "Allow",
              "patch": [["Root0", {"rename": "TopLevel"}], ["Fruit", {"derives": [{"segs": ["PartialEq"]}]}], ["Veggie", {"rename": "Veg"}]]})
    # a crate configured under its own hyphenated name, under each policy that treats an unconfigured crate differently
    # (under Allow an entry that is silently lost goes unnoticed); "_schema": 0 = the document whose requirements are all `*`
    M.append({"crates": [["my-crate", "1.2.3"], ["my_crate-2", "*"], ["x86_64", "1.0.0"]], "_schema": 0})
    M.append({"unknown": "Generate", "crates": [["my-crate", "*"], ["my_crate-2", "2.0.0"], ["r2d2", "!"]], "_schema": 0})
    M.append({"unknown": "Allow", "crates": [["my-crate", "!"], ["std", "!"], ["a", "!"]], "_schema": 0})
    while len(M) < n:
        o = {}
        if rng.random() < .7: o["derives"] = [rng.choice(MACRO_DERIVES) for _ in range(rng.choice([1, 2, 3]))]
        if rng.random() < .6: o["struct_builder"] = rng.random() < .6
        if rng.random() < .6: o["unknown"] = rng.choice(["Generate", "Allow"])
        if rng.random() < .6: o["map_type"] = rng.choice(MAP_TYPES[1:])
        if rng.random() < .8:
            keys = rng.sample(["b64", "r1", "x-y", "re_named", "r2", "base64", "my-crate", "a", "serde_json"], rng.choice([1, 2, 3]))
            cr = []
            for kname in keys:
                v = rng.choice(["*", "*", "!", "1.2.3", "0.21.7", "1.0.0-alpha.1", "2.0.0", "1.2.0"])
                if kname in CRATE_NAMES and rng.random() < .6: cr.append([kname, v])
                else: cr.append([kname, "%s@%s" % (rng.choice(CRATE_NAMES), v)])
            o["crates"] = cr
        if rng.random() < .5:
            names = rng.sample(["Veggie", "Kind", "Fruit", "Nope"], rng.choice([1, 2]))
            o["patch"] = [[nm, {k: v for k, v in (("rename", nm + "X") if rng.random() < .6 else ("rename", None),
                                                   ("derives", [rng.choice(MACRO_DERIVES) for _ in range(rng.choice([0, 1, 2]))]))
                                if v is not None}] for nm in names]
        if rng.random() < .4:
            impls = [{"maybe": rng.random() < .5, "name": rng.choice(IMPL_ORDER + ["Bogus"])} for _ in range(rng.choice([0, 1, 2]))]
            o["replace"] = [[rng.choice(["Fruit", "Dec", "Id"]), {"type": {"segs": ["my", "Ty"], "leading": rng.random() < .3}, "impls": impls}]]
        if rng.random() < .4:
            impls = [{"maybe": rng.random() < .5, "name": rng.choice(IMPL_ORDER)} for _ in range(rng.choice([0, 1]))]
            o["convert"] = [["{\"type\":\"number\"}", {"type": {"segs": ["dec", "D"]}, "impls": impls}]]
        M.append(o)
    M = M[:n]
    return [{"opts": {k: v for k, v in o.items() if k != "_schema"}, "schema_idx": o.get("_schema", i % len(schemas))} for i, o in enumerate(M)]

def macro_text(o, schema_file):
    """the import_types! invocation for abstract macro options"""
    parts = ["schema = \"%s\"" % schema_file]
    tp = lambda p: path_str(p)
    def tai(v):
        s = tp(v["type"])
        if v.get("impls"):
            s += ": " + " + ".join(("?" if it.get("maybe") else "") + it["name"] for it in v["impls"])
        return s
    if "derives" in o: parts.append("derives = [%s]" % ", ".join(tp(d) for d in o["derives"]))
    if "struct_builder" in o: parts.append("struct_builder = %s" % ("true" if o["struct_builder"] else "false"))
    if "unknown" in o: parts.append("unknown_crates = %s" % o["unknown"])
    if "crates" in o: parts.append("crates = { %s }" % ", ".join("\"%s\" = \"%s\"" % (k, v) for k, v in o["crates"]))
    if "map_type" in o: parts.append("map_type = \"%s\"" % o["map_type"])
    if "patch" in o:
        def pv(v):
            f = []
            if v.get("rename") is not None: f.append("rename = \"%s\"" % v["rename"])
            if "derives" in v: f.append("derives = [%s]" % ", ".join(tp(d) for d in v["derives"]))
            return "{ %s }" % ", ".join(f)
        parts.append("patch = { %s }" % ", ".join("%s = %s" % (k, pv(v)) for k, v in o["patch"]))
    if "replace" in o: parts.append("replace = { %s }" % ", ".join("%s = %s" % (k, tai(v)) for k, v in o["replace"]))
    if "convert" in o:
        def sk(k):
            d = json.loads(k)
            return "{ %s }" % ", ".join("%s = %s" % (kk, json.dumps(vv)) for kk, vv in d.items())
        parts.append("convert = { %s }" % ", ".join("%s = %s" % (sk(k), tai(v)) for k, v in o["convert"]))
    return "typify::import_types!(%s);" % ", ".join(parts)

# ------------------------------------------------------------------ running the two sides
def run_parallel(side, lines, jobs=8):
    """vlib.run_side in `jobs` processes (tvh_c15 spawns the CLI and rustfmt per line)"""
    if len(lines) < 2 * jobs:
        return vlib.run_side(side, "c15", lines, tag="%s_0" % side)
    import concurrent.futures as cf
    chunks = [lines[i::jobs] for i in range(jobs)]
    with cf.ThreadPoolExecutor(jobs) as ex:
        outs = list(ex.map(lambda ic: vlib.run_side(side, "c15", ic[1], tag="%s_%d" % (side, ic[0])), enumerate(chunks)))
    res = [None] * len(lines)
    for j, o in enumerate(outs):
        if len(o) != len(chunks[j]): raise RuntimeError("line count mismatch in chunk %d" % j)
        for i, a in enumerate(o): res[j + i * jobs] = a
    return res

def build_cli(ctx):
    rc, out, err = vlib.sh(["cargo", "build", "--offline", "-p", "cargo-typify"], cwd=vlib.REPO)
    if rc != 0:
        ctx.log("cargo-typify does not build from the working tree"); sys.stderr.write(err[-3000:])
    return rc == 0

def macro_expand(ctx, mods, schemas, tag="batch"):
    """mods: list of {'name', 'text' (import_types! invocation) | 'include' (file name)}; returns path of expanded.rs"""
    d = MACRO_DIR
    os.makedirs(os.path.join(d, "src"), exist_ok=True)
    os.makedirs(os.path.join(d, ".cargo"), exist_ok=True)
    shutil.copy(os.path.join(vlib.REPO, "Cargo.lock"), os.path.join(d, "Cargo.lock"))
    shutil.copy(os.path.join(vlib.REPO, "rust-toolchain.toml"), os.path.join(d, "rust-toolchain.toml"))
    with open(os.path.join(d, "Cargo.toml"), "w") as f:
        f.write("[package]\nname = \"c15_macro\"\nversion = \"0.1.0\"\nedition = \"2021\"\n\n[workspace]\n\n[dependencies]\n"
                "typify = { path = \"%s/typify\" }\nserde = { version = \"1.0.219\", features = [\"derive\"] }\nserde_json = \"1.0.140\"\n" % vlib.REPO)
    with open(os.path.join(d, ".cargo", "config.toml"), "w") as f:
        f.write("[net]\noffline = true\n")
    for i, s in enumerate(schemas):
        with open(os.path.join(d, "s%d.json" % i), "w") as f: f.write(s["text"])
    with open(os.path.join(d, "src", "lib.rs"), "w") as f:
        f.write("#![allow(warnings)]\n")
        for m in mods:
            if "text" in m: f.write("pub mod %s { %s }\n" % (m["name"], m["text"]))
            else: f.write("pub mod %s { include!(\"%s\"); }\n" % (m["name"], m["include"]))
    env = dict(vlib.ENV, RUSTC_BOOTSTRAP="1")
    p = subprocess.run(["cargo", "rustc", "--offline", "--lib", "--", "-Zunpretty=expanded"], cwd=d, env=env,
                       capture_output=True, text=True)
    path = os.path.join(d, "expanded_%s.rs" % tag)
    with open(path, "w") as f: f.write(p.stdout)
    macro_errors = re.findall(r"^error(?!\[E0433\])[^\n]*\n\s*--> src/lib\.rs:(\d+)", p.stderr, re.M)
    return path, p.returncode, p.stderr, sorted(set(int(x) for x in macro_errors))

# ------------------------------------------------------------------ the check
def cmp_cli_case(case, model_ans, run, bmodel, bspec, spec):
    """returns (disagreement or None, oracle failure or None) for one CLI case"""
    dis = None; fail = None
    a = case["args"]
    # ---- model vs implementation
    if model_ans == "unsupported":
        pass
    elif model_ans == "usage-error":
        if run["exit"] != 2: dis = "model: usage error; cli exit=%s" % run["exit"]
    elif model_ans.startswith("{"):
        m = json.loads(model_ans)
        if run["exit"] == 2: dis = "model accepts the command line; cli reports a usage error"
        elif run["exit"] == 0:
            if run["out"] != m["out"]: dis = "output place: model %s, cli %s" % (m["out"], run["out"])
            elif not (bmodel and bmodel.get("ok")): dis = "cli succeeded; builder with the model's settings: %s" % (bmodel,)
            elif bmodel["hash"] != run["hash"]: dis = "items differ: cli vs builder(model's settings)"
        else:
            if bmodel and bmodel.get("ok") and case["schema"] is not None: dis = "cli failed (exit %s); builder with the model's settings succeeds" % run["exit"]
    else:
        dis = "model answer: " + model_ans
    # ---- the property on the implementation alone
    if run["exit"] != 0:
        if run["out"] != "none" or run["new_files"] or run["stdout_len"]:
            fail = ("writes-on-failure", "exit %s but out=%s files=%s stdout=%d bytes" % (run["exit"], run["out"], run["new_files"], run["stdout_len"]))
    if spec is not None and fail is None:
        if run["exit"] == 2 and not (a.get("builder") and a.get("no_builder")) and a.get("unknown") in (None, "generate", "allow", "deny"):
            fail = ("valid-spec-rejected", "every --crate is a valid specifier, yet usage error")
        elif run["exit"] == 0:
            if run["out"] != spec_out(a): fail = ("output-place", "expected %s, got %s" % (spec_out(a), run["out"]))
            elif not run.get("header"): fail = ("header", "lint-allow header missing")
            elif not (bspec and bspec.get("ok")): fail = ("builder-fails", "cli succeeded but builder(spec settings) = %s" % (bspec,))
            elif bspec["hash"] != run["hash"]: fail = ("items-differ", "cli items != builder(spec settings) items")
        elif run["exit"] not in (0, 2):
            if bspec and bspec.get("ok") and case["schema"] is not None: fail = ("cli-fails", "builder(spec settings) succeeds, cli exit %s" % run["exit"])
    return dis, fail

def check_specs(ctx, specs):
    lines = [json.dumps({"op": "spec", "s": s}) for s in specs]
    impl = run_parallel("impl", lines)
    model = vlib.run_side("model", "c15", lines) if ctx.driver_ok else [None] * len(lines)
    dis = []; fails = []; unsupported = 0; accepted = 0
    ctx.beyond = []   # accepted although not a Cargo-valid specifier (outside the property; reported, not a violation)
    for s, a, b in zip(specs, impl, model):
        if a == "ok": accepted += 1
        if a == "ok" and "@" in s and spec_specifier(s) is None: ctx.beyond.append(s)
        if b is not None:
            if b == "unsupported": unsupported += 1
            elif (b.split(" ")[0]) != a: dis.append({"input": {"op": "spec", "s": s}, "impl": a, "model": b})
            elif b.startswith("ok "):
                r = spec_specifier(s)
                if r and r[0] == "accept":
                    got = json.loads(b[3:])
                    if (got["name"], got["vers"], got["rename"]) != (r[1], r[2], r[3]):
                        dis.append({"input": {"op": "spec", "s": s}, "model": b, "spec": r})
        r = spec_specifier(s)
        if r is not None and r[0] == "accept" and a != "ok": fails.append((s, a, "valid-spec-rejected"))
        if r is not None and r[0] == "reject" and a != "err": fails.append((s, a, "spec-without-@-accepted"))
    return dis, fails, unsupported, accepted

def repo_state():
    rc, head, _ = vlib.sh(["git", "-C", vlib.REPO, "rev-parse", "HEAD"])
    rc, diff, _ = vlib.sh(["git", "-C", vlib.REPO, "diff", "--", "typify-impl/src", "typify-macro/src", "cargo-typify/src", "typify/src"])
    return head.strip() + ":" + hashlib.sha1(diff.encode()).hexdigest()[:12]

def run(ctx):
    findings = vlib.load_findings("C15")
    state0 = repo_state()
    if not build_cli(ctx):
        print("check: cargo-typify does not build against /repo's working tree", file=sys.stderr); sys.exit(2)
    st = vlib.proof_stage(ctx, "C15", PROOF_TARGETS, PROOF_FILES, slices=["c15"])
    ctx.driver_ok = st["driver_ok"]
    thorough = ctx.tier == "thorough"
    broken = list(st["broken"])
    disagreements = []; new_fail = []

    # ---- 1. crate specifiers
    specs = gen_spec_strings(ctx, 3000 if thorough else 400)
    d, f, unsup_spec, accepted = check_specs(ctx, specs)
    disagreements += d
    for s, a, kind in f: new_fail.append(({"op": "spec", "s": s}, kind, "binary answered %s" % a))
    ctx.log("specifiers=%d accepted=%d disagreements=%d oracle-failures=%d unsupported=%d" % (len(specs), accepted, len(d), len(f), unsup_spec))

    # ---- 2. command lines x schemas
    cases, schemas = gen_cli_cases(ctx, 600 if thorough else 60, 10 if thorough else 3)
    mlines = [json.dumps({"op": "cli", "args": c["args"]}) for c in cases]
    model = vlib.run_side("model", "c15", mlines) if ctx.driver_ok else ["no-driver"] * len(cases)
    ilines = []; idx = []
    for i, (c, m) in enumerate(zip(cases, model)):
        ilines.append(json.dumps({"op": "cli_run", "args": c["args"], "schema": c["schema"]})); idx.append((i, "run"))
        sp = spec_cli_settings(c["args"])
        c["spec"] = sp
        ms = json.loads(m)["settings"] if m.startswith("{") else None
        c["model_settings"] = ms
        if c["schema"] is not None:
            if ms is not None:
                ilines.append(json.dumps({"op": "builder", "settings": ms, "schema": c["schema"]})); idx.append((i, "bmodel"))
            if sp is not None and sp != ms:
                ilines.append(json.dumps({"op": "builder", "settings": sp, "schema": c["schema"]})); idx.append((i, "bspec"))
    impl = run_parallel("impl", ilines)
    res = [dict() for _ in cases]
    for (i, what), a in zip(idx, impl):
        res[i][what] = json.loads(a) if a.startswith("{") else {"ok": False, "err": a}
    n_ok = 0; n_settings_diff = 0; unsup_cli = 0; outs = {}
    for c, m, r in zip(cases, model, res):
        bmodel = r.get("bmodel"); bspec = r.get("bspec", bmodel if c["spec"] == c["model_settings"] else None)
        if m == "unsupported": unsup_cli += 1
        if c["spec"] is not None and c["model_settings"] is not None and c["spec"] != c["model_settings"]:
            n_settings_diff += 1
            disagreements.append({"input": {"op": "cli", "args": c["args"]}, "model": c["model_settings"], "spec": c["spec"],
                                  "what": "model settings differ from the documented meaning (python spec)"})
        dis, fail = cmp_cli_case(c, m, r["run"], bmodel, bspec, c["spec"])
        if dis and m != "no-driver":
            disagreements.append({"input": {"op": "cli", "args": c["args"], "schema": c["schema"]}, "impl": r["run"], "model": m[:300], "what": dis})
        if fail: new_fail.append(({"op": "cli", "args": c["args"], "schema": c["schema"]}, fail[0], fail[1]))
        if r["run"]["exit"] == 0: n_ok += 1
        key = "exit=%s out=%s" % (r["run"]["exit"], r["run"]["out"].split(":")[0]); outs[key] = outs.get(key, 0) + 1
    ctx.log("cli cases=%d ok=%d outcome=%s" % (len(cases), n_ok, outs))

    # ---- 3. macro expansions
    mcases = gen_macro_cases(ctx, 40 if thorough else 10, schemas)
    mm = [json.dumps({"op": "macro", "opts": c["opts"]}) for c in mcases]
    mmodel = vlib.run_side("model", "c15", mm) if ctx.driver_ok else ["no-driver"] * len(mcases)
    blines = []; bidx = []
    os.makedirs(os.path.join(MACRO_DIR, "src"), exist_ok=True)
    for i, (c, m) in enumerate(zip(mcases, mmodel)):
        c["spec"] = spec_macro_settings(c["opts"], spaced=False)
        c["spec_spaced"] = spec_macro_settings(c["opts"], spaced=True)
        c["model_settings"] = json.loads(m)["settings"] if m.startswith("{") else None
        sch = schemas[c["schema_idx"]]["text"]
        for what, s in (("bld", c["model_settings"]), ("spc", c["spec"])):
            if s is None: continue
            if what == "spc" and s == c["model_settings"]: continue
            blines.append(json.dumps({"op": "builder", "settings": s, "schema": sch,
                                      "emit": os.path.join(MACRO_DIR, "src", "%s%d.rs" % (what, i))})); bidx.append((i, what))
    bres = run_parallel("impl", blines) if blines else []
    for c in mcases: c["b"] = {}
    for (i, what), a in zip(bidx, bres):
        mcases[i]["b"][what] = json.loads(a) if a.startswith("{") else {"ok": False, "err": a}
    mods = []; pairs = []; skipped = 0
    for i, c in enumerate(mcases):
        oks = [w for w in ("bld", "spc") if c["b"].get(w, {}).get("ok")]
        if not oks: skipped += 1; continue
        mods.append({"name": "mac%d" % i, "text": macro_text(c["opts"], "s%d.json" % c["schema_idx"])})
        for w in oks:
            mods.append({"name": "%s%d" % (w, i), "include": "%s%d.rs" % (w, i)})
            pairs.append(("mac%d" % i, "%s%d" % (w, i), i, w))
    macro_same = 0; macro_results = {}
    if mods:
        path, rc, err, merr = macro_expand(ctx, mods, schemas)
        ans = vlib.run_side("impl", "c15", [json.dumps({"op": "expand_cmp", "path": path, "pairs": [[a, b] for a, b, _, _ in pairs]})], tag="expand")[0]
        ans = json.loads(ans) if ans.startswith("{") else {"ok": False, "err": ans}
        if not ans.get("ok"):
            broken.append("macro expansion could not be compared: %s; cargo rc=%s %s" % (ans.get("err"), rc, err[-600:]))
        else:
            for (a, b, i, w), r in zip(pairs, ans["results"]):
                macro_results[(i, w)] = r
        for i, c in enumerate(mcases):
            inp = {"op": "macro", "opts": c["opts"], "schema": schemas[c["schema_idx"]]["text"], "invocation": macro_text(c["opts"], "s.json")}
            rb = macro_results.get((i, "bld")); rs = macro_results.get((i, "spc"), rb if c["spec"] == c["model_settings"] else None)
            if c["model_settings"] is not None and c["model_settings"] != c["spec_spaced"]:
                disagreements.append({"input": inp, "model": c["model_settings"], "spec": c["spec_spaced"], "what": "model settings differ from the documented meaning (python spec)"})
            if rb is not None and rb["result"] != "same":
                disagreements.append({"input": inp, "what": "expansion differs from builder(model's settings)", "detail": rb})
            if rb is not None and rb["result"] == "same": macro_same += 1
            if rs is not None and rs["result"] != "same":
                new_fail.append((inp, "macro-items-differ", json.dumps(rs)[:900]))
            if rs is None and c["b"].get("spc", {}).get("ok") is False and c["b"].get("bld", {}).get("ok"):
                new_fail.append((inp, "macro-builder-fails", "builder(spec settings) fails: %s" % c["b"]["spc"]))
    ctx.log("macro modules=%d compared=%d same-as-builder(model)=%d skipped(builder fails)=%d" % (len(mcases), len(pairs), macro_same, skipped))

    # ---- classify
    if repo_state() != state0:
        ctx.notes.append("the source tree under /repo changed while this check was running (another process edits it): the harness, the CLI binary and the macro crate may have been built from different sources; re-run")
        ctx.log("WARNING: /repo changed during the run")
    if disagreements:
        broken.append("correspondence c15: model and implementation disagree on %d inputs" % len(disagreements))
    known_hit = {}
    really_new = []
    for inp, kind, det in new_fail:
        f = attribute(inp, kind, findings)
        if f is None: really_new.append((inp, kind, det))
        else: known_hit[f["id"]] = known_hit.get(f["id"], 0) + 1
    for f in findings:
        if known_hit.get(f["id"]): vlib.known(ctx, f)
        else: ctx.notes.append("known finding %s was not hit by this run's cases" % f["id"])
    seen = set()
    for inp, kind, det in really_new:
        if kind in seen: continue
        seen.add(kind)
        if len(ctx.violations) >= 5: break
        vlib.violation(ctx, {"property": "C15", "kind": "implementation violates the property", "failed_clause": kind,
                             "detail": det, "input": inp, "broken_obligations": broken,
                             "first_disagreements": disagreements[:3], "replay": "./check C15 --replay <this file>"})
    if broken and not really_new:
        vlib.violation(ctx, {"property": "C15", "kind": "property no longer shown to hold", "broken_obligations": broken,
                             "first_disagreements": disagreements[:5], "lean_log": st.get("log", "")}, no_input=True)
    evaluations = len(specs) + len(cases) + len(mcases)
    distinct = len(set(specs)) + len(set(json.dumps(c["args"], sort_keys=True) + hashlib.sha1((c["schema"] or "").encode()).hexdigest() for c in cases
                                         if any(k in c["args"] for k in ("derives", "crates", "map_type", "unknown", "builder", "no_builder", "output")))) \
        + len(set(json.dumps(c["opts"], sort_keys=True) for c in mcases if c["opts"]))
    cov = {
        "obligations": st["obligations"], "discharged": st["discharged"],
        "checker_cmd": "cd /verif/lean && lake build TypifyModel.Proofs.C15 && lake env lean TypifyModel/Audit/C15.lean",
        "trusted_base": vlib.TRUSTED_BASE + [
            "clap / serde_tokenstream tokenisation of the option syntax (outside the model: inputs are parsed option structures; exercised end to end by the real binary and real macro expansions)",
            "semver::Version::parse validity is an abstract predicate in the theorems (driver instance: SemVer 2.0 grammar, tied by the specifier correspondence)",
            "Unicode tables of char::is_alphabetic/is_numeric are an abstract CharSem constrained on ASCII",
            "rustc -Zunpretty=expanded (pinned 1.80.1) and rustfmt/syn/prettyplease used to compare items up to formatting"],
        "axioms": st.get("axioms", {}), "theorems": ["C15." + t for t in THEOREMS],
        "evaluations": evaluations, "distinct_nontrivial": distinct,
        "rule": "crate specifiers: names x versions x renames from fixed pools (digits, '-', '_', '*', '!', pre-release/build), malformed variants, random strings over a small alphabet; "
                "command lines: every CLI option alone over all its values, fixed multi-option assignments, random combinations (derives 0-3 with duplicates, builder default/on/off, 5 map types, 1-4 crates with renames/duplicates, 4 policies) x generated schemas (x-rust-type crates, maps, structs, enums) x input/output path forms, plus failing command lines; "
                "macro: fixed option sets covering every macro option + random ones, expanded by rustc in one crate next to include!d builder output. "
                "distinct by request text; non-trivial = at least one option set (specifiers: all)",
        "samples": [{"op": "spec", "s": specs[0]}, {"op": "spec", "s": specs[len(specs) // 2]},
                    {"op": "cli", "args": cases[len(cases) // 3]["args"]}, {"op": "cli", "args": cases[-1]["args"]},
                    {"op": "macro", "invocation": macro_text(mcases[1]["opts"], "s1.json") if len(mcases) > 1 else ""}],
        "traces_validated_against_impl": len(specs) - unsup_spec + len(cases) - unsup_cli + len(pairs),
        "model_disagreements": len(disagreements),
        "impl_oracle_failures_new": len(really_new), "impl_oracle_failures_known": known_hit,
        "out_of_model_domain": unsup_spec + unsup_cli,
        "specifiers": len(specs), "specifiers_accepted": accepted,
        "specifiers_accepted_beyond_cargo_rule": {"count": len(ctx.beyond), "samples": ctx.beyond[:8],
            "note": "is_crate (both front-ends) also accepts the empty name and non-ASCII alphanumerics; the property only requires valid specifiers to be accepted"}, "cli_cases": len(cases), "cli_ok": n_ok, "cli_outcomes": outs,
        "cli_settings_spec_vs_model_diff": n_settings_diff,
        "macro_modules": len(mcases), "macro_pairs_compared": len(pairs), "macro_same": macro_same, "macro_skipped_builder_fails": skipped,
        "tables_regenerated": st["tables_ok"],
    }
    vlib.write_evidence(ctx, "proof", cov, [
        "generation is a function of TypeSpaceSettings x schema (TypeSpace::new(&settings); add_root_schema; to_stream)",
        "a semver::Version is identified with its text (Version::parse is strict, Display round-trips)",
        "version texts contain no '=' (semver grammar)",
        "the macro's token printer separates path tokens with spaces (rustc 1.80.1 proc_macro::TokenStream::to_string); only replacement/conversion type names keep that form, and the generator re-parses them",
    ])

def attribute(inp, kind, findings):
    for f in findings:
        pred = f.get("match")
        if pred and pred.get("kind") == kind and all(k in json.dumps(inp) for k in pred.get("contains", [])):
            return f
    return None

def replay(ctx, path):
    obj = json.load(open(path))
    if "input" not in obj:
        print("replay file names broken obligations only:", obj.get("broken_obligations")); return 1
    if not build_cli(ctx): return 2
    inp = obj["input"]
    have_drv = os.path.exists(vlib.drv("c15"))
    if inp["op"] == "spec":
        line = json.dumps({"op": "spec", "s": inp["s"]})
        a = vlib.run_side("impl", "c15", [line])[0]
        b = vlib.run_side("model", "c15", [line])[0] if have_drv else "n/a"
        r = spec_specifier(inp["s"])
        bad = (r is not None and r[0] == "accept" and a != "ok") or (r is not None and r[0] == "reject" and a != "err")
        print("input:", line); print("impl :", a); print("model:", b); print("spec :", r); print("oracle failure:", bad)
        return 1 if bad or (b not in ("n/a", "unsupported") and b.split(" ")[0] != a) else 0
    if inp["op"] == "cli":
        c = {"args": inp["args"], "schema": inp.get("schema")}
        m = vlib.run_side("model", "c15", [json.dumps({"op": "cli", "args": c["args"]})])[0] if have_drv else "no-driver"
        sp = spec_cli_settings(c["args"]); ms = json.loads(m)["settings"] if m.startswith("{") else None
        lines = [json.dumps({"op": "cli_run", "args": c["args"], "schema": c["schema"], "text": True})]
        if c["schema"] is not None:
            for s in (ms, sp):
                lines.append(json.dumps({"op": "builder", "settings": s, "schema": c["schema"], "text": True}) if s else json.dumps({"op": "none"}))
        out = vlib.run_side("impl", "c15", lines)
        run_ = json.loads(out[0])
        bm = json.loads(out[1]) if len(out) > 1 and out[1].startswith("{") else None
        bs = json.loads(out[2]) if len(out) > 2 and out[2].startswith("{") else None
        dis, fail = cmp_cli_case(c, m, run_, bm, bs, sp)
        print("args :", json.dumps(c["args"])); print("model:", m[:400]); print("spec :", json.dumps(sp))
        print("cli  :", {k: v for k, v in run_.items() if k != "text"})
        if run_.get("text") and bs and bs.get("text") and run_["text"] != bs["text"]:
            import difflib
            print("".join(list(difflib.unified_diff(bs["text"].splitlines(True), run_["text"].splitlines(True), "builder(spec)", "cli"))[:60]))
        print("disagreement:", dis); print("oracle failure:", fail)
        return 1 if dis or fail else 0
    if inp["op"] == "macro":
        o = inp["opts"]; sch = {"text": inp["schema"]}
        m = vlib.run_side("model", "c15", [json.dumps({"op": "macro", "opts": o})])[0] if have_drv else "no-driver"
        ms = json.loads(m)["settings"] if m.startswith("{") else None
        sp = spec_macro_settings(o, spaced=False)
        os.makedirs(os.path.join(MACRO_DIR, "src"), exist_ok=True)
        mods = [{"name": "mac0", "text": macro_text(o, "s0.json")}]; pairs = []
        for w, s in (("bld", ms), ("spc", sp)):
            if s is None: continue
            a = vlib.run_side("impl", "c15", [json.dumps({"op": "builder", "settings": s, "schema": sch["text"], "emit": os.path.join(MACRO_DIR, "src", "%s0.rs" % w)})])[0]
            print("builder(%s):" % w, a[:200])
            if a.startswith("{") and json.loads(a).get("ok"):
                mods.append({"name": w + "0", "include": w + "0.rs"}); pairs.append(["mac0", w + "0"])
        p, rc, err, merr = macro_expand(ctx, mods, [sch], tag="replay")
        ans = vlib.run_side("impl", "c15", [json.dumps({"op": "expand_cmp", "path": p, "pairs": pairs})])[0]
        print("invocation:", macro_text(o, "s0.json")); print("model:", m[:400]); print("spec :", json.dumps(sp)); print("compare:", ans[:1500])
        bad = (not ans.startswith("{")) or any(r["result"] != "same" for r in json.loads(ans).get("results", [{"result": "x"}]))
        return 1 if bad else 0
    return 1

"""C12 — the generated code depends only on the settings and the content of the schema document.
Theorems: lean/TypifyModel/Proofs/C12.lean (parse_perm, canon_perm, unique_perm, len_perm, contains_perm,
counts_perm, subset_perm, sorted_perm, keyed_insert_perm, hash_sites_ok over the regenerated table T5,
no_preserve_order, render_pure).
Tie to the code: T5 (harness/src/t5_hash_sites.rs -> Generated/HashSites.lean) on every run;
correspondence c12 (real serde_json parse -> BTreeMap order  vs  Determinism.canon) on permuted documents.
Implementation-side oracle (the property itself): the same request file in N fresh processes (fresh
RandomState seeds), key-order/whitespace variants of every document, two to_stream() calls per space,
and N expansions of import_types! in fresh rustc processes: all byte-identical."""
import json, os, glob, re, subprocess, hashlib, shutil, time, random
from concurrent.futures import ThreadPoolExecutor
import vlib

PROOF_TARGETS = ["TypifyModel.Proofs.C12"]
PROOF_FILES = ["Proofs/C12.lean", "Proofs/Lemmas/Determinism.lean"]
THEOREMS = ["parse_perm", "parse_sorted", "parse_keys", "parse_dup_last_wins", "parse_dup_order_matters",
            "canon_perm", "unique_iff_nodup", "unique_perm", "len_perm", "len_repr", "contains_perm",
            "lookup_perm", "counts_perm", "subset_perm", "sorted_perm", "sorted_is_sort", "keyed_insert_perm",
            "keyed_insert_not_injective", "hash_sites_ok", "no_preserve_order", "render_pure", "no_hidden_state"]
HASHSITES = os.path.join(vlib.LEAN, "TypifyModel", "Generated", "HashSites.lean")
MACRO_DIR = os.path.join(vlib.CACHE, "c12_macro")

BUDGET = {
    "quick":    dict(procs=3,  perms=2, gen_docs=40,  settings=2, macro_runs=3,  big_perms=1, crafted=150),
    "thorough": dict(procs=20, perms=6, gen_docs=200, settings=4, macro_runs=10, big_perms=3, crafted=1500),
}

# ------------------------------------------------------------------ documents
def fixtures():
    fs = sorted(glob.glob(os.path.join(vlib.REPO, "typify/tests/schemas/*.json")) +
                glob.glob(os.path.join(vlib.REPO, "typify-impl/tests/*.json")))
    return [(os.path.relpath(f, vlib.REPO), open(f, encoding="utf-8").read()) for f in fs]

def shuffle_keys(v, rng):
    """the same JSON value with every object's members in a random order"""
    if isinstance(v, dict):
        ks = list(v.keys()); rng.shuffle(ks)
        return {k: shuffle_keys(v[k], rng) for k in ks}
    if isinstance(v, list):
        return [shuffle_keys(x, rng) for x in v]
    return v

WS_STYLES = [dict(indent=None, separators=(",", ":")), dict(indent=2), dict(indent=None, separators=(" , ", " : ")),
             dict(indent=1, separators=(",", ":\t")), dict(indent=4, ensure_ascii=False), dict(indent=None)]

def variant(value, rng, k):
    style = dict(WS_STYLES[k % len(WS_STYLES)])
    style.setdefault("ensure_ascii", rng.random() < 0.5)
    return json.dumps(shuffle_keys(value, rng), **style)

NAMES = ["id", "name", "kind", "value", "values", "type", "Type", "item-count", "item_count", "créé", "x", "y", "z",
         "a1", "1a", "self", "ref", "box", "data", "meta", "flags", "opt", "url", "tags", "color", "size", "owner",
         "created_at", "updatedAt", "is-ok", "weight", "parent", "children", "limit", "offset", "q", "w", "e", "r",
         "alpha", "beta", "gamma", "delta", "epsilon", "zeta", "eta", "theta", "iota", "kappa", "lambda", "mu"]

def enum_values(rng, lo, hi):
    """mostly collision-free variant names; now and then the pairs type/Type and
    item-count/item_count, which typify cannot name
    apart (panic path that reads the `counts` HashMap)"""
    pool = [n for n in NAMES if n not in ("Type", "item_count")] if rng.random() < .97 else NAMES
    return rng.sample(pool, rng.randint(lo, hi))

def gen_leaf(rng, defs):
    r = rng.random()
    if r < .18: return {"type": "string"}
    if r < .30: return {"type": "integer", "format": rng.choice(["int32", "uint8", "int64", "uint32"])}
    if r < .38: return {"type": "boolean"}
    if r < .46: return {"type": "number"}
    if r < .56: return {"type": "string", "format": rng.choice(["uuid", "date-time", "ip", "date", "foo"])}
    if r < .70 and defs: return {"$ref": "#/definitions/" + rng.choice(defs)}
    if r < .80: return {"type": "array", "items": gen_leaf(rng, defs), **({"uniqueItems": True} if rng.random() < .3 else {})}
    if r < .90:
        return {"type": "string", "enum": enum_values(rng, 2, 12)}
    if r < .95: return {"type": "object", "additionalProperties": gen_leaf(rng, defs)}
    return {"type": ["string", "null"]}

def gen_object(rng, defs, nprops):
    props = {}
    for n in rng.sample(NAMES, min(nprops, len(NAMES))):
        p = gen_leaf(rng, defs)
        if rng.random() < .2 and p.get("type") == "string" and "enum" not in p: p["default"] = rng.choice(NAMES)
        if rng.random() < .15: p["description"] = "the " + n
        props[n] = p
    req = [k for k in props if rng.random() < .5 and "default" not in props[k]]
    o = {"type": "object", "properties": props}
    if req: o["required"] = req
    if rng.random() < .25: o["additionalProperties"] = False
    return o

def gen_schema(rng):
    ndefs = rng.randint(6, 30)
    names = ["D" + n.replace("-", "_").title().replace("_", "") + str(i) for i, n in enumerate(rng.sample(NAMES, ndefs))]
    rng.shuffle(names)
    defs = {}
    objs = []
    for nm in names:
        r = rng.random()
        if r < .55: d = gen_object(rng, names, rng.randint(3, 40)); objs.append(nm)
        elif r < .70: d = {"type": "string", "enum": enum_values(rng, 3, 30)}
        elif r < .82:
            d = {"oneOf": [{"type": "object", "properties": {"tag": {"type": "string", "enum": [t]}, "v": gen_leaf(rng, names)},
                            "required": ["tag"]} for t in enum_values(rng, 2, 8)]}
        elif r < .90: d = {"anyOf": [gen_leaf(rng, names) for _ in range(rng.randint(2, 4))]}
        elif r < .95 and objs:
            # allOf only over plain object definitions made earlier (a self-referential allOf recurses without end in typify)
            d = {"allOf": [{"$ref": "#/definitions/" + rng.choice(objs)}, gen_object(rng, [], rng.randint(1, 6))]}
        elif r < .95: d = gen_object(rng, names, rng.randint(1, 6))
        else:
            d = {"type": "string", "x-rust-type": {"crate": rng.choice(["orig", "other-crate"]), "version": "1.2.3",
                                                   "path": rng.choice(["orig", "other_crate"]) + "::mod_a::T" + nm}}
        if rng.random() < .2: d["description"] = "definition " + nm
        defs[nm] = d
    root = gen_object(rng, names, rng.randint(2, 15))
    root["title"] = "Root" + str(rng.randint(0, 99))
    root["$schema"] = "http://json-schema.org/draft-07/schema#"
    root["definitions"] = defs
    return root

DERIVES = ["::schemars::JsonSchema", "PartialEq", "Eq", "Hash", "PartialOrd", "Ord", "my_crate::Derive"]

def gen_settings(rng, value, k):
    """settings number k for a document (0 = defaults)"""
    if k == 0: return {}
    defs = list((value.get("definitions") or value.get("$defs") or {}).keys()) if isinstance(value, dict) else []
    s = {"struct_builder": rng.random() < .6,
         "derives": rng.sample(DERIVES, rng.randint(0, 4))}
    if rng.random() < .6: s["map_type"] = rng.choice(["::std::collections::BTreeMap", "::indexmap::IndexMap", "::std::collections::HashMap"])
    if rng.random() < .3: s["type_mod"] = "types"
    if defs:
        ident = lambda d: re.sub(r"[^A-Za-z0-9]", "", d[:1].upper() + d[1:])
        s["patch"] = {ident(d): {"rename": ident(d) + "Renamed" if rng.random() < .5 else None,
                                 "derives": rng.sample(DERIVES, rng.randint(0, 3))}
                      for d in rng.sample(defs, min(len(defs), rng.randint(1, 6)))}
        for p in s["patch"].values():
            if p["rename"] is None: del p["rename"]
        s["replace"] = {ident(d): {"type": rng.choice(["String", "::std::primitive::u32", "my_crate::Thing"]),
                                   "impls": rng.sample(["FromStr", "Display", "Default"], rng.randint(0, 3))}
                        for d in rng.sample(defs, min(len(defs), rng.randint(0, 3)))}
    s["convert"] = [{"schema": {"type": "string", "format": "foo"}, "type": "my_crate::Foo",
                     "impls": rng.sample(["FromStr", "Display", "Default"], rng.randint(0, 3))}]
    s["crates"] = {"orig": {"version": rng.choice(["1.2.3", "*", "!"]), "rename": rng.choice([None, "renamed-orig"])},
                   "other-crate": {"version": "1.2.3"}}
    if s["crates"]["orig"]["rename"] is None: del s["crates"]["orig"]["rename"]
    s["unknown_crates"] = rng.choice(["Generate", "Allow", "Deny"])
    return s

# ------------------------------------------------------------------ crafted texts for the parser tie
class Pairs(list):
    """an object written as its member list (order and duplicates as given)"""

KEY_ALPHABET = ["a", "b", "A", "ab", "a ", "", "é", "é", "z", "Z", "10", "9", "￿", "\U0001F600", "\u0001", "a\tb",
                "\"q\"", "back\\slash", "ключ", "键", "~", "\u007f", "\u0080"]

def dump_pairs(v, rng, esc):
    if isinstance(v, Pairs):
        sp = rng.choice(["", " ", "\n  "])
        return "{" + ",".join(sp + json.dumps(k, ensure_ascii=esc) + rng.choice([":", ": ", " :"]) + dump_pairs(x, rng, esc)
                              for k, x in v) + "}"
    if isinstance(v, list):
        return "[" + rng.choice([",", ", "]).join(dump_pairs(x, rng, esc) for x in v) + "]"
    return json.dumps(v, ensure_ascii=esc)

def gen_pairs(rng, depth, dups):
    r = rng.random()
    if depth <= 0 or r < .3:
        return rng.choice([None, True, False, 0, 1, -1, 17, 2**53, -2**63, 2**64 - 1, "s", "é\n\"", "", "\U0001F600"])
    if r < .45:
        return [gen_pairs(rng, depth - 1, dups) for _ in range(rng.randint(0, 4))]
    n = rng.randint(0, 7)
    keys = rng.sample(KEY_ALPHABET, min(n, len(KEY_ALPHABET)))
    if dups and keys and rng.random() < .6:
        keys += [rng.choice(keys) for _ in range(rng.randint(1, 3))]
        rng.shuffle(keys)
    return Pairs((k, gen_pairs(rng, depth - 1, dups)) for k in keys)

def permute_pairs(v, rng):
    if isinstance(v, Pairs):
        items = [(k, permute_pairs(x, rng)) for k, x in v]; rng.shuffle(items); return Pairs(items)
    if isinstance(v, list): return [permute_pairs(x, rng) for x in v]
    return v

def has_dup(v):
    if isinstance(v, Pairs):
        ks = [k for k, _ in v]
        return len(set(ks)) != len(ks) or any(has_dup(x) for _, x in v)
    if isinstance(v, list): return any(has_dup(x) for x in v)
    return False

def py_canon(v):
    """independent reading: last duplicate wins, members by code point, compact serde_json spelling"""
    if isinstance(v, Pairs):
        d = {}
        for k, x in v: d[k] = x
        return "{" + ",".join(json.dumps(k, ensure_ascii=False) + ":" + py_canon(d[k]) for k in sorted(d)) + "}"
    if isinstance(v, list): return "[" + ",".join(py_canon(x) for x in v) + "]"
    return json.dumps(v, ensure_ascii=False)

# ------------------------------------------------------------------ running
TVH_RUN = None

def repo_state():
    rc, out, _ = vlib.sh("git -C %s rev-parse HEAD; git -C %s status --porcelain | md5sum" % (vlib.REPO, vlib.REPO))
    return out.strip().replace("\n", " ")

def run_procs(lines, n, tag):
    """the same request file through n fresh tvh_c12 processes (each gets fresh RandomState seeds)"""
    path = os.path.join(vlib.CACHE, "in_c12_%s.txt" % tag)
    with open(path, "w") as f:
        f.write("\n".join(lines) + "\n")
    def one(_):
        with open(path) as fin:
            p = subprocess.run([TVH_RUN or vlib.tvh("c12")], stdin=fin, capture_output=True, text=True, env=vlib.ENV)
        if p.returncode != 0:
            raise RuntimeError("tvh_c12 failed: " + p.stderr[-1000:])
        out = p.stdout.split("\n")
        if out and out[-1] == "": out.pop()
        if len(out) != len(lines):
            raise RuntimeError("tvh_c12: %d answers for %d requests" % (len(out), len(lines)))
        return out
    with ThreadPoolExecutor(max_workers=min(n, max(2, (os.cpu_count() or 4) // 2))) as ex:
        return list(ex.map(one, range(n)))

def bad_sites():
    """rows of the regenerated T5 table whose consumers are not all order-free"""
    out = []
    if not os.path.exists(HASHSITES): return ["Generated/HashSites.lean missing"]
    for line in open(HASHSITES, encoding="utf-8"):
        m = re.match(r'\s*⟨"([^"]*)", "([^"]*)", "([^"]*)", "([^"]*)", \[([^\]]*)\], "(.*)"⟩', line)
        if m and (".iterate" in m.group(5).split(", ") or ".unknown" in m.group(5).split(", ") or not m.group(5).strip()):
            out.append("%s %s `%s` consumers=[%s] %s" % (m.group(1), m.group(2), m.group(3), m.group(5), m.group(6)))
    return out

def all_sites():
    out = []
    if not os.path.exists(HASHSITES): return out
    for line in open(HASHSITES, encoding="utf-8"):
        m = re.match(r'\s*⟨"([^"]*)", "([^"]*)", "([^"]*)", "([^"]*)", \[([^\]]*)\], "(.*)"⟩', line)
        if m: out.append({"where": m.group(1), "fn": m.group(2), "binding": m.group(3), "origin": m.group(4),
                          "consumers": m.group(5)})
    return out

# ------------------------------------------------------------------ macro front end
MACRO_SCHEMA_CRATES = {"$defs": {
    "Holder": {"type": "object", "properties": {"p": {"$ref": "#/$defs/P"}, "q": {"$ref": "#/$defs/Q"}}},
    "P": {"type": "string", "x-rust-type": {"crate": "orig", "version": "1.0.0", "path": "orig::path::P"}},
    "Q": {"type": "string", "x-rust-type": {"crate": "other", "version": "1.0.0", "path": "other::Q"}}}}
MACRO_SCHEMA_CONVERT = {"$defs": {
    "E": {"oneOf": [{"type": "string", "format": "fa"}, {"type": "string", "format": "fb"}, {"type": "string", "format": "fc"}]}}}

def macro_sources(ctx):
    """lib.rs of the expansion crate: one module per import_types! invocation"""
    rng = random.Random(ctx.seed)
    many = {"$defs": {"T%02d" % i: {"type": "object", "properties": {n: {"type": "string"} for n in rng.sample(NAMES[:20], 4)}}
                      for i in range(16)}}
    files = {"crates.json": MACRO_SCHEMA_CRATES, "convert.json": MACRO_SCHEMA_CONVERT, "many.json": many}
    patch = ", ".join('T%02d = { rename = "R%02d", derives = [Hash, Eq] }' % (i, i) for i in range(0, 16, 2))
    replace = ", ".join("T%02d = String: ?Display + Default" % i for i in range(1, 16, 4))
    lib = """#![allow(unused)]
mod m_crates { typify::import_types!(schema = "crates.json",
    crates = { aaa = "orig@1.0.0", bbb = "orig@1.0.0", ccc = "orig@1.0.0", ddd = "orig@1.0.0", eee = "other@*", other = "1.0.0" }); }
mod m_convert { typify::import_types!(schema = "convert.json", convert = {
    { type = "string", format = "fa" } = foo::Foo: Default,
    { type = "string", format = "fb" } = foo::Foo: Default,
    { type = "string", format = "fc" } = foo::Foo: Default + ?Display,
}); }
mod m_many { typify::import_types!(schema = "many.json", struct_builder = true,
    derives = [PartialEq, Hash, schemars::JsonSchema, Eq],
    patch = { %s }, replace = { %s }); }
""" % (patch, replace)
    return files, lib

def macro_stage(ctx, runs):
    """expand import_types! in `runs` fresh rustc processes; returns (status, outputs-digest list, detail)"""
    files, lib = macro_sources(ctx)
    os.makedirs(os.path.join(MACRO_DIR, "src"), exist_ok=True)
    def put(rel, text):
        p = os.path.join(MACRO_DIR, rel)
        if not os.path.exists(p) or open(p).read() != text:
            open(p, "w").write(text)
    put("Cargo.toml", '[package]\nname = "c12macro"\nversion = "0.1.0"\nedition = "2021"\n\n[workspace]\n\n[dependencies]\n'
        'typify = { path = "%s/typify" }\nserde = { version = "1.0.219", features = ["derive"] }\nserde_json = "1.0.140"\n' % vlib.REPO)
    shutil.copy(os.path.join(vlib.REPO, "Cargo.lock"), os.path.join(MACRO_DIR, "Cargo.lock"))
    shutil.copy(os.path.join(vlib.REPO, "rust-toolchain.toml"), os.path.join(MACRO_DIR, "rust-toolchain.toml"))
    for n, v in files.items(): put(n, json.dumps(v, indent=1))
    put("src/lib.rs", lib)
    env = dict(vlib.ENV, RUSTC_BOOTSTRAP="1")
    outs = []
    for i in range(runs):
        os.utime(os.path.join(MACRO_DIR, "src/lib.rs"))
        rc, out, err = vlib.sh(["cargo", "rustc", "--offline", "--lib", "--", "-Zunpretty=expanded"], cwd=MACRO_DIR, env=env, timeout=900)
        if "pub mod builder" not in out and "pub struct" not in out:
            return "unavailable", outs, (err or out)[-1500:]
        outs.append(out)
    return "ok", outs, ""

def first_diff(a, b):
    la, lb = a.split("\n"), b.split("\n")
    for i, (x, y) in enumerate(zip(la, lb)):
        if x != y: return {"line": i + 1, "a": x[:300], "b": y[:300]}
    return {"line": min(len(la), len(lb)) + 1, "a": "<end>" if len(la) <= len(lb) else la[len(lb)][:300],
            "b": "<end>" if len(lb) <= len(la) else lb[len(la)][:300]}

# ------------------------------------------------------------------ the check
def run(ctx):
    st = vlib.proof_stage(ctx, "C12", PROOF_TARGETS, PROOF_FILES, slices=["c12"])
    broken = list(st["broken"])
    offending = bad_sites()
    if offending and not any("proof obligation" in b or "lake build" in b for b in broken):
        broken.append("T5 lists order-dependent or unclassified hash-collection sites")
    search = bool(broken)
    B = dict(BUDGET["thorough" if search else ctx.tier])
    if search:
        # thorough process/permutation/settings budget on all fixtures; generated documents as in the tier
        B["gen_docs"] = BUDGET[ctx.tier]["gen_docs"]; B["crafted"] = BUDGET[ctx.tier]["crafted"]
        ctx.log("obligation broken -> failing-input search with the thorough budget:", broken[:3])
    # one build for the whole run: other checks may rebuild the harness while this one is running
    global TVH_RUN
    TVH_RUN = os.path.join(vlib.CACHE, "tvh_c12.run-%d" % os.getpid())
    shutil.copy2(vlib.tvh("c12"), TVH_RUN)
    head0 = repo_state()
    rng = ctx.rng

    # ---- documents, variants, settings
    docs = [{"id": rel, "text": text, "fixture": True} for rel, text in fixtures()]
    import corpus
    crashing = []
    for cid, cdoc, _ in corpus.documents():
        # a document that kills the process (stack overflow: known finding C01-allof-self-ref-overflow) cannot share a
        # request file with the others; it is tried alone first and left out when the process dies
        text = json.dumps(cdoc, indent=1)
        pr = subprocess.run([TVH_RUN], input=json.dumps({"kind": "gen", "schema": text, "settings": {}}) + "\n", capture_output=True, text=True)
        if pr.returncode != 0: crashing.append(cid); continue
        docs.append({"id": "corpus:" + cid, "text": text, "fixture": False})
    if crashing: ctx.notes.append("corpus documents left out because the process dies on them (C01's subject): %s" % crashing)
    for i in range(B["gen_docs"]):
        docs.append({"id": "gen-%d" % i, "text": json.dumps(gen_schema(rng), indent=1), "fixture": False})
    cases = []       # (doc index, settings index, variant index, request line)
    groups = {}      # (doc, settings) -> [case indices]
    permuted = {}    # doc index -> number of variants whose text orders members differently
    for di, d in enumerate(docs):
        try:
            value = json.loads(d["text"])
        except Exception:
            value = None
        nperm = B["perms"] if len(d["text"]) < 100000 else B["big_perms"]
        texts = [d["text"]]
        if value is not None:
            for k in range(nperm):
                texts.append(variant(value, rng, k))
        d["variants"] = texts
        canon0 = json.dumps(value, separators=(",", ":")) if value is not None else None
        permuted[di] = sum(1 for t in texts[1:] if json.dumps(json.loads(t), separators=(",", ":")) != canon0)
        nset = B["settings"] if len(d["text"]) < 100000 else min(2, B["settings"])
        for si in range(nset):
            settings = gen_settings(rng, value, si)
            for vi, t in enumerate(texts):
                line = json.dumps({"kind": "gen", "schema": t, "settings": settings})
                groups.setdefault((di, si), []).append(len(cases))
                cases.append((di, si, vi, line, settings))
            # the same request once more in the same process: a new TypeSpace gets new hash seeds
            groups[(di, si)].append(len(cases))
            cases.append((di, si, 0, cases[groups[(di, si)][0]][3], settings))
    lines = [c[3] for c in cases]
    t1 = time.time()
    outs = run_procs(lines, B["procs"], "gen")
    ctx.log("gen: %d requests x %d processes in %.1fs" % (len(lines), B["procs"], time.time() - t1))

    viol = []   # (kind, detail dict)
    # (a) across processes
    for i in range(len(lines)):
        answers = [o[i] for o in outs]
        if len(set(answers)) > 1:
            di, si, vi, line, settings = cases[i]
            viol.append(("process", {"doc": docs[di]["id"], "settings": settings, "requests": [line],
                                     "answers_by_process": answers}))
    # (b) two to_stream() calls on one space
    for i, a in enumerate(outs[0]):
        p = a.split(" ")
        if p[0] == "ok" and p[1] != p[2]:
            di, si, vi, line, settings = cases[i]
            viol.append(("render-twice", {"doc": docs[di]["id"], "settings": settings, "requests": [line], "answer": a}))
        if p[0] == "ok" and len(p) > 4 and p[4] != p[1]:
            # (b') the code for the document after a later call that defines nothing (add_type of the schema `true`)
            di, si, vi, line, settings = cases[i]
            viol.append(("later-call", {"doc": docs[di]["id"], "settings": settings, "requests": [line], "answer": a}))
    # (c) across key-order / whitespace variants (and the in-process repetition)
    ok_groups = nontrivial = 0
    answer_kinds = {}
    for (di, si), idxs in groups.items():
        a0 = outs[0][idxs[0]]
        answer_kinds[a0.split(" ")[0]] = answer_kinds.get(a0.split(" ")[0], 0) + 1
        if a0.startswith("ok"):
            ok_groups += 1
            if permuted[di] > 0: nontrivial += 1
        for j in idxs[1:]:
            if outs[0][j] != a0:
                viol.append(("permutation", {"doc": docs[di]["id"], "settings": cases[j][4],
                                             "requests": [cases[idxs[0]][3], cases[j][3]],
                                             "answers": [a0, outs[0][j]]}))
                break
    fixtures_total = sum(1 for d in docs if d["fixture"])
    fixtures_not_ingested = sorted(docs[di]["id"] for (di, si) in groups if si == 0 and docs[di]["fixture"]
                                   and not outs[0][groups[(di, si)][0]].startswith("ok"))

    # ---- parser tie: real serde_json parse vs Determinism.canon
    ptexts = []     # (text, group id or None, python expectation or None)
    for di, d in enumerate(docs):
        vs = d["variants"] if len(d["text"]) < 100000 else d["variants"][:2]
        for t in vs: ptexts.append((t, "doc-%d" % di, None))
    fixed = ['{"a":1,"a":2}', '{"a":2,"a":1}', '{"b":{"x":1,"x":{"y":1,"y":2}},"a":[{"k":1,"k":2}],"b":3}',
             '{"\\u00e9":1,"é":2,"e\\u0301":3}', '{"\\ud83d\\ude00":1,"\\uffff":2,"z":3}', '{"":1," ":2}', '{"10":1,"9":2,"1":3}',
             '{"a":{"b":{"c":{"d":{"e":{"f":{"z":1,"y":2,"x":3}}}}}}}', '[]', '{}', '[{"b":[],"a":{}}]', ' \n{ "k" : [ 1 , 2 ] }\t',
             '{"n":-9223372036854775808,"m":18446744073709551615}', '"just a string"', '{"a\\tb":"\\u0001\\u001f\\b\\f\\n\\r\\/"}']
    for t in fixed: ptexts.append((t, None, None))
    for i in range(B["crafted"]):
        dups = i % 3 == 0
        v = gen_pairs(rng, 4, dups)
        esc = rng.random() < .5
        ptexts.append((dump_pairs(v, rng, esc), None if has_dup(v) else "craft-%d" % i, py_canon(v)))
        ptexts.append((dump_pairs(permute_pairs(v, rng), rng, not esc), None if has_dup(v) else "craft-%d" % i,
                       None if has_dup(v) else py_canon(v)))
    plines = [json.dumps({"kind": "parse", "text": t}) for t, _, _ in ptexts]
    pimpl = run_procs(plines, 1, "parse_impl")[0]
    pmodel = vlib.run_side("model", "c12", plines, "parse_model") if st["driver_ok"] else None
    disagreements = []; unsupported = 0; py_mismatch = []
    if pmodel is not None:
        if len(pmodel) != len(plines) or len(pimpl) != len(plines):
            raise RuntimeError("parse tie: line count mismatch")
        for (t, g, exp), a, b in zip(ptexts, pimpl, pmodel):
            if b == "unsupported": unsupported += 1; continue
            if a != b: disagreements.append({"text": t[:2000], "impl": a[:2000], "model": b[:2000]})
    pgroups = {}
    for (t, g, exp), a in zip(ptexts, pimpl):
        if exp is not None and a != exp: py_mismatch.append({"text": t[:2000], "impl": a[:2000], "expected": exp[:2000]})
        if g is None: continue
        if g in pgroups and pgroups[g][1] != a:
            viol.append(("parse-permutation", {"doc": g, "requests": [json.dumps({"kind": "parse", "text": pgroups[g][0]}),
                                                                       json.dumps({"kind": "parse", "text": t})],
                                               "answers": [pgroups[g][1][:2000], a[:2000]]}))
        pgroups.setdefault(g, (t, a))
    if disagreements:
        broken.append("correspondence c12 (serde_json parse vs Determinism.canon): %d disagreements" % len(disagreements))
    if py_mismatch:
        broken.append("real parser differs from 'last duplicate wins, members by code point' on %d crafted documents" % len(py_mismatch))
    ctx.log("parse tie: %d texts, %d disagreements, %d out of model domain" % (len(plines), len(disagreements), unsupported))

    # ---- macro front end
    t2 = time.time()
    mstatus, mouts, mdetail = macro_stage(ctx, B["macro_runs"])
    macro_distinct = len(set(mouts))
    ctx.log("macro: %s, %d expansions, %d distinct outputs in %.1fs" % (mstatus, len(mouts), macro_distinct, time.time() - t2))
    if mstatus != "ok":
        ctx.notes.append("macro expansion stage unavailable: " + mdetail[-300:])
    elif macro_distinct > 1:
        other = next(o for o in mouts if o != mouts[0])
        files, lib = macro_sources(ctx)
        viol.append(("macro", {"doc": "import_types! expansion", "macro_lib_rs": lib, "macro_schema_files": files,
                               "first_difference": first_diff(mouts[0], other), "runs": len(mouts),
                               "distinct_outputs": macro_distinct}))

    # ---- report
    head1 = repo_state()
    if head1 != head0:
        ctx.notes.append("/repo changed while the check was running (%s -> %s): differences between runs may come from that" % (head0, head1))
        ctx.log("WARNING: /repo changed during the run")
    try: os.remove(TVH_RUN)
    except OSError: pass
    seen = set()
    for kind, det in viol:
        key = (kind, det.get("doc"))
        if key in seen or len(ctx.violations) >= 5: continue
        seen.add(key)
        det.update({"property": "C12", "kind": "implementation violates the property: " + kind,
                    "processes": B["procs"], "broken_obligations": broken, "offending_hash_sites": offending,
                    "replay": "./check C12 --replay <this file>"})
        vlib.violation(ctx, det)
    if broken and not viol:
        vlib.violation(ctx, {"property": "C12", "kind": "property no longer shown to hold",
                             "broken_obligations": broken,
                             "theorem": "TypifyModel.C12.hash_sites_ok" if offending else None,
                             "offending_hash_sites": offending,
                             "first_disagreements": disagreements[:3], "python_expectation_mismatch": py_mismatch[:3],
                             "searched": {"requests": len(lines), "processes": B["procs"], "macro_expansions": len(mouts),
                                          "parse_texts": len(plines)},
                             "lean_log": st.get("log", "")}, no_input=True)

    samples = []
    for di in (0, len(docs) // 2, len(docs) - 1):
        d = docs[di]
        samples.append({"doc": d["id"], "variant_1_head": d["variants"][min(1, len(d["variants"]) - 1)][:300],
                        "settings_1": cases[groups[(di, min(1, B["settings"] - 1))][0]][4],
                        "answer": outs[0][groups[(di, 0)][0]]})
    cov = {
        "obligations": st["obligations"], "discharged": st["discharged"],
        "checker_cmd": "cd /verif/lean && lake build TypifyModel.Proofs.C12 && lake env lean TypifyModel/Audit/C12.lean",
        "trusted_base": vlib.TRUSTED_BASE + [
            "the translator's T5 analysis (harness/src/t5_hash_sites.rs): that it finds every HashMap/HashSet value of the non-test source and names its consumers correctly",
            "std's HashMap/HashSet behave as collections whose only run-dependent aspect is iteration order (RandomState itself is not modelled)"],
        "axioms": st.get("axioms", {}),
        "theorems": ["C12." + t for t in THEOREMS],
        "evaluations": len(lines) * B["procs"] + len(plines) + len(mouts),
        "distinct_nontrivial": nontrivial,
        "rule": "documents: every fixture under typify/tests/schemas and typify-impl/tests plus generated schemas with 6-30 definitions, 3-40 properties, enums, oneOf/anyOf/allOf, x-rust-type; per document the original text and key-shuffled/re-spaced variants; per document several settings (defaults; builder/derives/map type/patch/replace/convert/crates); every request also repeated inside the process; the whole request file run in N fresh processes. A (document, settings) group counts as non-trivial when it ingests (answer ok) and at least one variant orders object members differently from the original. The parser tie additionally uses crafted texts with duplicate and unicode keys.",
        "samples": samples,
        "processes": B["procs"], "requests_per_process": len(lines),
        "documents": len(docs), "fixtures": fixtures_total, "fixtures_not_ingested": fixtures_not_ingested,
        "groups_ok": ok_groups, "answer_kinds": answer_kinds,
        "traces_validated_against_impl": len(plines) - unsupported,
        "parse_texts": len(plines), "parse_out_of_model_domain": unsupported, "model_disagreements": len(disagreements),
        "macro_stage": mstatus, "macro_expansions": len(mouts), "macro_distinct_outputs": macro_distinct,
        "hash_sites": all_sites(), "offending_hash_sites": offending,
        "impl_oracle_failures": len(viol), "tables_regenerated": st["tables_ok"],
        "budget": "thorough (search after a broken obligation)" if search and ctx.tier == "quick" else ctx.tier,
        "repo_state": head0,
    }
    vlib.write_evidence(ctx, "proof", cov, [
        "proved: permutation invariance of BTreeMap construction (parsing), of every consumer kind in T5, and that T5 as regenerated from the current source contains only those kinds; NOT proved: process-level determinism itself, which is exercised by repeated fresh processes",
        "duplicate keys inside one JSON object are outside parse_perm (last occurrence wins; order then matters, parse_dup_order_matters)",
        "distinct identifiers print as distinct token strings (injectivity hypothesis of keyed_insert_perm for the macro's patch/replace maps)",
        "serde_json::Map and schemars::Map are BTreeMap: no preserve_order in any manifest or in Cargo.lock (Generated.preserveOrder, re-extracted every run)",
    ])

def replay(ctx, path):
    obj = json.load(open(path))
    if "macro_lib_rs" in obj:
        status, outs, detail = macro_stage(ctx, max(3, int(obj.get("runs", 3))))
        print("macro expansions:", len(outs), "distinct:", len(set(outs)), status, detail[-200:])
        if len(set(outs)) > 1:
            print("first difference:", first_diff(outs[0], next(o for o in outs if o != outs[0])))
            return 1
        return 0
    if "requests" not in obj:
        print("replay file names broken obligations only:", obj.get("broken_obligations"))
        print("offending sites:", obj.get("offending_hash_sites"))
        return 1
    n = max(int(obj.get("processes", 3)), 3)
    outs = run_procs(obj["requests"], n, "replay")
    bad = False
    for i in range(len(obj["requests"])):
        answers = [o[i] for o in outs]
        print("request %d: %s" % (i, sorted(set(a[:200] for a in answers))))
        if len(set(answers)) > 1: bad = True
        p = answers[0].split(" ")
        if p[0] == "ok" and p[1] != p[2]: bad = True
        if p[0] == "ok" and len(p) > 4 and p[4] != p[1]: bad = True
    if len(set(o[i] for o in outs for i in range(len(obj["requests"])))) > 1: bad = True
    print("differs" if bad else "identical")
    return 1 if bad else 0

"""C17 — the introspection API describes the code that is generated.
Theorems: lean/TypifyModel/Proofs/C17.lean (api_props_eq_fields, api_variants_eq, api_inner_eq, builder_iff,
has_impl_sound_partial) relating Model/Api.lean to Model/Render.lean; refutations in C17Findings.lean.
Correspondence: API model vs real iter_types() answers (tvh_ir `types`); Render model vs tvh_m2 (M2).
Implementation oracle: real API answers vs real syn summary + compiled has_impl bound assertions + uses_* scan."""
import json, re
import vlib, m2

PROOF_TARGETS = ["TypifyModel.Proofs.C17"]
PROOF_FILES = ["Proofs/C17.lean", "Proofs/Lemmas/RenderLemmas.lean"]
FINDINGS_TARGET = "TypifyModel.Proofs.C17Findings"
ns = m2.norm

def cases(ctx):
    import gen
    out = []
    sts = [{}, {"struct_builder": True}, {"struct_builder": True, "type_mod": "types"}]
    for name, doc in gen.fixture_docs():
        if name.startswith("github") and ctx.tier != "thorough": continue
        for st in (sts if ctx.tier == "thorough" else [sts[0], sts[1 + len(name) % 2]]):      # the third: a configured module (`type_mod`)
            out.append(("fixture:" + name, {"settings": st, "calls": [{"root": doc}]}))
    # one external-crate construct per document, so that a `uses_` flag that is not set cannot be masked by another
    # construct of the same document setting it (every string format of the regenerated table T2 included)
    singles = {"pattern": {"type": "string", "pattern": "^[a-z]+$"}, "pattern_len": {"type": "string", "pattern": "^x-", "maxLength": 9},
               "fmt_pattern": {"type": "string", "format": "hostname", "pattern": "^[a-z]+$"}, "fmt_len": {"type": "string", "format": "email", "maxLength": 64},
               "key_pattern": {"type": "object", "additionalProperties": {"type": "integer"}, "propertyNames": {"pattern": "^[a-z]+$"}},
               "pat_props": {"type": "object", "patternProperties": {"^x-": {"type": "string"}}, "additionalProperties": False},
               "any": {}, "any_map": {"type": "object", "additionalProperties": True}, "any_vec": {"type": "array", "items": {}},
               "enum_typed": {"type": "integer", "enum": [1, 2, 3]}, "deny": {"type": "string", "not": {"enum": ["x"]}},
               "default_obj": {"type": "object", "properties": {"m": {"type": "object", "additionalProperties": {"type": "string"}, "default": {"a": "b"}}}},
               "default_any": {"type": "object", "properties": {"v": {"default": {"k": [1, None]}}}}}
    for f, _, _ in vlib.string_formats_table()[0]:
        singles["format_" + f] = {"type": "string", "format": f}
        singles["format_opt_" + f] = {"type": "object", "properties": {"o": {"type": ["string", "null"], "format": f}}}
    for nm, sch in sorted(singles.items()):
        out.append(("single:" + nm, {"settings": sts[len(nm) % 2], "calls": [{"root": {"definitions": {"Only": sch}}}]}))
    # the constructs that render a map or a default, again under a configured map type that is none of the three typify knows:
    # whatever the output then names must still be reported by the `uses_` flags
    for nm in ("default_obj", "default_any", "any_map", "key_pattern", "pat_props"):
        out.append(("single-maptype:" + nm, {"settings": {"map_type": "::my_maps::SortedMap"}, "calls": [{"root": {"definitions": {"Only": singles[nm]}}}]}))
    # a definition replaced by an existing type that has SOME of the string conversions (std's PathBuf: FromStr, no Display;
    # IpAddr: both; with and without declaring them), used as a variant of an untagged enum and as a newtype's inner type: what
    # the enum / newtype then claims must be what its emitted impls can deliver (the compiled stage type-checks them)
    rdoc = {"definitions": {"Token": {"type": "string"}, "Either": {"oneOf": [{"$ref": "#/definitions/Token"}, {"type": "integer"}]},
                            "Wrapped": {"type": "object", "properties": {"t": {"$ref": "#/definitions/Token"}, "e": {"$ref": "#/definitions/Either"}}}}}
    for path, imps in (("::std::path::PathBuf", ["FromStr"]), ("::std::path::PathBuf", []), ("::std::net::IpAddr", ["FromStr", "Display"]),
                       ("::std::net::IpAddr", ["Display"]), ("::std::net::IpAddr", ["FromStr"])):
        out.append(("replaced:%s:%s" % (path.split("::")[-1], "+".join(imps) or "none"),
                    {"settings": {"replace": [{"name": "Token", "replace": path, "impls": imps}]}, "calls": [{"root": rdoc}]}))
    import corpus
    for cid, cdoc, _ in corpus.documents():
        if cid.startswith(("hand:", "file:")): out.append(("corpus:" + cid, {"settings": sts[len(cid) % 3], "calls": [{"root": cdoc}]}))
    n = 300 if ctx.tier == "thorough" else 50
    for k in range(n):
        feats = set(gen.FEATURE_SETS["defaults" if k % 3 == 0 else "default"]) | ({"string_formats"} if k % 5 == 0 else set())
        out.append(("gen:%d" % k, {"settings": sts[k % 3], "calls": [{"root": gen.gen_universe(ctx.rng, 3 + k % 7, feats)}]}))
    return out

def model_api(pairs):
    lines = []
    for k, (dump, st) in enumerate(pairs):
        lines.append("ir c%d %s" % (k, json.dumps({"dump": dump, "settings": st})))
        lines.append("api c%d" % k)
    out = m2.run_bin(vlib.drv("ir"), lines)
    return [json.loads(out[2 * k + 1]) if out[2 * k] == "ok" else None for k in range(len(pairs))]

def api_diff(real_types, model_types):
    """API model vs real iter_types()"""
    d = []
    R = {t["id"]: t for t in real_types}; M = {t["id"]: t for t in model_types}
    for i in sorted(set(R) | set(M)):
        if i not in R or i not in M: d.append((i, "presence", i in R, i in M)); continue
        r, m = R[i], M[i]
        if ns(r["name"]) != ns(m["name"]): d.append((i, "name", r["name"], m["name"]))
        if r["has_impl"] != m["has_impl"]: d.append((i, "has_impl", r["has_impl"], m["has_impl"]))
        rb = ns(r.get("builder")) if r.get("builder") else None
        if (rb is None) != (m["builder"] is None) or (rb and not rb.endswith("builder::" + m["builder"])):
            d.append((i, "builder", r.get("builder"), m["builder"]))
        if r["kind"] == "struct":
            rp = [(p["name"], p["required"], p["type_id"]) for p in r["props"]]
            mp = [(p["name"], p["required"], p["type_id"]) for p in m.get("props", [])]
            if rp != mp: d.append((i, "props", rp, mp))
        if r["kind"] == "enum":
            rv = [(v["name"], v["kind"]) for v in r["variants"]]
            mv = [(v["name"], v["kind"]) for v in m.get("variants", [])]
            if rv != mv: d.append((i, "variants", rv, mv))
        if r["kind"] == "newtype" and r["inner"]["type_id"] != m.get("inner", {}).get("type_id"):
            d.append((i, "inner", r["inner"], m.get("inner")))
        if not m.get("recorded_impls_agree", True): d.append((i, "recorded_impls", None, None))
    return d

CRATES = {"chrono": "::chrono::", "uuid": "::uuid::", "serde_json": "::serde_json::", "regress": "regress::"}

def oracle_case(real_types, summary, code, uses, type_mod):
    """the property on the real code: API answers vs parsed output"""
    f = []
    items = {it["name"]: it for it in summary["items"]}
    # under `type_mod` the API qualifies the identifiers of generated types with the module (`types::Foo`); inside the module
    # the same type is written `Foo`
    unq = (lambda s_: s_.replace(type_mod + "::", "")) if type_mod else (lambda s_: s_)
    # two generated items of ONE name (the name-collision findings of C01 / C08 / C16): "the item the reported name resolves to"
    # is not defined for that name, so it is not judged here
    dup_names = {it["name"] for it in summary["items"] if sum(1 for o in summary["items"] if o["name"] == it["name"]) > 1}
    if type_mod:
        # every generated type a reported identifier mentions is written through the configured module (`types::Foo`), whatever
        # it is nested in (a tuple, an Option, a Vec, the parameters of a map)
        import re as _re
        gen_names = sorted({it["name"] for it in summary["items"]}, key=len, reverse=True)
        bare = _re.compile(r"(?<![A-Za-z0-9_:])(?:" + "|".join(_re.escape(n) for n in gen_names) + r")(?![A-Za-z0-9_])") if gen_names else None
        for t in real_types:
            idents = [("ident", t.get("ident"))] + [("property " + p["name"], p.get("type_ident")) for p in t.get("props") or []] + \
                     ([("inner", t["inner"].get("type_ident"))] if isinstance(t.get("inner"), dict) else [])
            for what, idn in idents:
                if bare is not None and isinstance(idn, str) and bare.search(ns(idn)):
                    f.append((ns(t["name"]), "reported identifier names a generated type without the module %s" % type_mod, what, ns(idn))); break
    for t in real_types:
        if t["kind"] not in ("struct", "enum", "newtype"): continue
        nm = ns(t["name"])
        if nm in dup_names: continue
        it = items.get(nm)
        if it is None: f.append((nm, "reported name resolves to no generated item")); continue
        if t["kind"] == "struct":
            api = [(p["name"], unq(ns(p["type_ident"])), p["required"]) for p in t["props"]]
            gen_ = [(fl["name"], ns(fl["ty"]), not any(a == "default" or a.startswith("default=") for a in ns(fl["serde"]))) for fl in it["fields"]]
            if api != gen_: f.append((nm, "properties != fields", api[:4], gen_[:4]))
        if t["kind"] == "enum":
            kind = {"simple": "unit", "tuple": "tuple", "struct": "struct"}
            api = [(v["name"], kind[v["kind"]]) for v in t["variants"]]
            gen_ = [(v["name"], v["kind"]) for v in it["variants"]]
            if api != gen_: f.append((nm, "variants differ", api[:4], gen_[:4]))
        if t["kind"] == "newtype":
            if not it["fields"] or ns(it["fields"][0]["ty"]) != unq(ns(t["inner"]["type_ident"])):
                f.append((nm, "inner != field type"))
        has_b = nm in summary.get("builders", [])
        if bool(t.get("builder")) != (has_b and t["kind"] == "struct"):
            f.append((nm, "builder() Some iff builder type emitted", t.get("builder"), has_b))
    for crate, pat in CRATES.items():
        if pat in ns(code) and not uses.get(crate): f.append(("<uses>", "path of crate %s appears, uses_%s false" % (crate, crate)))
    return f

def _native_default(dump):
    """some member / named type with a schema default REACHES a native type (chrono, uuid, std::net, a replacement ..): the one
    place where the default expression of the unchanged tree goes through `::serde_json::from_str` (value.rs output_value)"""
    if not dump: return False
    import irutil
    es = irutil.entries(dump)
    def reaches_native(i):
        try: return any(es[j]["kind"] == "native" for j in irutil.reachable(dump, i) if j in es)
        except Exception: return False
    for i, e in es.items():
        props = list(e.get("props") or []) + [p for v in e.get("variants") or [] if isinstance(v.get("details"), dict) for p in v["details"].get("struct", [])]
        for p in props:
            if isinstance(p.get("state"), dict) and reaches_native(p["type_id"]): return True
        if e.get("default") is not None and reaches_native(i): return True
    return False

def attribute(fail, findings, dump=None):
    for fd in findings:
        # the finding is about serde_json paths that come from DEFAULT VALUE expressions only: a space that holds a
        # serde_json::Value (or Map) type must have the flag set by the conversion itself
        if fd["id"] == "C17-serde-json-default" and fail[0] == "<uses>" and "serde_json" in fail[1] and \
                not (dump and any(e.get("kind") == "json_value" for e in dump["entries"].values())) and _native_default(dump): return fd
    return None

def run(ctx):
    findings = vlib.load_findings("C17")
    st = vlib.proof_stage(ctx, "C17", PROOF_TARGETS, PROOF_FILES, slices=["ir"])
    fok, _ = vlib.lean_build(ctx, [FINDINGS_TARGET]) if st["proof_ok"] else (False, "")
    cs = cases(ctx)
    ans = m2.tvh_ir([c[1] for c in cs])
    ok = [i for i, a in enumerate(ans) if a.get("calls") and a["calls"][-1].startswith("ok") and a["render"] == "ok" and a["parses"]]
    real = m2.real_summaries([ans[i]["code"] for i in ok])
    pairs = [(ans[i]["dump"], cs[i][1]["settings"]) for i in ok]
    mapi = model_api(pairs) if st["driver_ok"] else [None] * len(ok)
    mren = m2.model_summaries(pairs) if st["driver_ok"] else [None] * len(ok)
    disagreements = []; new_fail = []; known_hit = {}; ntypes = 0
    for k, i in enumerate(ok):
        ntypes += len(ans[i]["types"])
        if mapi[k] is not None:
            d = api_diff(ans[i]["types"], mapi[k])
            d2 = m2.diff_case(real[k], mren[k]) if mren[k] else [("render", "model failed")]
            if d or d2: disagreements.append({"case": cs[i][0], "input": cs[i][1], "api_diffs": [list(map(str, x)) for x in d[:3]], "render_diffs": [list(map(str, x))[:4] for x in d2[:3]]})
        for fl in oracle_case(ans[i]["types"], real[k], ans[i]["code"], ans[i]["uses"], cs[i][1]["settings"].get("type_mod")):
            fd = attribute(fl, findings, ans[i]["dump"])
            if fd: known_hit[fd["id"]] = known_hit.get(fd["id"], 0) + 1
            else: new_fail.append((cs[i], fl))
    ctx.log("cases=%d ingested=%d types=%d disagreements=%d oracle_failures=%d known=%s" % (len(cs), len(ok), ntypes, len(disagreements), len(new_fail), known_hit))
    # compiled has_impl assertions: has_impl(X) true => `fn _<T: X>()` compiles
    compiled = 0; assert_fail = []
    try:
        from batch import Batch
        b = Batch(ctx, assertions=True, ops=())
        # every one-construct document (each string format of T2 among them), then the others while the budget lasts
        singles_ = [i for i in ok if cs[i][0].startswith(("single:", "replaced:"))]
        sel = singles_ + [i for i in ok if not cs[i][0].startswith(("single:", "replaced:"))][: (150 if ctx.tier == "thorough" else 30)]
        bc = []
        for i in sel:
            c = b.add_case(cs[i][1]["calls"], cs[i][1]["settings"], tag=cs[i][0]); c.request = cs[i][1]; bc.append(c)
        b.prepare(); b.build()
        for c in bc:
            if c.compiled: compiled += 1
            elif c.tag.startswith("replaced:") and not c.skipped:
                # the replaced type exists (std) and has exactly the conversions declared or more: an emitted impl that does not
                # type-check is a conversion the type space claims (has_impl) and the generated type does not have
                errs = [e for e in (c.rustc_errors or []) if any(w in (e.get("message") or "") for w in ("Display", "FromStr", "fmt", "from_str", "parse"))]
                if errs: assert_fail.append((c, {"bound": "emitted impl", "type": c.tag, "message": errs[0].get("message")}))
            for e in (c.assert_errors or []):
                if e.get("bound") in ("FromStr", "Display", "Default"):
                    fd = next((x for x in findings if x["id"] == "C17-display" and e["bound"] == "Display"
                               and is_constrained_string(c.dump, e.get("type"))), None)
                    if fd is None and e["bound"] == "Default" and "NonZero" in ns(str(e.get("type"))) and "Option" not in ns(str(e.get("type"))):
                        # has_impl(Default) is claimed for the NonZero integer types (and so for the tuples / arrays that hold one)
                        fd = next((x for x in findings if x["id"] == "C17-nonzero-default"), None)
                    if fd: known_hit[fd["id"]] = known_hit.get(fd["id"], 0) + 1
                    else: assert_fail.append((c, e))
    except Exception as ex:
        ctx.notes.append("batch pipeline unavailable for has_impl assertions: %r" % (ex,))
    # witnesses of known findings
    for fd in findings:
        if witness_fails(fd): vlib.known(ctx, fd)
        else: ctx.notes.append("known finding %s no longer reproduces on its witness" % fd["id"])
    if st["proof_ok"] and not fok:
        ctx.notes.append("Proofs/C17Findings.lean no longer compiles: a finding may have been repaired")
    broken = list(st["broken"])
    if disagreements: broken.append("correspondence (API / render models vs implementation) disagrees on %d cases" % len(disagreements))
    seen = set()
    for c, fl in new_fail:
        if fl[1] in seen or len(ctx.violations) >= 5: continue
        seen.add(fl[1])
        vlib.violation(ctx, {"property": "C17", "kind": "implementation violates the property", "input": c[1], "case": c[0],
                             "type": fl[0], "clause": fl[1], "detail": [str(x) for x in fl[2:]], "broken_obligations": broken})
    for c, e in assert_fail[:3]:
        vlib.violation(ctx, {"property": "C17", "kind": "has_impl true but the bound assertion does not compile", "input": c.request,
                             "case": c.tag, "type": e.get("type"), "bound": e.get("bound"), "rustc": e.get("message")})
    if broken and not new_fail and not assert_fail:
        vlib.violation(ctx, {"property": "C17", "kind": "property no longer shown to hold", "broken_obligations": broken,
                             "first_disagreements": disagreements[:3], "lean_log": st.get("log", "")}, no_input=True)
    cov = {"obligations": st["obligations"], "discharged": st["discharged"],
           "checker_cmd": "cd /verif/lean && lake build TypifyModel.Proofs.C17 && lake env lean TypifyModel/Audit/C17.lean",
           "trusted_base": vlib.TRUSTED_BASE + ["tvh_ir (real iter_types() answers), tvh_m2 (syn summary)", "rustc for the has_impl bound assertions"],
           "axioms": st.get("axioms", {}), "evaluations": ntypes, "distinct_nontrivial": ntypes,
           "rule": "every type yielded by iter_types() of every ingested case (fixtures x settings, generated universes); all non-trivial (each is a (case, type id) pair the property quantifies over)",
           "samples": [cs[i][0] for i in ok[:5]] + ([cs[ok[-1]][1]] if ok else []),
           "cases": len(cs), "cases_ingested": len(ok), "traces_validated_against_impl": len(ok) - len(disagreements),
           "model_disagreements": len(disagreements), "impl_oracle_failures_new": len(new_fail) + len(assert_fail),
           "impl_oracle_failures_known": known_hit, "compiled_cases_with_has_impl_assertions": compiled}
    vlib.write_evidence(ctx, "proof", cov, [
        "implements(T, X) is read off the emitted impl headers (Render model) and exercised by compiled bound assertions; rustc's trait resolution is not modelled",
        "uses_* completeness is checked on the real output text only (not yet modelled: default-value expressions)"])

def is_constrained_string(dump, tyname):
    import irutil
    e = irutil.named(dump).get(tyname)
    return bool(e and e[1]["kind"] == "newtype" and e[1]["constraints"] and "string" in e[1]["constraints"])

def witness_fails(fd):
    a = m2.tvh_ir([fd["witness"]])[0]
    if fd["id"] == "C17-display":
        t = next((t for t in a["types"] if ns(t["name"]) == fd["type"]), None)
        it = next((x for x in m2.real_summaries([a["code"]])[0]["items"] if x["name"] == fd["type"]), None)
        return bool(t and it and t["has_impl"]["Display"] and "Display" not in it["impls"])
    if fd["id"] == "C17-nonzero-default":
        return any(ns(t["name"]).startswith("::std::num::NonZero") and t["has_impl"]["Default"] for t in a["types"])
    if fd["id"] == "C17-serde-json-default":
        return "::serde_json::" in ns(a["code"]) and not a["uses"]["serde_json"]
    return False

def replay(ctx, path):
    obj = json.load(open(path))
    if "input" not in obj: print("replay names broken obligations only:", obj.get("broken_obligations")); return 1
    a = m2.tvh_ir([obj["input"]])[0]
    real = m2.real_summaries([a["code"]])[0]
    fl = oracle_case(a["types"], real, a["code"], a["uses"], None)
    mapi = model_api([(a["dump"], obj["input"]["settings"])])[0]
    d = api_diff(a["types"], mapi) if mapi else ["model failed"]
    print("oracle failures:", fl[:5]); print("api model diffs:", d[:5])
    return 1 if fl or d else 0

"""C04 — Rust -> schemars -> typify is wire compatible.

Original Rust types (serde + schemars derives) are described by the SAME IR as typify's output and given meaning by
the SAME Serde model; the property is then a statement about two IRs, origin sigma and generated sigma'.
Theorems (lean/TypifyModel/Proofs/C04.lean): `wire_exchange` (wireB sigma sigma' T T' => the generated type does not
reject what the origin type writes, and the origin type does not reject what the generated type writes back) and
`wire_value` (.. and reads it back to the original value).
Per run: (i) a random universe generator (tools/gen_rust.py) emits Rust source, the origin IR and sample values;
(ii) the origin crate (tools/origin.py) gives the REAL schemars schema of every root type and canonicalises the samples;
(iii) real typify ingests the schema both ways (root document / definitions map) and the output is compiled
(tools/batch.py); (iv) translation validation: `wireB` is evaluated by the Lean driver on every (origin IR, real
generated dump) pair; (v) M3 on BOTH crates: Serde model on the origin IR vs the compiled origin crate, and on the
generated dump vs the compiled generated crate; (vi) implementation oracle = the property itself on real code:
from_str::<T'>(to_string(x)) is Ok, and from_str::<T>(to_string(that)) == x, both routes agreeing."""
import json, os, re
import vlib, m2, m3
import gen_rust as G
from origin import Origin
from batch import Batch, J, canon

PROOF_TARGETS = ["TypifyModel.Proofs.C04"]
PROOF_FILES = ["Proofs/C04.lean", "Proofs/Lemmas/WireBase.lean", "Proofs/Lemmas/WireTy.lean", "Proofs/Lemmas/WireAcc.lean"]

# ------------------------------------------------------------------------------------------ hand-written probes
def _s(name, fields, **kw): return dict({"kind": "struct", "name": name, "rename_all": None, "deny": False, "fields": fields}, **kw)
def _f(ident, ty, mode="req", rename=None, dvalue=None): return {"ident": ident, "rename": rename, "ty": ty, "mode": mode, "dvalue": dvalue}
def _e(name, tag, variants, **kw): return dict({"kind": "enum", "name": name, "tag": tag, "rename_all": None, "deny": False, "variants": variants}, **kw)
def _v(ident, kind="unit", rename=None, **kw): return dict({"ident": ident, "rename": rename, "kind": kind}, **kw)
U8, U32, I64, STR, BOOL = ["int", "u8"], ["int", "u32"], ["int", "i64"], ["string"], ["bool"]

PROBES = [
    {"name": "p_ptr", "types": [_s("PtrInts", [_f("n", ["int", "usize"]), _f("d", ["int", "isize"]), _f("v", ["vec", ["int", "usize"]])])],
     "roots": ["PtrInts"], "values": {"PtrInts": [{"n": 4294967296, "d": -1, "v": []}, {"n": 7, "d": -2147483649, "v": [1]}, {"n": 4294967295, "d": 5, "v": [0, 3]}]}},
    {"name": "p_sets", "types": [_s("Sets", [_f("a", ["set", "BTreeSet", U32]), _f("b", ["set", "HashSet", STR]), _f("c", ["option", ["set", "BTreeSet", ["tuple", [U8, BOOL]]]])])],
     "roots": ["Sets"], "values": {"Sets": [{"a": [1, 2, 3], "b": ["x"], "c": [[1, True], [2, False]]}, {"a": [], "b": [], "c": None}]}},
    {"name": "p_char", "types": [_s("Chars", [_f("c", ["char"]), _f("cs", ["vec", ["char"]])])],
     "roots": ["Chars"], "values": {"Chars": [{"c": "a", "cs": ["x", "ü", "日"]}]}},
    {"name": "p_structs", "types": [{"kind": "unit_struct", "name": "Marker"}, {"kind": "tuple_struct", "name": "Pair", "tys": [U8, STR]},
                                    {"kind": "newtype_struct", "name": "Wrapper", "ty": ["vec", U8]},
                                    _s("Holder", [_f("m", ["ref", "Marker"]), _f("p", ["ref", "Pair"]), _f("w", ["ref", "Wrapper"]), _f("b", ["box", ["ref", "Pair"]])])],
     "roots": ["Holder", "Marker", "Pair", "Wrapper"],
     "values": {"Holder": [{"m": None, "p": [1, "x"], "w": [1, 2], "b": [0, ""]}], "Marker": [None], "Pair": [[255, "y"]], "Wrapper": [[], [9]]}},
    {"name": "p_flatten", "types": [_s("Inner", [_f("x", U8), _f("y", ["option", STR])]), _s("Outer", [_f("inner", ["ref", "Inner"], mode="flatten"), _f("z", BOOL)])],
     "roots": ["Outer"], "values": {"Outer": [{"x": 1, "y": "s", "z": True}, {"x": 0, "y": None, "z": False}]}},
    {"name": "p_optopt", "types": [_s("OptOpt", [_f("a", ["option", ["option", U8]]), _f("b", ["option", ["option", U8]], mode="default")])],
     "roots": ["OptOpt"], "values": {"OptOpt": [{"a": 1, "b": None}, {"a": None, "b": 2}]}},
    {"name": "p_internal_newtype", "types": [_s("Body", [_f("x", U8), _f("s", STR, mode="default")]),
                                            _e("Tagged", {"internal": "kind"}, [_v("Unit"), _v("Wrap", "newtype", ty=["ref", "Body"]), _v("Rec", "struct", fields=[_f("n", I64)])])],
     "roots": ["Tagged"], "values": {"Tagged": [{"kind": "Unit"}, {"kind": "Wrap", "x": 3, "s": "q"}, {"kind": "Rec", "n": -5}]}},
    {"name": "p_f32", "types": [_s("Floats", [_f("a", ["float", "f32"]), _f("b", ["float", "f64"]), _f("c", ["vec", ["float", "f32"]])])],
     "roots": ["Floats"], "values": {"Floats": [{"a": 0.5, "b": 0.1, "c": [1.0, -2.25]}, {"a": 1024.0, "b": 1e10, "c": []}], },
     "raw_values": {"Floats": ['{"a":0.1,"b":0.1,"c":[0.3,16777217.0]}']}},
    {"name": "p_adj_unit", "types": [{"kind": "unit_struct", "name": "Marker"},
                                    _e("AdjUnit", {"adjacent": ["t", "c"]}, [_v("A"), _v("B", "newtype", ty=["unit"]), _v("C", "newtype", ty=["ref", "Marker"]), _v("D", "newtype", ty=["option", BOOL])]),
                                    _e("ExtUnit", "external", [_v("A"), _v("B", "newtype", ty=["unit"]), _v("C", "newtype", ty=["ref", "Marker"])])],
     "roots": ["AdjUnit", "ExtUnit"], "values": {"AdjUnit": [{"t": "A"}, {"t": "B", "c": None}, {"t": "C", "c": None}, {"t": "D", "c": None}, {"t": "D", "c": True}],
                                                 "ExtUnit": ["A", {"B": None}, {"C": None}]}},
    {"name": "p_one_tuple", "types": [_e("OneTuple", "external", [_v("A"), _v("B", "newtype", ty=["tuple", [U8]])]), _s("HasOne", [_f("t", ["tuple", [STR]]), _f("e", ["ref", "OneTuple"])])],
     "roots": ["HasOne"], "values": {"HasOne": [{"t": ["x"], "e": "A"}, {"t": [""], "e": {"B": [7]}}]}},
    # field-less structs and struct variants `V {}` (an empty map on the wire, not a unit) under every tagging, with and without
    # deny_unknown_fields
    {"name": "p_empty", "types": [
        _s("Empty", []), _s("EmptyDeny", [], deny=True),
        _e("ExtE", "external", [_v("A"), _v("Reset", "struct", fields=[]), _v("Set", "struct", fields=[_f("n", U8)])]),
        _e("ExtED", "external", [_v("A"), _v("Reset", "struct", fields=[]), _v("Set", "struct", fields=[_f("n", U8)])], deny=True),
        _e("AdjE", {"adjacent": ["t", "c"]}, [_v("A"), _v("Reset", "struct", fields=[]), _v("Set", "struct", fields=[_f("n", U8)])]),
        _e("AdjED", {"adjacent": ["t", "c"]}, [_v("A"), _v("Reset", "struct", fields=[]), _v("Set", "struct", fields=[_f("n", U8)])], deny=True),
        _e("IntE", {"internal": "kind"}, [_v("A"), _v("Reset", "struct", fields=[]), _v("Set", "struct", fields=[_f("n", U8)])]),
        _s("HoldsEmpty", [_f("e", ["ref", "Empty"]), _f("d", ["ref", "EmptyDeny"]), _f("x", ["ref", "ExtED"])])],
     "roots": ["ExtE", "ExtED", "AdjE", "AdjED", "IntE", "HoldsEmpty"],
     "values": {"ExtE": ["A", {"Reset": {}}, {"Set": {"n": 1}}], "ExtED": ["A", {"Reset": {}}, {"Set": {"n": 2}}],
                "AdjE": [{"t": "A"}, {"t": "Reset", "c": {}}, {"t": "Set", "c": {"n": 1}}],
                "AdjED": [{"t": "A"}, {"t": "Reset", "c": {}}, {"t": "Set", "c": {"n": 3}}],
                "IntE": [{"kind": "A"}, {"kind": "Reset"}, {"kind": "Set", "n": 1}],
                "HoldsEmpty": [{"e": {}, "d": {}, "x": {"Reset": {}}}, {"e": {}, "d": {}, "x": "A"}]}},
    # an untagged enum of a unit variant and ONE other variant is schemars' `anyOf [null, X]`: typify reads a nullable X
    {"name": "p_untagged_unit_plus_one", "types": [
        _e("Maybe", "untagged", [_v("Nothing"), _v("Point", "struct", fields=[_f("x", STR, mode="default"), _f("on", BOOL, mode="default")])]),
        _s("HasMaybe", [_f("m", ["ref", "Maybe"]), _f("n", U8)])],
     "roots": ["HasMaybe"], "values": {"HasMaybe": [{"m": None, "n": 1}, {"m": {"x": "a", "on": True}, "n": 2}]}},
    # members whose default FUNCTION returns a non-empty container / a non-zero scalar: an explicitly empty map, an empty list, a
    # zero are then values of their own and must come back as such
    {"name": "p_default_fn_containers", "types": [
        _s("Labeled", [_f("name", STR), _f("labels", ["map", "BTreeMap", STR], mode="default_fn", dvalue={"tier": "free"}),
                       _f("ports", ["vec", ["int", "u8"]], mode="default_fn", dvalue=[1, 2]),
                       _f("tags", ["vec", STR], mode="default_fn", dvalue=["x"]),
                       _f("retries", U32, mode="default_fn", dvalue=3), _f("note", ["option", STR], mode="default_fn", dvalue="n/a")])],
     "roots": ["Labeled"],
     "values": {"Labeled": [{"name": "a", "labels": {}, "ports": [], "tags": [], "retries": 0, "note": None},
                            {"name": "b", "labels": {"tier": "free"}, "ports": [1, 2], "tags": ["x"], "retries": 3, "note": "n/a"},
                            {"name": "c", "labels": {"k": "v"}, "ports": [9], "tags": [], "retries": 1, "note": ""}]}},
    # an internally tagged enum that looks adjacently tagged: every struct variant carries one field of the same name,
    # omitted on the wire when empty / defaulted
    {"name": "p_lookalike", "types": [_e("Msg", {"internal": "kind"}, [_v("Ping"), _v("Text", "struct", fields=[_f("body", STR)]),
                                                               _v("Batch", "struct", fields=[_f("body", ["vec", U32], mode="default_skip")]),
                                                               _v("Count", "struct", fields=[_f("body", I64, mode="default")])])],
     "roots": ["Msg"], "values": {"Msg": [{"kind": "Ping"}, {"kind": "Text", "body": "hi"}, {"kind": "Batch"}, {"kind": "Batch", "body": [1, 2]},
                                          {"kind": "Count", "body": 0}, {"kind": "Count", "body": -7}]}},
    # an untagged enum over integer / optional float / string payloads
    {"name": "p_num_untagged", "types": [_e("Reading", "untagged", [_v("Count", "newtype", ty=U32), _v("Level", "newtype", ty=["option", ["float", "f64"]]),
                                                                 _v("Label", "newtype", ty=STR)]),
                                        _e("Plain", "untagged", [_v("Count", "newtype", ty=U32), _v("Level", "newtype", ty=["float", "f64"]), _v("Label", "newtype", ty=STR)])],
     "roots": ["Reading", "Plain"], "values": {"Reading": [5, 2.5, None, "x"], "Plain": [5, 2.5, "x"]}},
    # containment cycles whose only in-line path runs through a tuple / a fixed array / a tuple struct
    {"name": "p_rec_tuple", "types": [{"kind": "tuple_struct", "name": "History", "tys": [U32, ["option", ["box", ["ref", "History"]]]]},
                                     _s("Node", [_f("v", U8), _f("children", ["tuple", [["option", ["box", ["ref", "Node"]]], ["option", ["box", ["ref", "Node"]]]]])]),
                                     _s("Chain", [_f("link", ["option", ["tuple", [["box", ["ref", "Chain"]], U8]]])]),
                                     _s("Ring", [_f("slots", ["array", ["option", ["box", ["ref", "Ring"]]], 2]), _f("id", U8)])],
     "roots": ["History", "Node", "Chain", "Ring"],
     "values": {"History": [[1, None], [2, [1, None]]], "Node": [{"v": 1, "children": [None, None]}, {"v": 1, "children": [{"v": 2, "children": [None, None]}, None]}],
                "Chain": [{"link": None}, {"link": [{"link": None}, 3]}], "Ring": [{"slots": [None, None], "id": 0}, {"slots": [{"slots": [None, None], "id": 1}, None], "id": 2}]}},
    # nullable members whose default function returns Some(value), the zero value of the wrapped type included
    {"name": "p_opt_default", "types": [_s("Limits", [_f("retries", ["option", U32], mode="default_fn", dvalue=0), _f("label", ["option", STR], mode="default_fn", dvalue=""),
                                                      _f("verbose", ["option", BOOL], mode="default_fn", dvalue=False), _f("depth", ["option", U8], mode="default_fn", dvalue=3),
                                                      _f("zero", U32, mode="default_fn", dvalue=0)])],
     "roots": ["Limits"],
     "values": {"Limits": [{"retries": None, "label": None, "verbose": None, "depth": None, "zero": 0}, {"retries": 0, "label": "", "verbose": False, "depth": 3, "zero": 5},
                           {"retries": 7, "label": "x", "verbose": True, "depth": None, "zero": 1}]}},
    {"name": "p_rec_root", "types": [_s("Tree", [_f("v", U8), _f("kids", ["vec", ["ref", "Tree"]]), _f("next", ["option", ["box", ["ref", "Tree"]]])])],
     "roots": ["Tree"], "values": {"Tree": [{"v": 1, "kids": [{"v": 2, "kids": [], "next": None}], "next": {"v": 3, "kids": [], "next": None}}]}},
    {"name": "p_root_enum", "types": [_e("ExtS", "external", [_v("U"), _v("S", "struct", fields=[_f("x", U8)])]), _e("AdjS", {"adjacent": ["t", "c"]}, [_v("U"), _v("S", "struct", fields=[_f("x", U8)])]),
                                     _e("IntS", {"internal": "t"}, [_v("U"), _v("S", "struct", fields=[_f("x", U8)])]), _e("UntS", "untagged", [_v("S", "struct", fields=[_f("x", U8)]), _v("N", "newtype", ty=STR)])],
     "roots": ["ExtS", "AdjS", "IntS", "UntS"],
     "values": {"ExtS": ["U", {"S": {"x": 1}}], "AdjS": [{"t": "U"}, {"t": "S", "c": {"x": 1}}], "IntS": [{"t": "U"}, {"t": "S", "x": 1}], "UntS": [{"x": 1}, "s"]}},
    {"name": "p_untagged_tuples", "types": [_e("Amb", "untagged", [_v("A", "tuple", tys=[U8, STR]), _v("B", "tuple", tys=[STR, BOOL]), _v("C", "newtype", ty=BOOL)]), _s("HasAmb", [_f("a", ["ref", "Amb"])])],
     "roots": ["HasAmb"], "values": {"HasAmb": [{"a": [1, "x"]}, {"a": ["y", True]}, {"a": False}]}},
]


# ------------------------------------------------------------------------------------------ facts about a universe
def reachable(U, root):
    D = G.defs_by_name(U)
    seen, todo = set(), [root]
    while todo:
        n = todo.pop()
        if n in seen: continue
        seen.add(n)
        acc = set()
        for te in G.type_exprs(D[n]): G.refs_in(te, acc)
        todo += list(acc)
    return seen


def sub_exprs(te, out):
    out.append(te)
    k = te[0]
    if k in ("option", "vec", "box"): sub_exprs(te[1], out)
    elif k in ("map", "set"): sub_exprs(te[2], out)
    elif k == "tuple":
        for t in te[1]: sub_exprs(t, out)
    elif k == "array": sub_exprs(te[1], out)
    return out


def null_only(U, te):
    D = G.defs_by_name(U)
    if te[0] == "unit": return True
    if te[0] == "box": return null_only(U, te[1])
    if te[0] == "ref":
        d = D[te[1]]
        return d["kind"] == "unit_struct" or (d["kind"] == "newtype_struct" and null_only(U, d["ty"]))
    return False


def facts(U, root):
    """type-level mechanism predicates of the listed findings, over the types reachable from `root`"""
    D = G.defs_by_name(U)
    F = set()
    R = reachable(U, root)
    for n in R:
        d = D[n]
        exprs = []
        for te in G.type_exprs(d): sub_exprs(te, exprs)
        for te in exprs:
            if te[0] == "int" and te[1] in ("usize", "isize"): F.add("ptr_int")
            if te[0] == "char": F.add("char")
            if te[0] == "tuple" and len(te[1]) == 1: F.add("one_tuple")
            if te[0] == "option" and te[1][0] == "option": F.add("option_option")
        if d["kind"] == "struct" and any(f["mode"] == "flatten" for f in d["fields"]): F.add("flatten")
        if d["kind"] == "enum":
            tg = d["tag"] if isinstance(d["tag"], str) else list(d["tag"])[0]
            if tg == "untagged":
                F.add("untagged")
                # typify keeps an untagged union only when its branches are told apart by JSON type (integer and number
                # count as different); the listed finding is about unions whose branches are NOT: same class twice
                def classes(te, fuel=8):
                    k = te[0]
                    if fuel <= 0: return {"*"}
                    if k == "int": return {"integer"}
                    if k == "float": return {"number"}
                    if k in ("string", "char"): return {"string"}
                    if k == "bool": return {"boolean"}
                    if k == "unit": return {"null"}
                    if k == "option":
                        # Option<Named> is schemars' `anyOf [$ref, null]`: util.rs schemas_mutually_exclusive cannot see through a
                        # reference INSIDE a subschema (instance_type: None => "not exclusive"), whatever the other branch is
                        inner = te[1]
                        while inner[0] == "box": inner = inner[1]
                        if inner[0] == "ref": return {"*"}
                        return classes(te[1], fuel - 1) | {"null"}
                    if k == "box": return classes(te[1], fuel - 1)
                    if k in ("vec", "set", "array", "tuple"): return {"array"}
                    if k == "map": return {"object"}
                    if k == "ref":
                        dd = D.get(te[1])
                        if dd is None: return {"*"}
                        if dd["kind"] in ("struct",): return {"object"}
                        if dd["kind"] == "tuple_struct": return {"array"}
                        if dd["kind"] == "unit_struct": return {"null"}
                        if dd["kind"] == "newtype_struct": return classes(dd["ty"], fuel - 1)
                        return {"*"}
                    return {"*"}
                cls = []
                for v in d["variants"]:
                    cls.append({"null"} if v["kind"] == "unit" else classes(v["ty"]) if v["kind"] == "newtype" else {"array"} if v["kind"] == "tuple" else {"object"})
                if any("*" in a for a in cls) or any(a & b for i, a in enumerate(cls) for b in cls[i + 1:]): F.add("untagged_overlap")
            for v in d["variants"]:
                if tg in ("adjacent", "external") and v["kind"] == "newtype" and null_only(U, v["ty"]): F.add("unit_payload_variant")
                if tg == "internal" and v["kind"] == "newtype": F.add("internal_newtype")
                if v["kind"] == "newtype" and v["ty"][0] == "tuple" and len(v["ty"][1]) == 1: F.add("one_tuple_variant")
            # the same shape by another route: an internally tagged enum whose struct variants all carry ONE field of one name is
            # read back as adjacently tagged (tag + content), the field's type becomes the variant's payload
            svs = [v for v in d["variants"] if v["kind"] == "struct"]
            if tg == "internal" and svs and all(len(v["fields"]) == 1 for v in svs) and len({v["fields"][0]["ident"] for v in svs}) == 1 \
                    and any(v["fields"][0]["ty"][0] == "tuple" and len(v["fields"][0]["ty"][1]) == 1 for v in svs):
                F.add("one_tuple_variant")
    d = D[root]
    if d["kind"] == "enum":
        tg = d["tag"] if isinstance(d["tag"], str) else list(d["tag"])[0]
        if tg in ("external", "adjacent") and any(v["kind"] == "struct" for v in d["variants"]): F.add("root_enum_struct_variant")
        # the same finding's other shape: `oneOf[object, null]` at the root (an untagged enum of a struct variant and a unit variant)
        if tg == "untagged" and any(v["kind"] == "struct" for v in d["variants"]) and any(v["kind"] == "unit" for v in d["variants"]):
            F.add("root_enum_struct_variant")
    acc = set()
    for n in R:
        if n != root or True:
            for te in G.type_exprs(D[n]): G.refs_in(te, acc)
    if root in acc: F.add("recursive_root")
    return F


def has_flatten(dump):
    return bool(dump) and any(p.get("rename") == "flatten" for e in dump["entries"].values()
                              for p in (e.get("props", []) if e["kind"] == "struct" else
                                        [q for v in e.get("variants", []) if isinstance(v["details"], dict) and "struct" in v["details"] for q in v["details"]["struct"]] if e["kind"] == "enum" else []))


# ------------------------------------------------------------------------------------------ attribution to listed findings
def attribute(findings, info):
    """info: route, kind (gen_failed | nocompile | accept | return_reject | return_differs), facts (type level),
    stats (of the sample value), dump (generated), message"""
    ids = {f["id"]: f for f in findings}
    F, st, kind, route = info["facts"], info.get("stats") or {}, info["kind"], info["route"]
    def hit(i): return ids.get(i)
    if route == "root" and "recursive_root" in F and kind in ("gen_failed", "nocompile") and hit("C04-root-route-recursive-root"):
        return hit("C04-root-route-recursive-root")
    if route == "root" and "root_enum_struct_variant" in F and kind == "gen_failed" and "type_entry.rs" in (info.get("message") or "") and hit("C04-root-route-enum-struct-variant"):
        return hit("C04-root-route-enum-struct-variant")
    if has_flatten(info.get("dump")) and "untagged_overlap" in F and "flatten" not in F and hit("C04-untagged-not-exclusive"):
        return hit("C04-untagged-not-exclusive")
    if kind == "accept" and st.get("ptr_int_beyond_32_bits") and re.search(r"expected [ui]32|did not match any variant", info.get("message") or "") and hit("C04-ptr-int-32"):
        return hit("C04-ptr-int-32")
    # the same narrowing inside an UNTAGGED enum: the variant that holds the pointer-sized integer no longer reads the value, a
    # later (open, all-optional) variant does, and the value comes back as that other variant
    if kind in ("return_differs", "return_reject") and st.get("ptr_int_beyond_32_bits") and "untagged" in F and "ptr_int" in F and hit("C04-ptr-int-32"):
        return hit("C04-ptr-int-32")
    if kind == "return_reject" and st.get("unit_payload_variant") and "unit_payload_variant" in F and hit("C04-unit-payload-variant"):
        return hit("C04-unit-payload-variant")
    if kind == "nocompile" and any(e.get("code") == "E0428" for e in info.get("rustc_errors") or []) and info.get("dump") and hit("C04-nullable-def-name"):
        from props import c01 as _c01
        if _c01.nullable_def_names(info["dump"]): return hit("C04-nullable-def-name")
    if kind == "nocompile" and "one_tuple_variant" in F and any(e.get("code") == "E0308" for e in info.get("rustc_errors") or []) and hit("C04-one-tuple-variant"):
        return hit("C04-one-tuple-variant")
    return None


# ------------------------------------------------------------------------------------------ cases
def universes(ctx):
    us = [dict(p) for p in PROBES]
    n = 150 if ctx.tier == "thorough" else 12
    for k in range(n):
        us.append(G.gen_universe(ctx.rng, "g%d" % k, ctx.rng.randint(3, 7)))
    return us


def type_id(c, root, route):
    if not c.dump: return None
    if route == "root": return c.dump["ref_to_id"].get("#")
    if "def:" + root in c.dump["ref_to_id"]: return c.dump["ref_to_id"]["def:" + root]
    m = re.match(r"ok:(\d+)", c.calls[-1] if c.calls else "")
    return int(m.group(1)) if m else None


class Pipeline:
    """origin crate + two generated batches (the second isolates the cases that fall to typify's anyOf-as-struct
    rendering: recursive ones fail in rustc with post-monomorphisation errors that stop a whole shard)"""
    def __init__(self, name_or_ctx, us, log=None):
        self.us = us
        self.name = name_or_ctx if isinstance(name_or_ctx, str) else "%s_%s" % (name_or_ctx.prop, name_or_ctx.tier)
        self.o = Origin(name_or_ctx if not isinstance(name_or_ctx, str) else self.name)
        self.units = []        # (univ, root, route, case)
        self.log = log or (lambda *a: None)

    def build(self):
        o = self.o
        self.univs = [o.add(U) for U in self.us]
        o.build()
        self.origin_nocompile = [u for u in self.univs if not u.compiled]
        sreq = [(u, r, "schema", "") for u in self.univs if u.compiled for r in u.U["roots"]]
        self.schemas = {}
        for (u, r, _, _), s in zip(sreq, o.run(sreq)):
            self.schemas[(u.idx, r)] = json.loads(s)
        b = self.b = Batch(self.name, assertions=False, ops=("de",), ops_for="all")
        tmp = []
        for (u, r, _, _) in sreq:
            S = self.schemas[(u.idx, r)]
            defs = S.get("definitions", {})
            S2 = {k: v for k, v in S.items() if k not in ("definitions", "$schema")}
            c1 = b.add_case([{"root": S}], {}, tag="%s/%s/root" % (u.name, r))
            # the repository's own idiom (test_util.rs get_type): definitions first; the type itself only if it is not one of them
            c2 = b.add_case([{"defs": defs}] + ([] if r in defs else [{"type": S2, "name": r}]), {}, tag="%s/%s/defs" % (u.name, r))
            tmp += [(u, r, "root", c1), (u, r, "defs", c2)]
        b.prepare()
        b2 = self.b2 = Batch(self.name + "_flat", assertions=False, ops=("de",), ops_for="all", shards=24)
        for (u, r, route, c) in tmp:
            c.settings = {}
            c.t = type_id(c, r, route)
            c.ops_types = [c.t] if c.t is not None else []
            if has_flatten(c.dump):
                c.ops_types = []
                c2 = b2.add_case(c.request["calls"], {}, tag=c.tag); c2.settings = {}
                self.units.append([u, r, route, c2])
            else:
                self.units.append([u, r, route, c])
        b2.prepare()
        for un in self.units:
            c = un[3]
            if c in b2.cases:
                c.t = type_id(c, un[1], un[2]); c.ops_types = [c.t] if c.t is not None else []
        b.build(); b2.build()

    def run_gen(self, reqs):
        """[(case, type id, op, payload)] over both batches, order kept"""
        in1 = set(id(c) for c in self.b.cases)
        r1 = [q for q in reqs if id(q[0]) in in1]; r2 = [q for q in reqs if id(q[0]) not in in1]
        a1 = iter(self.b.run(r1) if r1 else []); a2 = iter(self.b2.run(r2) if r2 else [])
        return [next(a1) if id(q[0]) in in1 else next(a2) for q in reqs]


def samples(rng, U, root, k):
    out = []
    fixed = "values" in U or "raw_values" in U
    for v in (U.get("values") or {}).get(root, []):
        st = {}
        _mark(U, root, v, st)
        out.append((J(v), st))
    for raw in (U.get("raw_values") or {}).get(root, []):
        out.append((raw, {}))
    if not fixed:
        for _ in range(k):
            st = {}
            out.append((J(G.gen_value(rng, U, ["ref", root], stats=st)), st))
    return out


def _mark(U, root, v, st):
    """value-level predicates for the hand-written probe values"""
    s = json.dumps(v)
    if U["name"] == "p_ptr" and any(abs(x) >= 2**31 for x in [v["n"], v["d"]] + v["v"]): st["ptr_int_beyond_32_bits"] = 1
    if U["name"] == "p_adj_unit" and isinstance(v, dict) and (v.get("t") == "B" or "B" in v): st["unit_payload_variant"] = 1


# ------------------------------------------------------------------------------------------ the check
def run(ctx):
    findings = vlib.load_findings("C04")
    st = vlib.proof_stage(ctx, "C04", PROOF_TARGETS + ["TypifyModel.Proofs.Tagging", "TypifyModel.Proofs.TaggingComplete"], PROOF_FILES + ["Proofs/Tagging.lean", "Proofs/TaggingComplete.lean"], slices=["ir", "c04", "tag"])
    # which tagging mode, tag, content member and variant names a union gets: enums.rs against Model/Tagging.lean (M0)
    import tagstage
    tstats, tdis = tagstage.stage(ctx, ctx.tier == "thorough") if st["driver_ok"] else ({"ran": False}, [])
    ctx.log("union shape M0: %s disagreements=%d" % (tstats, len(tdis)))
    st["union_shape_M0"] = tstats
    if tdis:
        st["broken"].append("correspondence M0 (convert_one_of / enums.rs tagging detection vs Model/Tagging.lean) disagrees on %d of %d requests, first: %s"
                            % (len(tdis), tstats.get("requests", 0), json.dumps(tdis[0])[:600]))
    us = universes(ctx)
    P = Pipeline(ctx, us, ctx.log)
    P.build()
    res = evaluate(ctx, P, findings, st, 8 if ctx.tier == "thorough" else 6)
    report(ctx, P, findings, st, res)


def evaluate(ctx, P, findings, st, nsamples, rng=None):
    rng = rng or ctx.rng
    o = P.o
    R = {"fails": [], "known": {}, "samples": 0, "exchanges": 0, "exchanges_ok": 0, "route_pairs": 0, "route_disagree": [],
         "origin_m3": {"compared": 0, "skipped": 0, "dis": []}, "gen_m3": {"compared": 0, "skipped": 0, "dis": []},
         "wire": {"true": 0, "false": 0, "error": 0, "false_detail": []}, "generator_bugs": [], "stats": {}, "describe": {}}
    for u in P.origin_nocompile:
        R["generator_bugs"].append({"universe": u.U, "rustc": [e["rendered"][:600] for e in u.rustc_errors[:2]]})
    # ---- samples, validated and canonicalised by the origin crate
    smp = {}            # (univ idx, root) -> [(j canonical, stats)]
    sreq = []; smeta = []
    for u in P.univs:
        if not u.compiled: continue
        G.describe(u.U, R["describe"])
        for r in u.U["roots"]:
            for (j, stt) in samples(rng, u.U, r, nsamples):
                sreq.append((u, r, "ser", j)); smeta.append((u, r, j, stt))
    for (u, r, j, stt), a in zip(smeta, o.run(sreq)):
        if not a.startswith("ok "):
            R["generator_bugs"].append({"universe": u.U["name"], "type": r, "value": j, "origin_answer": a}); continue
        smp.setdefault((u.idx, r), []).append((a[3:], stt))
        for k, v in stt.items(): R["stats"][k] = R["stats"].get(k, 0) + v
    R["samples"] = sum(len(v) for v in smp.values())
    # ---- generated types exist?
    unit_facts = {}
    def fail(u, r, route, c, kind, value, stt, message, extra=None):
        F = unit_facts.setdefault((u.idx, r), facts(u.U, r))
        info = {"route": route, "kind": kind, "facts": F, "stats": stt, "dump": c.dump, "message": message, "rustc_errors": c.rustc_errors}
        fd = attribute(findings, info)
        rec = {"universe": u.U, "type": r, "route": route, "kind": kind, "value": value, "message": message, "case": c.tag}
        if extra: rec.update(extra)
        if fd:
            R["known"].setdefault(fd["id"], []).append(rec)
        else:
            R["fails"].append(rec)
    live = []
    for (u, r, route, c) in P.units:
        if c.skipped or c.t is None:
            msg = "; ".join(str(m) for m in (c.messages or []) if m) or str(c.calls) or str(c.error)
            fail(u, r, route, c, "gen_failed", None, {}, msg); continue
        if not c.compiled:
            fail(u, r, route, c, "nocompile", None, {}, "; ".join("%s %s" % (e.get("code"), (e.get("message") or "")[:120]) for e in c.rustc_errors[:3])); continue
        live.append((u, r, route, c))
    # ---- accept direction
    greq = []; gmeta = []
    for (u, r, route, c) in live:
        for (j, stt) in smp.get((u.idx, r), []):
            greq.append((c, c.t, "de", j)); gmeta.append((u, r, route, c, j, stt))
    gans = P.run_gen(greq)
    back = []; bmeta = []
    byvalue = {}
    for (u, r, route, c, j, stt), a in zip(gmeta, gans):
        R["exchanges"] += 1
        if a.startswith("ok "):
            back.append((u, r, "eq", j + "\t" + a[3:])); bmeta.append((u, r, route, c, j, stt, a[3:]))
            byvalue.setdefault((u.idx, r, j), {})[route] = ("ok", canon(a[3:]))
        else:
            byvalue.setdefault((u.idx, r, j), {})[route] = ("fail", None)
            fail(u, r, route, c, "accept", j, stt, a[:300])
    # ---- return direction
    for (u, r, route, c, j, stt, j2), a in zip(bmeta, o.run(back)):
        if a == "ok true": R["exchanges_ok"] += 1
        elif a.startswith("ok false"): fail(u, r, route, c, "return_differs", j, stt, "T reads %s back to a different value" % j2[:300], {"returned": j2})
        else: fail(u, r, route, c, "return_reject", j, stt, a[:300], {"returned": j2})
    # ---- both routes agree
    failed_units = {(f["universe"]["name"], f["type"], f["route"]) for f in R["fails"]} | \
                   {(f["universe"]["name"], f["type"], f["route"]) for v in R["known"].values() for f in v}
    byu = {u.idx: u for u in P.univs}
    for (ui, r, j), d in byvalue.items():
        if len(d) == 2:
            R["route_pairs"] += 1
            if d["root"] != d["defs"]:
                R["route_disagree"].append({"universe": byu[ui].U["name"], "type": r, "value": j, "root": d["root"], "defs": d["defs"]})
    # a route that does not produce the type at all while the other does is a disagreement too; it is already a failure above
    # ---- translation validation (wireB on the real pair) and the two M3 ties
    if st.get("driver_ok"):
        wire_stage(P, R, live)
        m3_origin(P, R, smp)
        rr = m3.compare(_Both(P), [c for (_, _, _, c) in live], greq)
        R["gen_m3"] = {"compared": len(greq) - rr["skipped_model"] - rr["skipped_real"], "skipped": rr["skipped_model"] + rr["skipped_real"],
                       "dis": [{"case": rq[0].tag, "type_id": rq[1], "payload": rq[3], "compiled": ra, "model": ma} for rq, ra, ma in rr["disagreements"][:20]],
                       "n_dis": len(rr["disagreements"])}
    R["live"] = len(live); R["units"] = len(P.units)
    return R


class _Both:
    """adapter: m3.compare wants one object with .run"""
    def __init__(self, P): self.P = P
    def run(self, reqs): return self.P.run_gen(reqs)


def wire_stage(P, R, live):
    lines = []; meta = []
    dumps = {}
    for (u, r, route, c) in live:
        if u.idx not in dumps: dumps[u.idx] = G.ir_dump(u.U)
        od, names = dumps[u.idx]
        lines.append("pair p%d %s" % (len(meta), json.dumps({"origin": od, "generated": c.dump})))
        lines.append("wire p%d %d %d" % (len(meta), names[r], c.t))
        meta.append((u, r, route, c))
    out = m2.run_bin(vlib.drv("c04"), lines) if lines else []
    for k, (u, r, route, c) in enumerate(meta):
        a = out[2 * k + 1] if out[2 * k] == "ok" else "error"
        c.wire = a
        if a.startswith("true"): R["wire"]["true"] += 1
        elif a.startswith("false"):
            R["wire"]["false"] += 1
            if len(R["wire"]["false_detail"]) < 40: R["wire"]["false_detail"].append({"case": c.tag, "answer": a})
        else: R["wire"]["error"] += 1


def m3_origin(P, R, smp):
    """Serde model on the origin IR vs the compiled origin crate (hand-derived serde types): a new tie"""
    lines = []; meta = []
    for u in P.univs:
        if not u.compiled: continue
        od, names = G.ir_dump(u.U)
        lines.append("ir o%d %s" % (u.idx, json.dumps({"dump": od, "settings": {}})))
        meta.append(None)
        for r in u.U["roots"]:
            for (j, stt) in smp.get((u.idx, r), []):
                lines.append("de o%d %d %s" % (u.idx, names[r], j)); meta.append((u, r, j, stt))
    out = m2.run_bin(vlib.drv("ir"), lines) if lines else []
    for mt, a in zip(meta, out):
        if mt is None: continue
        u, r, j, stt = mt
        nm = m3.norm_model("de", a)
        if nm[0] in m3.SKIP_MODEL or nm[0].startswith("se-") and nm[0] != "se-err": R["origin_m3"]["skipped"] += 1; continue
        if stt.get("hashset_multi"): R["origin_m3"]["skipped"] += 1; continue     # element order of a HashSet is not a function of the value
        R["origin_m3"]["compared"] += 1
        if nm != ("ok", (m3.canon(j),)):
            R["origin_m3"]["dis"].append({"universe": u.U["name"], "type": r, "payload": j, "compiled": "ok " + j, "model": a})


def report(ctx, P, findings, st, R):
    broken = list(st["broken"])
    if R["origin_m3"]["dis"]: broken.append("correspondence M3 (origin crate): Serde model and the compiled origin types disagree on %d values" % len(R["origin_m3"]["dis"]))
    if R["gen_m3"].get("n_dis"): broken.append("correspondence M3 (generated crate): Serde model and the compiled generated types disagree on %d values" % R["gen_m3"]["n_dis"])
    if R["generator_bugs"]: broken.append("generator: %d universes / sample values the origin crate does not accept (bug of tools/gen_rust.py)" % len(R["generator_bugs"]))
    # wireB true but the exchange failed on real code: the model layer is wrong about reality
    for fd in findings:
        hits = R["known"].get(fd["id"], [])
        wit = [h for h in hits if h["universe"]["name"] == fd.get("witness_universe")]
        if wit: vlib.known(ctx, fd)
        else: ctx.notes.append("known finding %s: its witness no longer fails" % fd["id"])
    ctx.log("universes=%d units=%d live=%d samples=%d exchanges=%d ok=%d fails(new)=%d known=%s wire=%s routes: %d pairs, %d disagree; M3 origin %d/%d dis, generated %s/%s dis" % (
        len(P.us), R["units"], R["live"], R["samples"], R["exchanges"], R["exchanges_ok"], len(R["fails"]),
        {k: len(v) for k, v in R["known"].items()}, {k: v for k, v in R["wire"].items() if k != "false_detail"}, R["route_pairs"], len(R["route_disagree"]),
        len(R["origin_m3"]["dis"]), R["origin_m3"]["compared"], R["gen_m3"].get("n_dis"), R["gen_m3"].get("compared")))
    seen = set()
    for f in R["fails"]:
        key = (f["universe"]["name"], f["type"], f["kind"])
        if key in seen or len(ctx.violations) >= 6: continue
        seen.add(key)
        vlib.violation(ctx, dict(f, property="C04", what="implementation violates the property (%s)" % f["kind"], broken_obligations=broken))
    known_units = {(h["universe"]["name"], h["type"]) for v in R["known"].values() for h in v}
    for d in R["route_disagree"]:
        if (d["universe"], d["type"]) in known_units or len(ctx.violations) >= 6: continue
        U = [u for u in P.us if u["name"] == d["universe"]][0]
        vlib.violation(ctx, {"property": "C04", "kind": "routes_disagree", "universe": U, "type": d["type"], "value": d["value"], "route": "both",
                             "what": "the root-document route and the definitions-map route give different behaviour", "root": d["root"], "defs": d["defs"]})
    if broken and not ctx.violations:
        vlib.violation(ctx, {"property": "C04", "kind": "property no longer shown to hold", "broken_obligations": broken,
                             "first_disagreements_origin": R["origin_m3"]["dis"][:3], "first_disagreements_generated": R["gen_m3"].get("dis", [])[:3],
                             "generator_bugs": R["generator_bugs"][:2], "lean_log": st.get("log", "")}, no_input=True)
    json.dump({"fails": R["fails"][:50], "wire_false": R["wire"]["false_detail"], "origin_m3": R["origin_m3"]["dis"][:50], "gen_m3": R["gen_m3"].get("dis", []),
               "route_disagree": R["route_disagree"][:50], "generator_bugs": R["generator_bugs"][:10]},
              open(os.path.join(vlib.CACHE, "c04_last_details.json"), "w"), indent=1)
    cov = {"union_shape_M0": st.get("union_shape_M0"), "obligations": st["obligations"], "discharged": st["discharged"],
           "checker_cmd": "cd /verif/lean && lake build TypifyModel.Proofs.C04 && lake env lean TypifyModel/Audit/C04.lean",
           "trusted_base": vlib.TRUSTED_BASE + ["serde_derive / serde_json modelled (Model/Serde*.lean), tied by M3 to BOTH compiled crates (hand-derived origin types and generated types)",
                                                "schemars 0.8.22 is not modelled: its real output is used", "rustc",
                                                "tools/gen_rust.py: the origin IR it emits describes the Rust source it emits (tied by M3 on the origin crate)"],
           "axioms": st.get("axioms", {}),
           "evaluations": R["exchanges"], "distinct_nontrivial": R["exchanges"],
           "rule": "one evaluation = one (universe, root type, route, sample value) four-step exchange on real code: to_string(x) by the compiled origin type, from_str + to_string by the compiled generated type, from_str + PartialEq by the origin type; values are drawn type-directed (boundary integers, empty/non-empty containers, every variant kind, skipped members), distinct by construction of the (universe, type, route, JSON text) key; all non-trivial (each crosses both crates)",
           "samples": [{"universe": f[0].U["name"], "type": f[1], "route": f[2]} for f in P.units[:4]],
           "universes": len(P.us), "universes_random": len([u for u in P.us if u["name"].startswith("g")]), "root_types_x_routes": R["units"],
           "generated_types_available": R["live"], "sample_values": R["samples"], "exchanges_ok": R["exchanges_ok"],
           "impl_oracle_failures_new": len(R["fails"]), "impl_oracle_failures_known": {k: len(v) for k, v in R["known"].items()},
           "route_pairs_compared": R["route_pairs"], "route_disagreements": len(R["route_disagree"]),
           "wireB_true(translation_validated)": R["wire"]["true"], "wireB_false": R["wire"]["false"], "wireB_error": R["wire"]["error"],
           "traces_validated_against_impl": R["origin_m3"]["compared"] + (R["gen_m3"].get("compared") or 0),
           "M3_origin_compared": R["origin_m3"]["compared"], "M3_origin_disagreements": len(R["origin_m3"]["dis"]), "M3_origin_skipped": R["origin_m3"]["skipped"],
           "M3_generated_compared": R["gen_m3"].get("compared"), "M3_generated_disagreements": R["gen_m3"].get("n_dis"), "M3_generated_skipped": R["gen_m3"].get("skipped"),
           "construct_distribution": dict(sorted(R["describe"].items())), "value_statistics": R["stats"],
           "timings": {"origin": P.o.timings, "batch": P.b.timings, "batch_flat": P.b2.timings}}
    vlib.write_evidence(ctx, "proof", cov, [
        "that schemars + typify establish wireB is NOT proved; it is checked per (root type, route) by evaluating wireB on the origin IR and the real generated dump (translation validation); pairs with wireB false are exercised by M3 + the oracle only",
        "the origin IR is produced by the generator next to the Rust source; that it describes the source is checked by M3 on the compiled origin crate (model de/se vs serde's derive on the hand-written types)",
        "sets: the Serde model reads a set as a sequence; origin-side sample values of sets are sorted and duplicate-free, where the two readings agree (HashSet values with more than one element are not compared in M3)",
        "usize / isize are u64 / i64 in the origin IR (64-bit target)", "floats: dyadic sample values only",
        "serde_derive / serde_json / schemars are third-party: modelled (serde) or used as they are (schemars), not verified"])


# ------------------------------------------------------------------------------------------ replay
def replay(ctx, path):
    obj = json.load(open(path))
    if "universe" not in obj:
        print("replay names broken obligations only:", obj.get("broken_obligations")); return 1
    U = obj["universe"]; T = obj["type"]
    U = dict(U, roots=[T])
    U.pop("values", None); U.pop("raw_values", None)
    if obj.get("value") is not None: U["raw_values"] = {T: [obj["value"]]}
    P = Pipeline("c04_replay", [U])
    P.build()
    findings = vlib.load_findings("C04")
    import random
    R = evaluate(ctx, P, [], {"driver_ok": os.path.exists(vlib.drv("c04"))}, 6, rng=random.Random(ctx.seed))
    bad = 0
    for f in R["fails"]:
        if obj.get("route") in (None, "both", f["route"]):
            print("FAILS: %s/%s route=%s kind=%s value=%s : %s" % (f["universe"]["name"], f["type"], f["route"], f["kind"], f["value"], f["message"])); bad += 1
    for d in R["route_disagree"]:
        print("ROUTES DISAGREE:", d); bad += 1
    print("exchanges=%d ok=%d wire=%s" % (R["exchanges"], R["exchanges_ok"], {k: v for k, v in R["wire"].items() if k != "false_detail"}))
    return 1 if bad else 0

"""C05 — constraints represented in a generated type cannot be bypassed.
Theorems: lean/TypifyModel/Proofs/C05.lean (string_constraints_enforced, enum_values_enforced, deny_values_enforced,
struct_object_enforced, tuple_arity_enforced, array_len_enforced, scalar_type_enforced, external_tag_enforced,
no_backdoor, charCount_eq_length) over Model/Serde.lean (`de`) and Model/Render.lean, and Proofs/C11.lean
(FromStr / TryFrom = Deserialize).
Correspondence M3: model `de`/`fromStr`/`tryFromStr` (drv_ir) vs the compiled generated code, on valid instances and on
single-constraint mutants; M2 (syn summary of to_stream() vs Render model) for the syntactic half.
Implementation oracle = the property on the compiled code: every mutant of one of the eight listed kinds that the
independent validator (tools/oracle.py, jsonschema draft-07) calls invalid must be rejected by `from_str::<T>`;
`parse` / `try_from` must agree with `from_str`; a constrained newtype has a private field and no `From<inner>`.
Mutants are judged against the ENFORCED PROJECTION Enf S of the schema (`enf`: only the constraints the property lists are
kept, oneOf is read as anyOf), valid instances against S itself; an oracle-valid instance that is rejected is C02's subject
(counted). Survivors are attributed to KNOWN_FINDINGS.json entries by mechanism predicates evaluated here (PREDICATES) on the
IR dump / the compiled answer; the findings' canonical witnesses are cases of every run. Probes outside the eight mutators
(struct written as an array, integers written 1.0, extra string probes) are observed and counted only."""
import copy, json, os
import vlib, m2, m3, irutil, gen
from batch import Batch, J, canon

PROOF_TARGETS = ["TypifyModel.Proofs.C05", "TypifyModel.Proofs.C05Enc", "TypifyModel.Proofs.FlattenFindings"]
FINDINGS_TARGET = "TypifyModel.Proofs.C05Findings"
PROOF_FILES = ["Proofs/C05.lean", "Proofs/C05Enc.lean", "Proofs/C11.lean", "Proofs/Lemmas/StrConvLemmas.lean", "Proofs/Lemmas/RenderLemmas.lean"]
KINDS = [n for n, _ in gen.MUTATORS]          # required additional enum length pattern arity type tag
STR_OPS = ("fromstr", "tryfrom_str", "tryfrom_string", "tryfrom_refstring")
OPS = ("de",) + STR_OPS
NAMED = ("struct", "enum", "newtype")


# ------------------------------------------------------------------------------------------ hand-written cases
def _obj(props, required=(), closed=False, **kw):
    s = {"type": "object", "properties": props}
    if required: s["required"] = list(required)
    if closed: s["additionalProperties"] = False
    s.update(kw)
    return s

def _ref(n): return {"$ref": "#/definitions/" + n}
def _one(v): return {"type": "string", "enum": [v]}
INT = {"type": "integer"}
STR = {"type": "string"}

# name, document, explicit probes {definition name | "#": [(kind, value)]}; kind = "valid" or one of KINDS
HAND = [
 ("lengths", dict(_obj({"m": _ref("Max1"), "n": _ref("Min2Max3")}, ["m"], True), title="Lengths", definitions={
     "Max1": {"type": "string", "maxLength": 1},
     "Min2Max3": {"type": "string", "minLength": 2, "maxLength": 3},
     "Min1": {"type": "string", "minLength": 1},
     "Max0": {"type": "string", "maxLength": 0},
     "Exact2": {"type": "string", "minLength": 2, "maxLength": 2}, "Exact1": {"type": "string", "minLength": 1, "maxLength": 1}}),
  {"Max1": [("valid", "é"), ("valid", "\U0001F600"), ("valid", ""), ("valid", "a"), ("valid", "日"),
            ("length", "éé"), ("length", "ab"), ("length", "\U0001F600a"), ("length", "é"), ("type", 1)],
   "Min2Max3": [("valid", "éé"), ("valid", "日本語"), ("valid", "\U0001F600\U0001F600"),
                ("length", "é"), ("length", "\U0001F600"), ("length", "éééé"), ("length", "abcd")],
   "Min1": [("valid", "\u0301"), ("length", "")],
   "Max0": [("valid", ""), ("length", "a"), ("length", "é")],
   # both bounds equal: bytes and characters disagree on every multi-byte string
   "Exact2": [("valid", "ab"), ("valid", "éé"), ("valid", "日本"), ("valid", "\U0001F600a"), ("length", "é"), ("length", "a"), ("length", "abc"), ("length", "\U0001F600"), ("length", "")],
   "Exact1": [("valid", "é"), ("valid", "\U0001F600"), ("valid", "a"), ("length", ""), ("length", "ab"), ("length", "éé")],
   "#": [("valid", {"m": "\U0001F600"}), ("valid", {"m": "é", "n": "ééé"}),
         ("length", {"m": "éé"}), ("length", {"m": "a", "n": "\U0001F600"})]}),
 ("patterns", dict(_obj({"p": _ref("Lower"), "q": {"type": "array", "items": _ref("Digits3")}}, ["p"]), title="Patterns", definitions={
     "Lower": {"type": "string", "pattern": "^[a-z]+$"},
     "Digits3": {"type": "string", "pattern": "^[0-9]{3}$", "minLength": 3},
     "AZ": {"type": "string", "pattern": "^a.*z$", "maxLength": 4},
     "Hex": {"type": "string", "pattern": "^[a-f0-9]{2,8}$", "minLength": 2, "maxLength": 8},
     "Line": {"type": "string", "pattern": "^.*$"}, "Line2": {"type": "string", "pattern": "^(.*)$", "maxLength": 10},
     "NoSpace": {"type": "string", "pattern": "^\\S+$"}, "NoSlash": {"type": "string", "pattern": "^[^/]+$"}}),
  {"Lower": [("valid", "abc"), ("pattern", "abC"), ("pattern", "abé"), ("pattern", ""), ("pattern", "a b")],
   "Digits3": [("valid", "007"), ("pattern", "0070"), ("pattern", "00"), ("pattern", "0é7")],
   "AZ": [("valid", "aéz"), ("valid", "aééz"), ("length", "aéééz"), ("pattern", "aééy")],
   "Line": [("valid", ""), ("valid", "one line"), ("pattern", "a\nb"), ("pattern", "a\r"), ("pattern", "\u2028")],
   "Line2": [("valid", "é"), ("pattern", "a\nb"), ("length", "12345678901")],
   "NoSpace": [("valid", "aé-1"), ("pattern", "a b"), ("pattern", "a\u00a0b"), ("pattern", "")],
   "NoSlash": [("valid", "a b"), ("pattern", "a/b"), ("pattern", "")],
   "#": [("pattern", {"p": "x", "q": ["123", "12a"]})]}),
 ("strenums", dict(_obj({"e": _ref("E1"), "f": _ref("E2")}, ["e"], True), title="StrEnums", definitions={
     "E1": {"type": "string", "enum": ["é", "a", "abc"], "maxLength": 1},
     "E2": {"type": "string", "enum": ["日本", "ab", "é\U0001F600", "x"], "minLength": 2},
     "E3": {"type": "string", "enum": ["red", "green", "kebab-case", "Fast"]},
     "AllMb": {"type": "string", "enum": ["é", "\U0001F600"], "maxLength": 1}}),
  {"E1": [("valid", "é"), ("valid", "a"), ("length", "abc"), ("enum", "b"), ("enum", "É"), ("enum", "A"), ("type", 0)],
   "E2": [("valid", "日本"), ("valid", "é\U0001F600"), ("valid", "ab"), ("length", "x"), ("enum", "日"), ("enum", "AB")],
   "E3": [("valid", "kebab-case"), ("enum", "kebab_case"), ("enum", "KebabCase"), ("enum", "fast"), ("enum", "Red"), ("enum", "")],
   "AllMb": [("valid", "é"), ("valid", "\U0001F600"), ("enum", "a"), ("enum", "éé")],
   "#": [("valid", {"e": "é"}), ("enum", {"e": "e"}), ("valid", {"e": "a", "f": "é\U0001F600"})]}),
 ("typed-enums", dict(_obj({"p": _ref("Primes"), "u": _ref("U8e")}, ["p"], True), title="TypedEnums", definitions={
     "Primes": {"type": "integer", "enum": [2, 3, 5, 7]},
     "U8e": {"type": "integer", "format": "uint8", "enum": [1, 2, 200]},
     "Pairs": {"type": "array", "items": {"type": "integer"}, "enum": [[1, 2], [3]]}}),
  {"Primes": [("valid", 2), ("valid", 7), ("enum", 4), ("enum", 8), ("enum", -2), ("enum", 0), ("type", "2"), ("type", True)],
   "U8e": [("valid", 200), ("enum", 3), ("enum", 0), ("enum", 199)],
   "Pairs": [("valid", [1, 2]), ("valid", [3]), ("enum", [2, 1]), ("enum", []), ("enum", [1, 2, 3])],
   "#": [("valid", {"p": 5}), ("enum", {"p": 6}), ("enum", {"p": 5, "u": 201})]}),
 ("bool-enum", dict(_obj({"t": _ref("OnlyTrue")}, ["t"]), title="BoolEnum", definitions={
     "OnlyTrue": {"type": "boolean", "enum": [True]}}),
  {"OnlyTrue": [("valid", True), ("enum", False)], "#": [("valid", {"t": True}), ("enum", {"t": False})]}),
 ("deny-lists", dict(_obj({"d": _ref("NotX")}, ["d"], True), title="DenyLists", definitions={
     "NotX": {"type": "string", "not": {"enum": ["é", "x", ""]}},
     "NotOne": {"type": "string", "not": {"enum": ["one"]}}}),
  {"NotX": [("valid", "y"), ("valid", "e"), ("valid", "X"), ("enum", "é"), ("enum", "x"), ("enum", ""), ("type", 0)],
   "NotOne": [("valid", "One"), ("enum", "one")],
   "#": [("valid", {"d": "ok"}), ("enum", {"d": "x"})]}),
 ("objects", dict(_obj({"c": _ref("Closed"), "o": _ref("Open")}, ["c"], True), title="Objects", definitions={
     "Closed": _obj({"a": INT, "b": STR, "c": {"type": ["integer", "null"]}}, ["a", "c"], True),
     "Open": _obj({"a": INT, "b": {"type": "boolean"}}, ["a"]),
     "Nested": _obj({"in": _obj({"x": INT, "y": {"type": "array", "items": STR}}, ["x", "y"], True)}, ["in"], True)}),
  {"Closed": [("valid", {"a": 1, "c": None}), ("valid", {"a": 1, "b": "s", "c": 2}), ("required", {"c": None}),
              ("additional", {"a": 1, "c": None, "d": 0}), ("additional", {"a": 1, "c": None, "A": 1}), ("type", {"a": "1", "c": None})],
   "Open": [("valid", {"a": 1, "zz": 0}), ("required", {"b": True}), ("type", {"a": 1, "b": "true"})],
   "Nested": [("valid", {"in": {"x": 0, "y": []}}), ("required", {"in": {"x": 0}}), ("additional", {"in": {"x": 0, "y": [], "z": 1}}),
              ("type", {"in": {"x": 0, "y": ["a", 1]}})]}),
 ("tuples", dict(_obj({"p": _ref("Pair")}, ["p"]), title="Tuples", definitions={
     "Pair": {"type": "array", "items": [INT, STR], "minItems": 2, "maxItems": 2},
     "Triple": {"type": "array", "items": {"type": "boolean"}, "minItems": 3, "maxItems": 3},
     "Deep": {"type": "array", "items": [_ref("Pair"), {"type": "array", "items": INT, "minItems": 1, "maxItems": 1}], "minItems": 2, "maxItems": 2}}),
  {"Pair": [("valid", [1, "a"]), ("arity", [1]), ("arity", [1, "a", "a"]), ("arity", []), ("type", ["1", "a"]), ("type", [1, 2])],
   "Triple": [("valid", [True, False, True]), ("arity", [True, False]), ("arity", [True, False, True, True]), ("type", [True, 0, True])],
   "Deep": [("valid", [[1, "a"], [2]]), ("arity", [[1, "a"], []]), ("arity", [[1], [2]]), ("arity", [[1, "a"], [2, 3]])]}),
 ("tag-external", dict(_obj({"x": _ref("Ext")}, ["x"]), title="TagExternal", definitions={
     "Ext": {"oneOf": [_one("Unit"), _one("other-unit"),
                       _obj({"New": INT}, ["New"], True),
                       _obj({"Tup": {"type": "array", "items": [INT, STR], "minItems": 2, "maxItems": 2}}, ["Tup"], True),
                       _obj({"Rec": _obj({"a": INT, "b": STR}, ["a"], True)}, ["Rec"], True)]}}),
  {"Ext": [("valid", "Unit"), ("valid", "other-unit"), ("valid", {"New": 1}), ("valid", {"Tup": [1, "s"]}), ("valid", {"Rec": {"a": 1}}),
           ("tag", "unit"), ("tag", "OtherUnit"), ("tag", {"new": 1}), ("tag", {"Newx": 1}), ("tag", {"Tup": 1}), ("tag", {"Unit": 1}),
           ("arity", {"Tup": [1]}), ("required", {"Rec": {"b": "s"}}), ("additional", {"Rec": {"a": 1, "c": 1}}), ("type", {"New": "1"}),
           ("additional", {"New": 1, "Tup": [1, "s"]})]}),
 ("tag-internal", dict(_obj({"x": _ref("Int")}, ["x"]), title="TagInternal", definitions={
     "Int": {"oneOf": [_obj({"kind": _one("circle"), "r": INT}, ["kind", "r"]),
                       _obj({"kind": _one("square"), "side": INT, "label": STR}, ["kind", "side"]),
                       _obj({"kind": _one("dot")}, ["kind"])]}}),
  {"Int": [("valid", {"kind": "circle", "r": 1}), ("valid", {"kind": "square", "side": 2}), ("valid", {"kind": "dot"}),
           ("tag", {"kind": "Circle", "r": 1}), ("tag", {"kind": "", "r": 1}), ("tag", {"kind": "square", "r": 1}),
           ("required", {"r": 1}), ("required", {"kind": "circle"}), ("type", {"kind": "circle", "r": "1"}), ("type", {"kind": 1, "r": 1})]}),
 ("tag-adjacent", dict(_obj({"x": _ref("Adj")}, ["x"]), title="TagAdjacent", definitions={
     "Adj": {"oneOf": [_obj({"t": _one("num"), "c": INT}, ["t", "c"]),
                       _obj({"t": _one("txt"), "c": {"type": "string", "maxLength": 2}}, ["t", "c"]),
                       _obj({"t": _one("pair"), "c": {"type": "array", "items": [INT, INT], "minItems": 2, "maxItems": 2}}, ["t", "c"]),
                       _obj({"t": _one("none")}, ["t"])]}}),
  {"Adj": [("valid", {"t": "num", "c": 1}), ("valid", {"t": "txt", "c": "éé"}), ("valid", {"t": "pair", "c": [1, 2]}), ("valid", {"t": "none"}),
           ("tag", {"t": "Num", "c": 1}), ("tag", {"t": "txt", "c": 1}), ("tag", {"t": "nothing"}), ("required", {"t": "num"}), ("required", {"c": 1}),
           ("length", {"t": "txt", "c": "ééé"}), ("arity", {"t": "pair", "c": [1]}), ("type", {"t": "num", "c": "1"})]}),
 ("untagged", dict(_obj({"x": _ref("Unt")}, ["x"]), title="Untagged", definitions={
     "Rec": _obj({"p": INT, "q": STR}, ["p", "q"]),
     "Unt": {"anyOf": [_ref("Rec"), {"type": "array", "items": [INT, INT], "minItems": 2, "maxItems": 2}, {"type": "boolean"}]},
     "Unt2": {"anyOf": [_obj({"p": INT, "q": STR}, ["p", "q"], True),
                        {"type": "array", "items": [INT, INT], "minItems": 2, "maxItems": 2}, _ref("Short")]},
     "Short": {"type": "string", "maxLength": 2},
     "Strs": {"oneOf": [{"type": "string", "enum": ["abcd", "zzzzz"]}, _ref("Short")]}}),
  {"Unt": [("valid", {"p": 1, "q": "s"}), ("valid", [1, 2]), ("valid", True), ("type", [1, "s"]), ("type", ["1", 2]), ("arity", [1]),
           ("required", {"p": 1}), ("type", {"p": 1, "q": 2}), ("type", "true")],
   "Unt2": [("valid", {"p": 1, "q": "s"}), ("valid", [1, 2]), ("valid", "éé"), ("type", [1, "s"]), ("length", "ééé"),
            ("additional", {"p": 1, "q": "s", "r": 0}), ("arity", [1, 2, 3])],
   "Strs": [("valid", "abcd"), ("valid", "éé"), ("valid", ""), ("length", "abc"), ("enum", "abcde"), ("length", "ééé")]}),
 ("scalars", dict(_obj({"i8": {"type": "integer", "format": "int8"}, "u": {"type": "integer", "format": "uint32"}, "b": {"type": "boolean"},
                        "n": {"type": "number"}, "s": STR, "v": {"type": "array", "items": _ref("Small")},
                        "m": {"type": "object", "additionalProperties": _ref("Small")}, "o": {"type": ["string", "null"]}},
                       ["i8", "u", "b", "n", "s"], True), title="Scalars", definitions={
     "Small": {"type": "string", "minLength": 1, "maxLength": 2}, "Flag": {"type": "boolean"}, "Count": {"type": "integer", "format": "uint8"},
     "Name": STR}),
  {"#": [("valid", {"i8": -128, "u": 0, "b": False, "n": 1.5, "s": "", "v": ["éé"], "m": {"k": "\U0001F600"}, "o": None}),
         ("type", {"i8": "1", "u": 0, "b": False, "n": 1.5, "s": ""}), ("type", {"i8": 1, "u": 0, "b": "false", "n": 1.5, "s": ""}),
         ("type", {"i8": 1, "u": 0, "b": False, "n": "1.5", "s": ""}), ("type", {"i8": 1, "u": 0, "b": False, "n": 1.5, "s": 0}),
         ("type", {"i8": 1, "u": True, "b": False, "n": 1.5, "s": ""}), ("type", {"i8": 1, "u": 0, "b": 0, "n": 1.5, "s": ""}),
         ("length", {"i8": 1, "u": 0, "b": False, "n": 1.5, "s": "", "v": ["ééé"]}),
         ("length", {"i8": 1, "u": 0, "b": False, "n": 1.5, "s": "", "m": {"k": ""}}),
         ("type", {"i8": 1, "u": 0, "b": False, "n": 1.5, "s": "", "o": 0})],
   "Flag": [("valid", True), ("type", "true"), ("type", 1)], "Count": [("valid", 255), ("type", "255"), ("type", True)],
   "Name": [("valid", "é"), ("type", 0), ("type", True)]}),
]

# required members over the lattice declared / undeclared x additionalProperties absent / true / a schema / false: a name in
# `required` is required whatever declares (or does not declare) its value
def _required_lattice():
    defs, probes = {}, {}
    I, S = {"type": "integer"}, {"type": "string"}
    for dn, decl in (("Decl", True), ("Undecl", False)):
        for an, ap in (("Absent", None), ("True", True), ("Str", S), ("False", False)):
            if ap is False and not decl: continue           # a required member nothing allows: no instance at all
            name = "R" + dn + an
            sc = {"type": "object", "properties": dict({"id": I}, **({"owner": S} if decl else {})), "required": ["id", "owner"]}
            if ap is not None: sc["additionalProperties"] = ap
            defs[name] = sc
            probes[name] = [("valid", {"id": 1, "owner": "o"}), ("required", {"id": 1}), ("required", {"owner": "o"}), ("required", {})]
            if ap is not False: probes[name].append(("valid", {"id": 1, "owner": "o", "more": "m"}))
    return ("required-lattice", {"title": "Req", "type": "object", "properties": {"x": _ref("RDeclAbsent")}, "definitions": defs}, probes)
HAND.append(_required_lattice())

QUICK_FIXTURES = ("deny-list", "arrays-and-tuples", "various-enums", "simple-types", "id-or-name", "more_types",
                  "multiple-instance-types", "extraneous-enum")


SETTINGS_FOR = {}
CONV_SETTINGS = {"convert": [{"schema": {"type": "string"}, "type": "::std::string::String", "impls": ["Display", "FromStr", "Default"]}],
                 "replace": [{"name": "NoSuchDefinition", "replace": "::std::string::String", "impls": []}]}

def cases(ctx):
    """[(tag, document, explicit probes)]"""
    out = [("hand:" + n, d, p) for n, d, p in HAND]
    for f in vlib.load_findings("C05"):          # canonical witnesses of the known findings, replayed on every run
        out.append(("finding:" + f["id"], f["witness"], {"#": [(f.get("probe_kind", "type"), v) for v in f.get("probes", [])]}))
    thorough = ctx.tier == "thorough"
    for name, doc in gen.fixture_docs():
        base = os.path.basename(name)[:-5]
        if not thorough and base not in QUICK_FIXTURES: continue
        out.append(("fixture:" + name, doc, {}))
    # closedness / required / string constraints that reach the type through an allOf merge (merge.rs): a reference to an
    # open object closed by a sibling, a closed object extended by a sibling, constraints split over two branches
    pet = _obj({"name": STR, "age": INT}, ["name"])
    out.append(("hand:allof-closing", dict(_obj({"s": _ref("StrictPet"), "t": _ref("Tagged")}, ["s"]), title="AllOfClosing", definitions={
        "Pet": pet,
        "StrictPet": {"allOf": [_ref("Pet"), {"type": "object", "properties": {"name": {}, "age": {}}, "additionalProperties": False}]},
        "StrictPet2": {"allOf": [_ref("Pet"), _obj({"name": STR, "age": INT}, [], True)]},
        "Tagged": {"allOf": [_ref("Pet"), _obj({"tag": {"type": "string", "maxLength": 3}}, ["tag"])]},
        "Both": {"allOf": [_obj({"a": {"type": "string", "minLength": 2}}, ["a"]), _obj({"a": {"type": "string", "maxLength": 3}, "b": INT}, ["b"], True)]}}),
        {"StrictPet": [("valid", {"name": "x"}), ("valid", {"name": "x", "age": 3}), ("additional", {"name": "x", "extra": 1}), ("required", {"age": 3}), ("type", {"name": 1})],
         "StrictPet2": [("valid", {"name": "x"}), ("additional", {"name": "x", "zz": True})],
         "Tagged": [("valid", {"name": "x", "tag": "abc"}), ("length", {"name": "x", "tag": "abcd"}), ("required", {"name": "x"}), ("required", {"tag": "a"})],
         "Both": [("valid", {"a": "ab", "b": 1}), ("length", {"a": "a", "b": 1}), ("length", {"a": "abcd", "b": 1}), ("additional", {"a": "ab", "b": 1, "c": 0}), ("required", {"a": "ab"})],
         "#": [("valid", {"s": {"name": "n"}}), ("additional", {"s": {"name": "n", "q": 1}})]}))
    # the same constraint documents under settings that must not touch them: a conversion for the PLAIN string schema (and a
    # replacement of an unrelated name) leaves every constrained string constrained
    for n_, d_, p_ in HAND:
        if n_ in ("lengths", "patterns", "strenums", "deny-lists"):
            out.append(("hand:%s+conv" % n_, d_, p_)); SETTINGS_FOR["hand:%s+conv" % n_] = CONV_SETTINGS
    import corpus
    for cid, cdoc, _ in corpus.oracle_documents():
        if cid.startswith(("hand:", "file:")): out.append(("corpus:" + cid, cdoc, {}))
    for k in range(30 if thorough else 3):
        out.append(("genallof:%d" % k, gen.gen_universe(ctx.rng, 3 + k % 4, gen.FEATURE_SETS["c05"] | {"allof", "allof_closed"}), {}))
    for k in range(40 if thorough else 4):
        out.append(("genunion:%d" % k, gen.gen_universe(ctx.rng, 2 + k % 4, gen.FEATURE_SETS["c05"] | {"enum_untagged", "objunion"}), {}))
    n = 400 if thorough else 8
    for k in range(max(n, 8)):
        out.append(("gen:%d" % k, gen.gen_universe(ctx.rng, 2 + k % 6, gen.FEATURE_SETS["c05"]), {}))
    return out


# ------------------------------------------------------------------------------------------ targets, instances, mutants
def targets(c, doc, cap):
    """[(type ref (name | id), type id, schema, schema pointer | None, definition name | "#")] for the root and the definitions"""
    if not c.dump: return []
    es = irutil.entries(c.dump); nm = irutil.named(c.dump); out = []
    cand = [("#", doc, None)]
    for key in ("definitions", "$defs"):
        for k, s in (doc.get(key) or {}).items():
            cand.append((k, s, "#/%s/%s" % (key, gen.ptr_escape(k))))
    for k, s, ptr in cand:
        tid = c.dump["ref_to_id"].get("#" if k == "#" else "def:" + k)
        if tid is None or tid not in es or not isinstance(s, dict): continue
        e = es[tid]
        if e["kind"] in NAMED:
            t = c.type(e["name"])
            if nm.get(e["name"], (None,))[0] != tid or not t or t["id"] != tid: continue      # name clash: not addressable
            ref = e["name"]
        else:
            ref = tid
        out.append((ref, tid, s, ptr, k))
        if len(out) >= cap: break
    return out


def deny_mutants(doc, schema, value):
    """`not: {enum: [...]}` deny lists: replace the value at a site by a denied member (the deny-list reading of
    'replace an enum value by a non-member'); gen.mutants does not look inside `not`"""
    out = []
    try: sites = gen.value_sites(doc, schema, value)
    except KeyError: return out
    for p, s, v in sites:
        n = s.get("not")
        if isinstance(n, dict) and isinstance(n.get("enum"), list) and n["enum"] and not isinstance(v, (dict, list)):
            for d in n["enum"][:2]:
                if type(d) is type(v) and d != v:
                    out.append(("enum", gen.ptr_set(value, p, d), "replace %r by the denied value %r" % (v, d), p))
    return out


def _wire(p):
    r = p.get("rename")
    return r["rename"] if isinstance(r, dict) else p["name"]


def ir_at(dump, tid, value, toks):
    """the IR entry that reads the JSON found at pointer `toks` of `value` when `value` is read as type `tid`
    (Option / Box / newtype are transparent); None when the path leaves the modelled shapes"""
    es = irutil.entries(dump)
    def sub(v, t):
        try: return v[int(t)] if isinstance(v, list) else v[t]
        except (KeyError, IndexError, ValueError, TypeError): return None
    def props(ps, v, toks, fuel):
        if not toks: return {"kind": "struct-variant"}
        for p in ps:
            if p.get("rename") != "flatten" and _wire(p) == toks[0]: return go(p["type_id"], sub(v, toks[0]), toks[1:], fuel - 1)
        for p in ps:
            if p.get("rename") == "flatten":
                r = go(p["type_id"], v, toks, fuel - 1)
                if r is not None: return r
        return None
    def body(d, v, toks, fuel):
        if d == "simple": return None
        if "item" in d: return go(d["item"], v, toks, fuel - 1)
        if "tuple" in d:
            if not toks: return {"kind": "tuple-variant"}
            try: return go(d["tuple"][int(toks[0])], sub(v, toks[0]), toks[1:], fuel - 1)
            except (ValueError, IndexError): return None
        return props(d["struct"], v, toks, fuel)
    def go(tid, v, toks, fuel):
        e = es.get(tid)
        if e is None or fuel <= 0: return None
        k = e["kind"]
        if k in ("option", "box"): return go(e["id"], v, toks, fuel - 1)
        if k == "newtype": return go(e["type_id"], v, toks, fuel - 1)
        if not toks: return e
        t = toks[0]
        if k in ("vec", "set", "array"): return go(e["id"], sub(v, t), toks[1:], fuel - 1)
        if k == "tuple":
            try: return go(e["ids"][int(t)], sub(v, t), toks[1:], fuel - 1)
            except (ValueError, IndexError): return None
        if k == "map": return go(e["value"], sub(v, t), toks[1:], fuel - 1)
        if k == "struct": return props(e["props"], v, toks, fuel)
        if k == "enum":
            tag = e["tag"]
            def by(name): return next((x for x in e["variants"] if x["raw_name"] == name), None)
            if tag == "external":
                x = by(t)
                return body(x["details"], sub(v, t), toks[1:], fuel) if x else None
            if tag == "untagged":
                for x in e["variants"]:
                    r = body(x["details"], v, toks, fuel)
                    if r is not None: return r
                return None
            if not isinstance(v, dict): return None
            if "internal" in tag:
                x = by(v.get(tag["internal"]))
                return body(x["details"], v, toks, fuel) if x else None
            tg, content = tag["adjacent"]
            x = by(v.get(tg))
            return body(x["details"], sub(v, content), toks[1:], fuel) if (x and t == content) else None
        return None
    return go(tid, value, list(toks), 64)


def observations(c, tid, v):
    """probes OUTSIDE the eight mutators (noted, never alarms): serde's sequence form of a struct, integers written 1.0"""
    out = []
    e = irutil.entries(c.dump).get(tid)
    if e and e["kind"] == "struct" and isinstance(v, dict) and v:
        seq = []
        for p in e["props"]:
            w = _wire(p)
            if w in v: seq.append(v[w])
            else: break
        if seq and len(seq) == len(v): out.append(("obs:array-form", seq, "struct written as the array of its members"))
    f = gen._floatify(v)
    if json.dumps(f) != json.dumps(v): out.append(("obs:float-int", f, "integers written as 1.0"))
    return out


class Rec:
    __slots__ = ("case", "ref", "tid", "ptr", "defn", "kind", "value", "desc", "at", "base", "verdict", "full", "enf_ok", "ans", "model", "sw")
    def __init__(self, **kw):
        for k in self.__slots__: setattr(self, k, kw.get(k))
    def brief(self):
        return {"case": self.case.tag, "type": self.ref, "definition": self.defn, "kind": self.kind, "value": self.value,
                "what": self.desc, "oracle_valid": self.verdict, "compiled": (self.ans or {}).get("de")}


def make_records(ctx, c, doc, probes, tcap, nvalid):
    recs = []
    for ref, tid, S, ptr, defn in targets(c, doc, tcap):
        sw = irutil.string_wire(c.dump, tid) if isinstance(ref, str) else None
        seen = set()
        def add(kind, v, desc, at=None, base=None):
            key = (kind.split(":")[0] == "obs", json.dumps(v, sort_keys=True, ensure_ascii=False))
            if key in seen: return
            seen.add(key)
            recs.append(Rec(case=c, ref=ref, tid=tid, ptr=ptr, defn=defn, kind=kind, value=v, desc=desc, at=at, base=base, sw=sw))
        inst = []
        for kind, v in probes.get(defn, []):
            if kind == "valid": inst.append((v, "hand"))
            else: add(kind, v, "hand-written %s violation" % kind)
        try:
            inst += [(v, "boundary:" + lab) for v, lab in gen.gen_boundary(ctx.rng, doc, S, depth=3)]
            for _ in range(nvalid):
                inst.append((gen.gen_valid(ctx.rng, doc, S, depth=3), "random"))
        except (gen.Unsat, KeyError, RecursionError, TypeError, ValueError, IndexError):
            pass
        for v, lab in inst:
            add("valid", v, lab)
            try:
                ms = gen.mutants(ctx.rng, doc, S, v) + gen.mutants(ctx.rng, doc, S, v) + deny_mutants(doc, S, v)
            except (gen.Unsat, KeyError, RecursionError, TypeError, ValueError, IndexError):
                ms = []
            for kind, w, desc, at in ms: add(kind, w, desc, at, v)
        for v, lab in inst[:3]:
            for kind, w, desc in observations(c, tid, v): add(kind, w, desc, None, v)
        if sw:
            for s in irutil.string_probes(c.dump, tid, ctx.rng)[:(60 if ctx.tier == "thorough" else 24)]:
                add("obs:string-probe", s, "string probe")
    return recs


_ENF_DROP = {"minimum", "maximum", "exclusiveMinimum", "exclusiveMaximum", "multipleOf", "uniqueItems", "minProperties", "maxProperties",
             "propertyNames", "contains", "dependencies", "if", "then", "else", "format", "default", "examples"}
_DENY_KEYS = {"enum", "const", "type"}

def enf(s):
    """The enforced projection Enf S (DESIGN.md C05): keeps string lengths, pattern, enum/const, deny lists, required, closed objects,
    fixed array length, tags (= the const members of union branches) and `type`; drops numeric bounds, formats, uniqueItems,
    property counts, variable array bounds, conditionals, and the exclusivity of oneOf. Every step only WEAKENS the schema
    (nothing below a `not` is touched), so S-valid implies Enf-valid; the check verifies that on every generated instance."""
    if isinstance(s, list): return [enf(x) for x in s]
    if not isinstance(s, dict): return s
    out = {}
    unions = []
    for k, v in s.items():
        if k in _ENF_DROP: continue
        if k in ("properties", "patternProperties", "definitions", "$defs") and isinstance(v, dict):
            out[k] = {n: enf(x) for n, x in v.items()}
        elif k in ("items", "additionalProperties", "additionalItems", "allOf"): out[k] = enf(v)
        elif k in ("anyOf", "oneOf"): unions.append(enf(v))
        elif k == "not":
            if isinstance(v, dict) and set(v) <= _DENY_KEYS and ("enum" in v or "const" in v): out[k] = copy.deepcopy(v)
        elif k in ("minItems", "maxItems"):
            if s.get("minItems") == s.get("maxItems"): out[k] = v
        else: out[k] = copy.deepcopy(v)           # type, enum, const (data), required, lengths, pattern, $ref, annotations
    if len(unions) == 1: out["anyOf"] = unions[0]
    elif unions: out["allOf"] = list(out.get("allOf", [])) + [{"anyOf": u} for u in unions]
    return out


def classify(recs, docs):
    """oracle verdicts (one python3-vt subprocess): instances against S, everything against Enf S as well"""
    rq = []; reg = set(); idx = []
    for r in recs:
        tag = r.case.tag
        if tag not in reg:
            reg.add(tag); rq.append({"doc_id": tag, "doc": docs[tag]}); rq.append({"doc_id": tag + "#enf", "doc": enf(docs[tag])})
        idx.append(len(rq))
        rq.append({"doc_id": tag, "schema": r.ptr, "value": r.value})
        rq.append({"doc_id": tag + "#enf", "schema": r.ptr, "value": r.value})
    ans = gen.run_oracle(rq) if rq else []
    for r, i in zip(recs, idx): r.full, r.verdict = ans[i], ans[i + 1]
    for r in recs:
        if r.kind == "valid": r.enf_ok = r.verdict; r.verdict = r.full      # instances are judged against S itself


# ------------------------------------------------------------------------------------------ known findings (mechanism predicates)
def pred_bool_enum(rec, doc):
    """the changed site carries an enum/const whose members are all booleans and the document's value there is a boolean
    outside it (typify's Boolean arm of convert_schema_object ignores enum_values)"""
    if rec.kind != "enum": return False
    S = doc if rec.ptr is None else gen.ptr_get(doc, rec.ptr[1:])
    def members(s):
        ms = s["enum"] if isinstance(s.get("enum"), list) else []
        return ms if ms and all(isinstance(m, bool) for m in ms) else None
    def sites(v):
        try: return gen.value_sites(doc, S, v)
        except KeyError: return []
    for p, s, v in sites(rec.value):
        ms = members(s)
        if ms and isinstance(v, bool) and v not in ms and (rec.at is None or p == rec.at): return True
    if rec.base is not None and rec.at is not None:      # the mutated value left the validating path of a union
        for p, s, v in sites(rec.base):
            if p == rec.at and isinstance(v, bool) and members(s): return True
    return False

def _array_read_as_object(inp, out):
    """some array of the document comes back as an object: it was read through serde's sequence form of a struct"""
    if isinstance(inp, list) and isinstance(out, dict): return True
    if isinstance(inp, list) and isinstance(out, list): return any(_array_read_as_object(a, b) for a, b in zip(inp, out))
    if isinstance(inp, dict) and isinstance(out, dict): return any(_array_read_as_object(v, out[k]) for k, v in inp.items() if k in out)
    return False

def pred_struct_seq_form(rec, doc):
    """the accepted document holds a JSON array where the generated type is a struct / struct variant: the value the compiled
    code built re-serialises to an object at that place (object schema + array-form instance)"""
    st, parts = m3.norm_real("de", rec.ans["de"])
    if st != "ok" or not parts: return False
    return _array_read_as_object(rec.value, json.loads(parts[0]))

def _unit_map_read_as_string(inp, out):
    """some {"k": null} of the document comes back as the string "k": serde's map form of a unit variant"""
    if isinstance(inp, dict) and isinstance(out, str): return len(inp) == 1 and list(inp.items())[0] == (out, None)
    if isinstance(inp, list) and isinstance(out, list): return any(_unit_map_read_as_string(a, b) for a, b in zip(inp, out))
    if isinstance(inp, dict) and isinstance(out, dict): return any(_unit_map_read_as_string(v, out[k]) for k, v in inp.items() if k in out)
    return False

def pred_unit_variant_map_form(rec, doc):
    st, parts = m3.norm_real("de", rec.ans["de"])
    if st != "ok" or not parts: return False
    return _unit_map_read_as_string(rec.value, json.loads(parts[0]))

def shared_variant_types(dump, only=None):
    """(`only`: the entry ids to look at — the part of the IR the type under test reaches)
    [(tag member, {member names})] of the internally / adjacently tagged enums in which two variants hold ONE named type
    under the same member name (adjacent: the content member): typify names an inline subtype after the enum and the member,
    not the variant, so the second variant's subtype resolves (by name) to the type made for the first"""
    es = irutil.entries(dump); out = []
    def named(i, fuel=6):
        e = es.get(i)
        while e is not None and e["kind"] in ("option", "box") and fuel > 0: e = es.get(e["id"]); fuel -= 1
        return id(e) if e is not None and e["kind"] in ("newtype", "struct", "enum") else None
    # (adjacent tagging: only a union that IS a definition names its content types `<Enum><content>`, enums.rs adjacent_variant
    # `Name::Required`; an in-line union appends the variant name, so there the types of two variants are distinct)
    def_ids = {v for v in (dump.get("ref_to_id") or {}).values()}
    for eid, e in es.items():
        if e["kind"] != "enum" or not isinstance(e.get("tag"), dict): continue
        if only is not None and eid not in only: continue
        if "adjacent" in e["tag"]:
            if eid not in def_ids: continue
            tg, ct = e["tag"]["adjacent"]
            def payload_named(dt):
                """named types a variant's payload holds by value: the payload itself, or the elements of a tuple payload"""
                if not isinstance(dt, dict): return []
                ids = []
                if "item" in dt:
                    te = es.get(dt["item"])
                    if te is not None and te["kind"] == "tuple": ids += [named(x) for x in te.get("ids", [])]
                    else: ids.append(named(dt["item"]))
                ids += [named(x) for x in dt.get("tuple") or []]
                return [i for i in ids if i is not None]
            per = [set(payload_named(v["details"])) for v in e["variants"]]
            if any(per[a] & per[b] for a in range(len(per)) for b in range(a + 1, len(per))): out.append((tg, {ct}))
            # a struct payload is in-lined into the variant: its members' in-line types are named `<Enum><content><member>` for
            # every variant alike, so two variants with a member of one name share the first one's type
            seen = {}; hit = False
            for v in e["variants"]:
                if isinstance(v["details"], dict) and "struct" in v["details"]:
                    for p in v["details"]["struct"]:
                        n = named(p["type_id"])
                        if n is None: continue
                        if (_wire(p), n) in seen and seen[(_wire(p), n)] != v["raw_name"]: hit = True
                        seen.setdefault((_wire(p), n), v["raw_name"])
            if hit: out.append((tg, {ct}))
        elif "internal" in e["tag"]:
            tg = e["tag"]["internal"]; seen = {}; keys = set()
            for v in e["variants"]:
                if isinstance(v["details"], dict) and "struct" in v["details"]:
                    for p in v["details"]["struct"]:
                        n = named(p["type_id"])
                        if n is None: continue
                        w = _wire(p)
                        if (w, n) in seen and seen[(w, n)] != v["raw_name"]: keys.add(w)
                        seen.setdefault((w, n), v["raw_name"])
            if keys: out.append((tg, keys))
    return out

def pred_variant_shared_type(rec, doc):
    """the mutated place is the tag of such an enum's object, or lies under one of the members concerned"""
    pairs = shared_variant_types(rec.case.dump)
    if not pairs: return False
    if not rec.at:      # hand-written probe: any such object in the document
        def anyw(v):
            if isinstance(v, dict): return any(tg in v and any(k in v for k in ks) for tg, ks in pairs) or any(anyw(x) for x in v.values())
            if isinstance(v, list): return any(anyw(x) for x in v)
            return False
        return anyw(rec.value)
    toks = gen.ptr_split(rec.at); cur = rec.value
    for t in toks:
        if isinstance(cur, dict) and any(tg in cur and (t == tg or t in ks) for tg, ks in pairs): return True
        try: cur = cur[int(t)] if isinstance(cur, list) else cur[t]
        except (KeyError, IndexError, ValueError, TypeError): return False
    return False

def pred_adjacent_closed_wrapper(rec, doc):
    """an unknown member was added to a closed object that typify reads as the {tag, content} wrapper of an ADJACENTLY tagged
    enum whose IR entry does not deny unknown fields (maybe_adjacently_tagged_enum looks at the content's closedness only)"""
    if rec.kind != "additional": return False
    def hit(parent, member):
        e = ir_at(rec.case.dump, rec.tid, rec.value, parent)
        return bool(e and e.get("kind") == "enum" and isinstance(e.get("tag"), dict) and "adjacent" in e["tag"]
                    and not e.get("deny") and member not in e["tag"]["adjacent"])
    if rec.at:
        toks = gen.ptr_split(rec.at)
        return hit(toks[:-1], toks[-1])
    def objs(v, path):                      # hand-written probe (no pointer): any object of the document
        if isinstance(v, dict):
            yield path, v
            for k, x in v.items(): yield from objs(x, path + [k])
        elif isinstance(v, list):
            for i, x in enumerate(v): yield from objs(x, path + [str(i)])
    return any(hit(path, k) for path, o in objs(rec.value, []) for k in o)

def _dict_paths(v, path=()):
    if isinstance(v, dict):
        yield list(path), v
        for k, x in v.items(): yield from _dict_paths(x, path + (k,))
    elif isinstance(v, list):
        for i, x in enumerate(v): yield from _dict_paths(x, path + (str(i),))

def int_tag_positions(dump, tid, value):
    """[(path, enum entry)]: objects of `value` read by an internally / adjacently tagged enum whose tag member is an integer
    index. serde accepts that when the enum is read from buffered content (inside an internally tagged or untagged enum)."""
    out = []
    for path, o in _dict_paths(value):
        e = ir_at(dump, tid, value, path)
        if e and e.get("kind") == "enum" and isinstance(e.get("tag"), dict):
            tg = e["tag"].get("internal") or e["tag"]["adjacent"][0]
            n = o.get(tg)
            if isinstance(n, int) and not isinstance(n, bool) and 0 <= n < len(e["variants"]): out.append((path, e))
    return out

def pred_buffered_tag_index(rec, doc):
    """the tag member of an internally / adjacently tagged enum holds an integer variant index (and the compiled code took it:
    only possible when the enum is deserialised from serde's buffered Content)"""
    if rec.kind not in ("type", "tag") or not int_tag_positions(rec.case.dump, rec.tid, rec.value): return False
    st, parts = m3.norm_real("de", rec.ans["de"])
    if st != "ok" or not parts: return False
    out = json.loads(parts[0])
    for path, e in int_tag_positions(rec.case.dump, rec.tid, rec.value):
        tg = e["tag"].get("internal") or e["tag"]["adjacent"][0]
        try:
            i = gen.ptr_get(rec.value, "".join("/" + gen.ptr_escape(t) for t in path))[tg]
            o = gen.ptr_get(out, "".join("/" + gen.ptr_escape(t) for t in path))[tg]
        except (KeyError, IndexError, TypeError, ValueError): continue
        if o == e["variants"][i]["raw_name"]: return True          # index in, variant name out
    return False

def pred_const_ignored(rec, doc):
    """the changed site carries `const` (no `enum`) and the generated type there is an unconstrained scalar: typify does not
    represent `const` outside tag detection"""
    if rec.kind != "enum": return False
    S = doc if rec.ptr is None else gen.ptr_get(doc, rec.ptr[1:])
    for val in ([rec.value] if rec.base is None else [rec.value, rec.base]):
        try: sites = gen.value_sites(doc, S, val)
        except KeyError: continue
        for p, s, v in sites:
            if "const" in s and "enum" not in s and (p == rec.at if rec.at is not None else not gen.jeq(v, s["const"])):
                e = ir_at(rec.case.dump, rec.tid, val, gen.ptr_split(p))
                if e and e.get("kind") in ("string", "integer", "float", "boolean", "json_value"): return True
    return False

def _strip_scalar_const(x):
    """the schema without the `const` of typed / untyped scalars that is not a union tag's (a `const` next to `enum` stays)"""
    if isinstance(x, list): return [_strip_scalar_const(y) for y in x]
    if not isinstance(x, dict): return x
    out = {k: (_strip_scalar_const(v) if k not in ("default", "enum", "examples") else v) for k, v in x.items()}
    if "const" in out and "enum" not in out and not isinstance(out["const"], (dict, list)): del out["const"]
    return out

def pred_const_ignored_elsewhere(rec, doc):
    """a mutant that lands in ANOTHER branch of a union and is invalid there only because of `const` members (the finding's
    mechanism away from the changed site): valid once every scalar `const` is removed from the document"""
    if rec.kind != "tag" or '"const"' not in json.dumps(doc): return False
    d2 = _strip_scalar_const(doc)
    S2 = d2 if rec.ptr is None else gen.ptr_get(d2, rec.ptr[1:])
    try: return gen.run_oracle([{"doc": d2, "schema": S2, "value": rec.value}])[0] is True
    except Exception: return False

def pred_allof_not_dropped(rec, doc):
    """a deny-list mutant (`not: {enum}`) at a member of a definition that goes through an allOf merge, the member declared by
    two members of the allOf: merge.rs keeps a `not` only while merging objects, the deny list of the member is lost"""
    if rec.kind != "enum": return False
    S = doc if rec.ptr is None else gen.ptr_get(doc, rec.ptr[1:])
    if rec.at is None:          # hand-written probe: the members of the document itself
        members = list(rec.value) if isinstance(rec.value, dict) else []
    else:
        if "denied value" not in (rec.desc or ""): return False
        toks = gen.ptr_split(rec.at)
        members = toks[-1:]
    if not members: return False
    def allofs(x, fuel=30):
        if fuel <= 0: return
        if isinstance(x, list):
            for y in x: yield from allofs(y, fuel - 1)
        elif isinstance(x, dict):
            if isinstance(x.get("allOf"), list) and len(x["allOf"]) >= 2: yield x["allOf"]
            if isinstance(x.get("$ref"), str):
                try: yield from allofs(gen.resolve_ref(doc, x["$ref"]), fuel - 1)
                except Exception: pass
            for k, v in x.items():
                if k not in ("default", "enum", "const", "examples", "definitions", "$defs"): yield from allofs(v, fuel - 1)
    def declares(m, fuel=6, member=None):
        while isinstance(m, dict) and "$ref" in m and fuel > 0:
            try: m = gen.resolve_ref(doc, m["$ref"])
            except Exception: return None
            fuel -= 1
        return (m.get("properties") or {}).get(member) if isinstance(m, dict) else None
    def has_not(x, fuel=6):
        """the declaration carries a deny list: directly, behind a reference, or inside a nullable oneOf / anyOf wrapper"""
        if fuel <= 0 or not isinstance(x, dict): return False
        if "not" in x: return True
        if isinstance(x.get("$ref"), str):
            try: return has_not(gen.resolve_ref(doc, x["$ref"]), fuel - 1)
            except Exception: return False
        return any(has_not(b, fuel - 1) for k in ("oneOf", "anyOf", "allOf") for b in (x.get(k) or []) if isinstance(b, dict))
    for member in members:
        for branches in allofs(S):
            ds = [d for d in (declares(b, 6, member) for b in branches) if isinstance(d, dict)]
            if len(ds) >= 2 and any(has_not(d) for d in ds): return True
    return False

def flatten_unions(dump):
    """ids of the structs whose members are ALL flattened, defaulted Option<struct>: what flattened_union_struct builds"""
    es = irutil.entries(dump); out = set()
    for i, e in es.items():
        if e["kind"] == "struct" and e["props"] and all(p.get("rename") == "flatten" and p["state"] == "optional" and
                                                           es.get(p["type_id"], {}).get("kind") == "option" for p in e["props"]):
            out.add(i)
    return out

def _lost_members(inp, out):
    """some object of the document comes back without one of its members"""
    if isinstance(inp, dict) and isinstance(out, dict):
        return any(k not in out for k in inp) or any(_lost_members(v, out[k]) for k, v in inp.items() if k in out)
    if isinstance(inp, list) and isinstance(out, list): return any(_lost_members(a, b) for a, b in zip(inp, out))
    return False

def pred_flatten_union(rec, doc):
    fu = flatten_unions(rec.case.dump)
    if not fu or not (irutil.reachable(rec.case.dump, rec.tid) & fu): return False
    st, parts = m3.norm_real("de", rec.ans["de"])
    return st == "ok" and bool(parts) and _lost_members(rec.value, json.loads(parts[0]))

PREDICATES = {"C05-allof-not-dropped": pred_allof_not_dropped, "C05-anyof-flatten-accepts-any": pred_flatten_union, "C05-bool-enum": pred_bool_enum, "C05-struct-seq-form": pred_struct_seq_form,
              "C05-adjacent-closed-wrapper": pred_adjacent_closed_wrapper, "C05-buffered-tag-index": pred_buffered_tag_index,
              "C05-const-ignored": lambda rec, doc: pred_const_ignored(rec, doc) or pred_const_ignored_elsewhere(rec, doc), "C05-unit-variant-map-form": pred_unit_variant_map_form,
              "C05-variant-shared-inline-type": pred_variant_shared_type}


# ------------------------------------------------------------------------------------------ syntactic half (M2)
def syntactic(ctx, st, bc):
    """no public field / From<inner> / derived Deserialize on a constrained newtype: the property on the real syn summary,
    and the Render model against it (projection: newtype items' fields, impls, derives)"""
    ok = [c for c in bc if c.dump and c.parses and c.render == "ok"]
    real = m2.real_summaries([c.code for c in ok]) if ok else []
    model = m2.model_summaries([(c.dump, {}) for c in ok]) if (ok and st["driver_ok"]) else [None] * len(ok)
    fails = []; dis = []; items = 0; constrained = 0
    for c, R, M in zip(ok, real, model):
        nm = irutil.named(c.dump)
        for it in R["items"]:
            if it["kind"] != "newtype": continue
            e = nm.get(it["name"], (None, None))[1]
            if not e or e["kind"] != "newtype": continue
            items += 1
            if e["constraints"] is None: continue
            constrained += 1
            cl = []
            impls = set(m2.norm(it["impls"])); der = set(m2.norm(it["derives"]))
            if any(f["pub"] for f in it["fields"]): cl.append("public-field")
            inner = m2.norm(it["fields"][0]["ty"]) if it["fields"] else ""
            if "From<%s>" % inner in impls or any(i.startswith("From<") and i not in ("From<&Self>", "From<&%s>" % it["name"]) for i in impls):
                cl.append("From<inner>")
            if "::serde::Deserialize" in der: cl.append("derived-Deserialize")
            if not any(i.startswith("Deserialize<") for i in impls): cl.append("no-checked-Deserialize")
            if cl: fails.append((c, it["name"], cl, e["constraints"]))
        if M is not None:
            d = [x for x in m2.diff_case(R, M) if x[1] in ("presence", "kind", "fields", "impls", "derives", "pub")
                 and any(i["name"] == x[0] and i["kind"] == "newtype" for i in R["items"] + M["items"])]
            if d: dis.append({"case": c.tag, "input": c.request, "diffs": [list(map(str, x))[:4] for x in d[:3]]})
        elif st["driver_ok"]:
            dis.append({"case": c.tag, "input": c.request, "diffs": ["model could not read the IR dump"]})
    return {"cases": len(ok), "newtypes": items, "constrained": constrained, "fails": fails, "disagreements": dis}


# ------------------------------------------------------------------------------------------ run
def requests_of(recs):
    reqs = []; where = []
    for r in recs:
        payload = J(r.value)
        ops = OPS if (r.sw and isinstance(r.value, str)) else ("de",)
        for op in ops:
            reqs.append((r.case, r.ref, op, payload)); where.append((r, op))
    return reqs, where


def evaluate(recs):
    """the property on the compiled code's answers -> tallies, survivors, string-conversion failures"""
    per = {k: {"applied": 0, "oracle_invalid": 0, "killed": 0, "survived": 0, "oracle_valid": 0, "other": 0} for k in KINDS}
    obs = {}; valid = {"instances": 0, "accepted": 0, "rejected": 0, "other": 0}
    survivors = []; strfail = []; rejected_valid = []; oracle_errors = 0; dropped = 0; enf_stricter = []
    for r in recs:
        if r.ans is None: continue
        de = m3.norm_real("de", r.ans["de"])
        if not isinstance(r.verdict, bool): oracle_errors += 1
        elif r.kind == "valid":
            if r.verdict is True and r.enf_ok is not True: enf_stricter.append(r)
            if r.verdict is not True: dropped += 1
            elif de[0] in m3.SKIP_REAL: pass
            else:
                valid["instances"] += 1
                if de[0] in ("ok", "ok?"): valid["accepted"] += 1
                elif de[0] == "err": valid["rejected"] += 1; rejected_valid.append(r)
                else: valid["other"] += 1
        elif r.kind.startswith("obs:"):
            o = obs.setdefault(r.kind[4:], {})
            k = "oracle_%s/compiled_%s" % ("valid" if r.verdict else "invalid", de[0])
            o[k] = o.get(k, 0) + 1
        elif de[0] not in m3.SKIP_REAL:
            p = per[r.kind]; p["applied"] += 1
            if r.verdict: p["oracle_valid"] += 1
            else:
                p["oracle_invalid"] += 1
                if de[0] == "err": p["killed"] += 1
                elif de[0] in ("ok", "ok?"): p["survived"] += 1; survivors.append(r)
                else: p["other"] += 1
        if r.sw and isinstance(r.value, str) and de[0] not in m3.SKIP_REAL:
            for op in STR_OPS:
                t = m3.norm_real(op, r.ans[op])
                if t[0] in m3.SKIP_REAL: continue
                if t != de: strfail.append((r, op))
    return {"per": per, "obs": obs, "valid": valid, "survivors": survivors, "strfail": strfail,
            "rejected_valid": rejected_valid, "oracle_errors": oracle_errors, "dropped": dropped, "enf_stricter": enf_stricter}


def _refs(s, acc):
    if isinstance(s, dict):
        for k, v in s.items():
            if k == "$ref" and isinstance(v, str): acc.add(v)
            else: _refs(v, acc)
    elif isinstance(s, list):
        for x in s: _refs(x, acc)


def reduce_case(rec, doc):
    """minimise the failing case: the target's schema as the root of a document holding only the definitions it reaches;
    kept only if the failure reproduces on the freshly compiled smaller case. -> (input, type, schema pointer)"""
    orig = (rec.case.request, rec.ref, rec.ptr)
    try:
        S = doc if rec.ptr is None else gen.ptr_get(doc, rec.ptr[1:])
        keep = {}; work = [{k: v for k, v in S.items() if k not in ("definitions", "$defs")} if rec.ptr is None else S]
        while work:
            acc = set(); _refs(work.pop(), acc)
            for r in acc:
                if r == "#": return orig
                for key in ("definitions", "$defs"):
                    pre = "#/%s/" % key
                    if r.startswith(pre):
                        n = gen.ptr_unescape(r[len(pre):])
                        if (key, n) not in keep and n in doc.get(key, {}):
                            keep[(key, n)] = doc[key][n]; work.append(doc[key][n])
        if rec.ptr is None:
            small = {k: v for k, v in S.items() if k not in ("definitions", "$defs")}; key = "#"
        else:       # keep the definition a definition (a title-only root union takes another path through typify)
            dkey, name = gen.ptr_split(rec.ptr[1:])
            keep[(dkey, name)] = S; key = "def:" + name
            small = {"title": "Wrapper", "type": "object", "properties": {"v": {"$ref": rec.ptr}}}
        for (dk, n), d in keep.items(): small.setdefault(dk, {})[n] = d
        if len(json.dumps(small)) >= len(json.dumps(doc)): return orig
        b = Batch("c05_reduce", assertions=False, ops=("de",), ops_for="all", verbose=False)
        c = b.add_case([{"root": small}], {}, tag="reduced"); b.prepare(); b.build()
        tid = (c.dump or {}).get("ref_to_id", {}).get(key)
        if not c.compiled or tid is None: return orig
        ok = m3.norm_real("de", b.run([(c, tid, "de", J(rec.value))])[0])[0] == "ok"
        bad = gen.run_oracle([{"doc": enf(small), "schema": rec.ptr, "value": rec.value}])[0] is False
        e = irutil.entries(c.dump)[tid]
        return ({"settings": {}, "calls": [{"root": small}]}, e["name"] if e["kind"] in NAMED else tid, rec.ptr) if (ok and bad) else orig
    except Exception:
        return orig


def run(ctx):
    st = vlib.proof_stage(ctx, "C05", PROOF_TARGETS + ["TypifyModel.Proofs.Tagging", "TypifyModel.Proofs.ConvertEnum"],
                          PROOF_FILES + ["Proofs/Tagging.lean", "Proofs/ConvertEnum.lean"], slices=["ir", "tag", "enum"])
    # what the `enum` keyword becomes (variants of a string enum, admitted values of a typed enumeration, Option for null):
    # convert_enum_string / convert_typed_enum / convert_unknown_enum against Model/ConvertEnum.lean (M0)
    import enumstage
    estats, edis = enumstage.stage(ctx) if st["driver_ok"] else ({"ran": False}, [])
    ctx.log("enumerations M0: %s disagreements=%d" % (estats, len(edis)))
    if edis:
        st["broken"].append("correspondence M0 (convert_enum_string / typed / unknown vs Model/ConvertEnum.lean) disagrees on %d of %d schemas, first: %s"
                            % (len(edis), estats.get("compared", 0), json.dumps(edis[0])[:500]))
    # which tagging mode, tag, content member and variant names a union gets: enums.rs against Model/Tagging.lean (M0)
    import tagstage
    tstats, tdis = tagstage.stage(ctx, ctx.tier == "thorough") if st["driver_ok"] else ({"ran": False}, [])
    ctx.log("union shape M0: %s disagreements=%d" % (tstats, len(tdis)))
    if tdis:
        st["broken"].append("correspondence M0 (convert_one_of / enums.rs tagging detection vs Model/Tagging.lean) disagrees on %d of %d requests, first: %s"
                            % (len(tdis), tstats.get("requests", 0), json.dumps(tdis[0])[:600]))
    if st["proof_ok"]:
        aok, ax = vlib.audit(ctx, "C11")          # FromStr/TryFrom = Deserialize is C11's theorem set
        st.setdefault("axioms", {}).update(ax)
        if not aok: st["broken"].append("axiom audit (C11 theorems used by C05) failed: %r" % ax)
    thorough = ctx.tier == "thorough"
    cs = cases(ctx)
    docs = {tag: doc for tag, doc, _ in cs}
    b = Batch(ctx, assertions=False, ops=OPS, ops_for="all")
    bc = []
    for tag, doc, probes in cs:
        st_ = SETTINGS_FOR.get(tag, {})
        c = b.add_case([{"root": doc}], st_, tag=tag); c.settings = st_; c.probes = probes; bc.append(c)
    b.prepare()
    recs = []
    for c in bc:
        big = c.tag.endswith(("github.json", "vega.json"))
        rs = make_records(ctx, c, docs[c.tag], c.probes, (24 if big else 40) if thorough else 10, (2 if big else 5) if thorough else 3)
        c.ops_types = sorted({r.ref for r in rs}, key=str)
        recs += rs
    b.build()
    # a hand-written case is there to be judged: output that does not compile (or a schema that is no longer ingested) leaves
    # its constraints undecided
    undecided = [(c.tag, (c.calls or ["none"])[0] if not c.dump or not (c.calls and c.calls[0].startswith("ok")) else
                  "rustc: " + "; ".join(str(e.get("message")) for e in (c.rustc_errors or [])[:2]))
                 for c in bc if c.tag.startswith("hand:") and not c.compiled and not getattr(c, "skipped", False)]
    recs = [r for r in recs if r.case.compiled]
    classify(recs, docs)
    reqs, where = requests_of(recs)
    ctx.log("cases=%d ingested=%d compiled=%d target types=%d records=%d requests=%d" % (
        len(bc), sum(1 for c in bc if c.dump), sum(1 for c in bc if c.compiled),
        len({(id(r.case), r.ref) for r in recs}), len(recs), len(reqs)))
    live = [c for c in bc if c.dump]
    if st["driver_ok"]:
        r = m3.compare(b, live, reqs)
    else:
        r = {"real": b.run(reqs), "model": [None] * len(reqs), "disagreements": [], "skipped_model": 0, "skipped_real": 0, "real_status": {}}
    # serde reads identifiers from buffered Content more laxly (integer variant index); Model/Serde.lean has no notion of
    # buffering: requests with an integer at the tag member of an internally/adjacently tagged enum are outside its fragment
    gap = [d for d in r["disagreements"] if isinstance(d[0][1], str) and d[0][2] == "de" and
           int_tag_positions(d[0][0].dump, d[0][0].type(d[0][1])["id"], json.loads(d[0][3]))]
    r["disagreements"] = [d for d in r["disagreements"] if d not in gap]
    for (rec, op), ra, ma in zip(where, r["real"], r["model"]):
        if rec.ans is None: rec.ans = {}; rec.model = {}
        rec.ans[op] = ra; rec.model[op] = ma
    ev = evaluate(recs)
    # ---- translation validation of the schema-level theorem (C05E.enc_sound): encB on the real (schema, IR dump) pairs.
    # `frag` = the definition's schema is inside encB's fragment (syntactic); frag and not enc = a constraint the schema
    # states is not represented in the type (or the type has a shape encB does not recognise): the obligation is open
    enc_stats = {"enc_true": 0, "in_fragment": 0, "outside_fragment": 0, "schema_unsupported": 0}; enc_open = []
    enc_cases = [c for c in live if c.compiled]          # every call succeeded and the output compiles: the dump is complete
    if st["driver_ok"] and enc_cases:
        lines = []
        for k, c in enumerate(enc_cases):
            lines.append("ir c%d %s" % (k, json.dumps({"dump": c.dump, "settings": {}, "doc": docs[c.tag]}))); lines.append("allenc c%d" % k)
        try:
            out = m2.run_bin(vlib.drv("ir"), lines)
            for k, c in enumerate(enc_cases):
                rr = json.loads(out[2 * k + 1]) if out[2 * k] == "ok" else {"defs": {}, "unsupported": []}
                enc_stats["schema_unsupported"] += len(rr["unsupported"])
                for key, v in rr["defs"].items():
                    if key in rr["unsupported"]: continue
                    if v["frag"]: enc_stats["in_fragment"] += 1
                    else: enc_stats["outside_fragment"] += 1
                    if v["enc"]: enc_stats["enc_true"] += 1
                    elif v["frag"] and v["rid"] is not None: enc_open.append((c, key))
        except Exception as e:
            ctx.notes.append("allenc unavailable: %r" % (e,))
    ctx.log("encB on real dumps: %r; in fragment but not enforced: %d %s" % (enc_stats, len(enc_open), [(c.tag, k) for c, k in enc_open[:8]]))
    with open(os.path.join(vlib.CACHE, "c05_survivors_%s.json" % ctx.tier), "w") as f:      # debugging aid only
        json.dump({"survivors": [dict(x.brief(), at=x.at, base=x.base, ptr=x.ptr) for x in ev["survivors"]],
                   "panics": [x.brief() for x in recs if x.ans and x.ans["de"].startswith(("panic", "abort", "timeout"))][:50],
                   "disagreements": [{"case": q[0].tag, "type": q[1], "op": q[2], "payload": q[3], "compiled": ra, "model": ma}
                                     for q, ra, ma in r["disagreements"]]}, f, indent=1, ensure_ascii=False)
    syn = syntactic(ctx, st, bc)
    if ev["enf_stricter"]:
        ctx.notes.append("the enforced projection rejected %d S-valid instances (it must only weaken S): e.g. %s" % (
            len(ev["enf_stricter"]), json.dumps(ev["enf_stricter"][0].brief(), ensure_ascii=False)[:400]))
    # ---- classify failures
    findings = {f["id"]: f for f in vlib.load_findings("C05")}
    known_hits = {}; new = []; attributed = {}
    for rec in ev["survivors"]:
        hit = None
        for fid, f in findings.items():
            try:
                if PREDICATES.get(fid) and PREDICATES[fid](rec, docs[rec.case.tag]): hit = fid; break
            except Exception: pass
        if hit: known_hits[hit] = known_hits.get(hit, 0) + 1; attributed[id(rec)] = hit
        else: new.append(rec)
    for fid, f in findings.items():
        if any(x.case.tag == "finding:" + fid for x in ev["survivors"] if x not in new):
            vlib.known(ctx, f)
        else:       # the witness no longer fails: the entry suppresses nothing any more
            ctx.notes.append("known finding %s no longer reproduces on its witness" % fid)
            new += [x for x in ev["survivors"] if x not in new and attributed.get(id(x)) == fid]
            known_hits.pop(fid, None)
    fok, _ = vlib.lean_build(ctx, [FINDINGS_TARGET]) if st["proof_ok"] else (True, "")
    if not fok:
        ctx.notes.append("Proofs/C05Findings.lean (refutation witness of C05-struct-seq-form) no longer compiles: the finding may have been repaired in the model")
    broken = list(st["broken"])
    if undecided:
        broken.append("hand-written cases whose generated code could not be exercised: " + "; ".join("%s (%s)" % u for u in undecided[:4]))
    if r["disagreements"]:
        broken.append("correspondence M3 (de / string conversions): model and compiled code disagree on %d requests" % len(r["disagreements"]))
    if syn["disagreements"]:
        broken.append("correspondence M2 (render of newtypes): model and implementation disagree on %d cases" % len(syn["disagreements"]))
    # an open definition is attributed to a listed finding by the finding's mechanism predicate on the dump
    def enc_attribute(c, key):
        es = irutil.entries(c.dump)
        t = c.dump["ref_to_id"].get("#" if key == "#" else "def:" + key)
        seen = set()
        def reach(i, fuel=60):
            """entries reachable from the definition's type (members, variants, items)"""
            if i in seen or i not in es or fuel <= 0: return
            seen.add(i); e = es[i]
            for k in ("type_id", "id", "key", "value"):
                if isinstance(e.get(k), int): reach(e[k], fuel - 1)
            for p in e.get("props") or []: reach(p["type_id"], fuel - 1)
            for v in e.get("variants") or []:
                dt = v["details"]
                if isinstance(dt, dict):
                    if "item" in dt: reach(dt["item"], fuel - 1)
                    for x in dt.get("tuple") or []: reach(x, fuel - 1)
                    for p in dt.get("struct") or []: reach(p["type_id"], fuel - 1)
            for x in e.get("ids") or []: reach(x, fuel - 1)
        if t is not None: reach(t)
        sch = docs[c.tag] if key == "#" else (docs[c.tag].get("definitions") or docs[c.tag].get("$defs") or {}).get(key, {})
        if '"const"' in json.dumps({k: v for k, v in sch.items() if k != "definitions"} if isinstance(sch, dict) else sch) \
                and "C05-const-ignored" in findings: return "C05-const-ignored"
        if (seen & flatten_unions(c.dump)) and "C05-anyof-flatten-accepts-any" in findings: return "C05-anyof-flatten-accepts-any"
        pairs = shared_variant_types(c.dump, only=seen)
        for i in seen:
            e = es[i]
            if e["kind"] == "enum" and isinstance(e.get("tag"), dict):
                tg = (e["tag"].get("adjacent") or [e["tag"].get("internal")])[0]
                if any(tg == p[0] for p in pairs) and "C05-variant-shared-inline-type" in findings: return "C05-variant-shared-inline-type"
                if "adjacent" in e["tag"] and not e.get("deny") and '"additionalProperties": false' in json.dumps(docs[c.tag]) \
                        and "C05-adjacent-closed-wrapper" in findings: return "C05-adjacent-closed-wrapper"
        return None
    enc_known = {}
    for c, k in list(enc_open):
        fid = enc_attribute(c, k)
        if fid: enc_known[fid] = enc_known.get(fid, 0) + 1; enc_open.remove((c, k))
    if enc_open:
        # the hypothesis of C05E.enc_sound is false on a real (schema, IR) pair inside encB's fragment: a constraint the schema
        # states is not represented in the type typify generated for it
        broken.append("translation validation (Enc.encB, hypothesis of C05E.enc_sound) fails on %d definitions inside the fragment: %s"
                      % (len(enc_open), ", ".join("%s:%s" % (c.tag, k) for c, k in enc_open[:6])))
    ctx.log("valid instances: %r; mutants: %s; survivors=%d (known %d) string-conversion failures=%d syntactic failures=%d; M3 disagreements=%d M2 disagreements=%d" % (
        ev["valid"], " ".join("%s=%d/%d" % (k, v["killed"], v["oracle_invalid"]) for k, v in ev["per"].items()),
        len(ev["survivors"]), sum(known_hits.values()), len(ev["strfail"]), len(syn["fails"]), len(r["disagreements"]), len(syn["disagreements"])))
    seen = set(); failing_input = False
    for rec in new:
        key = (rec.case.tag, rec.ref, rec.kind)
        failing_input = True
        if key in seen or len(ctx.violations) >= 6: continue
        seen.add(key)
        inp, ty, sp = reduce_case(rec, docs[rec.case.tag])
        vlib.violation(ctx, {"property": "C05", "kind": "implementation violates the property", "clause": "invalid-mutant-accepted",
                             "input": inp, "case": rec.case.tag, "type": ty, "schema_pointer": sp,
                             "mutator": rec.kind, "description": rec.desc, "changed_at": rec.at, "valid_instance": rec.base,
                             "instance": rec.value, "oracle_valid": False, "oracle_valid_full_schema": rec.full,
                             "compiled": rec.ans["de"], "model": rec.model.get("de"), "broken_obligations": broken})
    for rec, op in ev["strfail"]:
        key = (rec.case.tag, rec.ref, op)
        failing_input = True
        if key in seen or len(ctx.violations) >= 6: continue
        seen.add(key)
        vlib.violation(ctx, {"property": "C05", "kind": "implementation violates the property", "clause": "string-conversion-disagrees:" + op,
                             "input": rec.case.request, "case": rec.case.tag, "type": rec.ref, "schema_pointer": rec.ptr,
                             "instance": rec.value, "compiled": rec.ans, "model": rec.model, "broken_obligations": broken})
    for c, item, cl, cons in syn["fails"]:
        key = (tuple(cl),)
        failing_input = True
        if key in seen or len(ctx.violations) >= 6: continue
        seen.add(key)
        vlib.violation(ctx, {"property": "C05", "kind": "implementation violates the property", "clause": "syntactic:" + ",".join(cl),
                             "input": c.request, "case": c.tag, "item": item, "constraints": cons, "broken_obligations": broken})
    if broken and not failing_input:
        vlib.violation(ctx, {"property": "C05", "kind": "property no longer shown to hold", "broken_obligations": broken,
                             "first_disagreements": [{"case": q[0].tag, "input": q[0].request, "type": q[1], "op": q[2], "payload": q[3],
                                                      "compiled": ra, "model": ma} for q, ra, ma in r["disagreements"][:3]] + syn["disagreements"][:2],
                             "undecided_cases": [{"case": t_, "reason": why_, "input": next((c.request for c in bc if c.tag == t_), None)} for t_, why_ in undecided[:3]],
                             "lean_log": st.get("log", "")}, no_input=True)
    # ---- evidence
    mutants_n = sum(v["applied"] for v in ev["per"].values())
    distinct = len({(rec.case.tag, str(rec.ref), json.dumps(rec.value, sort_keys=True)) for rec in recs
                    if rec.ans is not None and not rec.kind.startswith("obs:") and (rec.kind != "valid" or rec.verdict is True)
                    and isinstance(rec.verdict, bool)})
    samples = [x.brief() for x in ([q for q in recs if q.kind == "length" and q.verdict is False][:2] +
                                   [q for q in recs if q.kind in ("tag", "required", "enum") and q.verdict is False][:3] + ev["survivors"][:2])]
    descr = gen.merge_descriptions([gen.describe(docs[c.tag]) for c in bc if c.compiled])
    cov = {"union_shape_M0": tstats, "enumerations_M0": estats, "obligations": st["obligations"], "discharged": st["discharged"],
           "checker_cmd": "cd /verif/lean && lake build TypifyModel.Proofs.C05 && lake env lean TypifyModel/Audit/C05.lean && lake env lean TypifyModel/Audit/C11.lean",
           "trusted_base": vlib.TRUSTED_BASE + [
               "serde_derive/serde_json/regress behaviour is modelled (Model/Serde.lean), tied by M3 to the compiled generated code",
               "the schema -> IR step (convert.rs) is not modelled: that a schema constraint reaches the IR is tied only by the differential "
               "validator-vs-compiled-code oracle over the generated cases (jsonschema Draft7Validator 4.x, tools/oracle.py)",
               "tvh_m2 (syn summary of the emitted items), rustc"],
           "axioms": st.get("axioms", {}),
           "evaluations": len(reqs), "distinct_nontrivial": distinct,
           "enc_translation_validation": dict(enc_stats, open_definitions=[[c.tag, k] for c, k in enc_open[:20]], open_attributed_to_findings=enc_known,
                                              theorem="C05E.enc_sound: AllEnc & encB(S, T) & de T j = ok => validE S j != some false (all documents, IRs, schemas, types, JSON, fuels)"),
           "rule": "cases = hand-written schemas (one per enforced construct, multi-byte boundaries), repository fixtures, gen_universe(FEATURE_SETS['c05']); "
                   "per root/definition type: hand probes + gen_boundary + gen_valid instances, each mutated by the eight targeted mutators (twice) and a "
                   "deny-list mutator, every instance and mutant judged by the independent validator; one evaluation = one operation (de / parse / try_from) "
                   "on one document; distinct non-trivial = distinct (case, type, document) triples that are oracle-valid instances or mutants (observation probes excluded)",
           "samples": samples,
           "cases": len(bc), "cases_ingested": len(live), "cases_compiled": sum(1 for c in bc if c.compiled),
           "target_types": len({(id(q.case), q.ref) for q in recs}),
           "valid_instances": ev["valid"], "valid_instances_rejected_note": "oracle-valid instances the generated type rejects are C02's subject; counted, not alarmed",
           "valid_instances_rejected_samples": [x.brief() for x in ev["rejected_valid"][:4]],
           "generated_instances_dropped_by_oracle": ev["dropped"], "oracle_errors": ev["oracle_errors"],
           "instances_valid_for_S_but_not_for_EnfS": len(ev["enf_stricter"]),
           "mutants": mutants_n, "mutators": ev["per"],
           "observations_outside_the_mutators": ev["obs"],
           "string_wire_probes": sum(1 for q in recs if q.sw and isinstance(q.value, str) and q.ans is not None),
           "string_conversion_failures": len(ev["strfail"]),
           "syntactic": {k: syn[k] for k in ("cases", "newtypes", "constrained")}, "syntactic_failures": len(syn["fails"]),
           "traces_validated_against_impl": len(reqs) - r["skipped_model"] - r["skipped_real"],
           "model_disagreements": len(r["disagreements"]), "model_out_of_fragment": r["skipped_model"], "compiled_skipped": r["skipped_real"],
           "model_gap_skipped": len(gap), "m2_disagreements": len(syn["disagreements"]), "compiled_status": r.get("real_status", {}),
           "impl_oracle_failures_known": known_hits, "impl_oracle_failures_new": len(new),
           "schema_constructs": descr.get("constructs"), "batch_timings": b.timings}
    vlib.write_evidence(ctx, "proof", cov, [
        "serde/serde_json/regress are third-party: their behaviour on the emitted items is modelled and validated differentially (M3), not verified",
        "the theorems are about `de` on the IR; that typify's conversion puts every listed schema constraint into the IR is established by the oracle run only "
        "(known finding C05-bool-enum is exactly a constraint lost in that step)",
        "struct sequence form ([..] for an object) and serde's [tag, ...] forms are outside the eight mutators: observed and counted, not alarmed",
        "patterns outside the Lean matcher's subset and natives (uuid, chrono) answer `unsupported` on the model side: exercised on the implementation only"])


# ------------------------------------------------------------------------------------------ replay
def replay(ctx, path):
    obj = json.load(open(path))
    if "input" not in obj:
        print("replay names broken obligations only:", obj.get("broken_obligations"))
        for d in obj.get("first_disagreements", []): print(json.dumps(d, ensure_ascii=False)[:600])
        return 1
    doc = obj["input"]["calls"][0]["root"]
    clause = obj.get("clause", "")
    if clause.startswith("syntactic:"):
        a = m2.tvh_ir([obj["input"]])[0]
        if not a.get("parses"): print("output does not parse"); return 1
        class C: pass
        c = C(); c.dump, c.parses, c.render, c.code, c.tag, c.request = a["dump"], a["parses"], a["render"], a["code"], "replay", obj["input"]
        syn = syntactic(ctx, {"driver_ok": True}, [c])
        for _, item, cl, cons in syn["fails"]: print("item", item, "constraints", cons, "fails:", cl)
        print("M2 disagreements:", syn["disagreements"][:2])
        return 1 if syn["fails"] or syn["disagreements"] else 0
    b = Batch("c05_replay", assertions=False, ops=OPS, ops_for="all")
    c = b.add_case(obj["input"]["calls"], obj["input"]["settings"], tag="replay"); c.settings = obj["input"]["settings"]
    b.prepare(); c.ops_types = [obj["type"]]; b.build()
    if not c.compiled: print("the case does not compile:", c.skipped, c.rustc_errors[:1]); return 1
    v = obj["instance"]
    verdict = gen.run_oracle([{"doc": enf(doc), "schema": obj.get("schema_pointer"), "value": v}])[0]      # against Enf S
    ops = OPS if isinstance(v, str) else ("de",)
    reqs = [(c, obj["type"], op, J(v)) for op in ops]
    r = m3.compare(b, [c], reqs)
    print("instance:", J(v), "| valid for the enforced projection of the schema (oracle):", verdict)
    for q, ra, ma in zip(reqs, r["real"], r["model"]): print(q[2], "| compiled:", ra, "| model:", ma)
    a = {q[2]: m3.norm_real(q[2], ra) for q, ra in zip(reqs, r["real"])}
    bad = verdict is False and a["de"][0] == "ok"
    if clause.startswith("string-conversion"):
        bad = any(a[op] != a["de"] for op in STR_OPS if op in a and a[op][0] not in m3.SKIP_REAL)
    print("violation reproduced" if bad else "not reproduced", "| model disagreements:", len(r["disagreements"]))
    return 1 if bad or r["disagreements"] else 0

"""C08 — arbitrary names -> valid identifiers, exact wire names.
Theorems: lean/TypifyModel/Proofs/C08.lean (sanitize_ident, recase_wire, recase_ok, variants_distinct, variants_ident,
variant_wire, variants_no_panic_partial, fields_wire, fields_wire_distinct, fields_ident, fields_distinct_partial,
fields_collide, snake_name_fixed, snake_names_no_collision, fields_extra_distinct_partial, defs_ident, defs_distinct_partial) over the model lean/TypifyModel/Model/Names.lean.
Correspondence: slice c08 (heck, sanitize, recase, syn's identifier test, the real enum / struct / add_ref_types paths
with the emitted items parsed by syn  vs  the Lean model). Non-ASCII names: implementation + oracle only (exploration)."""
import json, itertools, os, re, glob, threading
import vlib

PROOF_TARGETS = ["TypifyModel.Proofs.C08"]
PROOF_FILES = ["Proofs/C08.lean", "Proofs/Lemmas/NamesLemmas.lean", "Proofs/Lemmas/NamesFixed.lean"]
FINDINGS_TARGET = "TypifyModel.Proofs.C08Findings"
THEOREMS = ["sanitize_ident", "recase_wire", "recase_ok", "variants_distinct", "variants_ident", "variant_wire",
            "variants_no_panic_partial", "fields_wire", "fields_wire_distinct", "fields_ident",
            "fields_distinct_partial", "fields_collide", "snake_name_fixed",
            "snake_names_no_collision", "fields_extra_distinct_partial", "defs_ident", "defs_distinct_partial"]

# 16 symbols: lower, upper, the prefix letter, digit (XID_Continue only), '_' (XID_Continue only), '-', ''', space,
# symbols (incl. the '+' of the "+1" special case), and three non-ASCII: XID_Start lower-case letter, XID_Continue-only
# non-alphanumeric (U+00B7), a letter whose upper case is two characters
ALPHABET = ["a", "s", "A", "S", "x", "1", "_", "-", "'", " ", ".", "+", "$", "\u00e9", "\u00b7", "\u00df"]
SPECIALS = ["", "+1", "-1", "async", "_", "__", "self", "Self", "crate", "super", "r#x", "1", "-", "r#self", "'", "''",
            "x", "X", "x_", "X_", "_x", "foo-bar", "foo_bar", "fooBar", "FooBar", "foo bar", "FOO_BAR", "XMLHttpRequest",
            "won't and can't", "@timestamp", "Ipv6Net", "V6", "a1B", "ABCdE", "a{b}", "\"", "\\", "\t", "\u0000", "a\nb",
            "extra", "Extra", "EXTRA", "-extra", "extra-", "e'xtra", "_extra_", " extra", "+extra", "eXtra", "extras",
            "plus1", "minus1", "async_", "+1 ", " +1", "--1", "type", "ref", "1a", "a1", "A1a", "aA1", "1A", "aa_AA", "aAa"]
WEAK_KW = ["macro_rules", "union", "auto", "default", "raw", "safe", "gen", "static"]
KW_FALLBACK = ("abstract as async await become box break const continue crate do dyn else enum extern false final fn for if "
               "impl in let loop macro match mod move mut override priv pub ref return Self self static struct super trait "
               "true try type typeof unsafe unsized use virtual where while yield").split()
TRICKY = ["\u00df", "\u0130", "\u0149", "\u03a3", "\u03c3", "\u03c2", "\u01c5", "\ufb04", "\u00b2", "\u00b7", 
          "\u0345", "\u0301", "\u200d", "\u200c", "\u2118", "\u212e", "\u309b", "\u00aa", "\u00ba", "\u0660", "\u0966", 
          "\u4e2d", "\u6587", "\u3042", "\u0416", "\u0436", "\u00c9", "\u00e9", "\u0131", "\u017f", "\u1e9e", "\u2160", 
          "\u2170", "\U0001f600", "\U00010400", "\U00010428", "\u0e01", "\u0e31", "\u05d0", "\u0627", "\ua7b5", "\u1c80", 
          "\u10d0", "\u1c90", "\u24b6", "\u24d0", "\uff21", "\uff41", "\uff11", "\u203f", "\u2040", "\ufe33", "\uff3f", 
          "\u00a0", "\u2028", "\ufeff", "\u0387", "\u1369", "\u19da", "\u2054"]

def syn_keywords():
    """the keyword list of the syn version locked by /repo/Cargo.lock, read from its source"""
    ver = None
    try:
        lock = open(os.path.join(vlib.REPO, "Cargo.lock")).read()
        m = re.search(r'name = "syn"\nversion = "(2\.[^"]+)"', lock)
        ver = m.group(1) if m else None
    except OSError:
        pass
    for path in glob.glob(os.path.expanduser("~/.cargo/registry/src/*/syn-%s/src/ident.rs" % (ver or "2.*"))):
        src = open(path).read()
        m = re.search(r"fn accept_as_ident.*?=> false", src, re.S)
        if m:
            kws = [k for k in re.findall(r'"([A-Za-z_]+)"', m.group(0)) if k != "_"]
            if len(kws) > 30:
                return kws, path
    return KW_FALLBACK, "fallback list"

def is_ascii(s): return all(ord(c) < 128 for c in s)
def J(x): return json.dumps(x)

def single_requests(s):
    j = J(s)
    return ["sanitize snake " + j, "sanitize pascal " + j, "recase snake " + j, "recase pascal " + j,
            "snake " + j, "pascal " + j, "isident " + j, "variants [%s]" % j, "props [%s]" % j, "defs [%s]" % j]

def rand_ascii(rng, n):
    pool = "abcxyzABCXYZ019_-' .+$/#@!{}\"\\\t~"
    return "".join(rng.choice(pool) for _ in range(n))

def rand_unicode(rng, n):
    out = []
    for _ in range(n):
        r = rng.random()
        if r < .35: out.append(rng.choice("abcxABCX019_-' .+"))
        elif r < .65: out.append(rng.choice(TRICKY))
        else:
            lo, hi = rng.choice([(0x80, 0x24f), (0x250, 0x36f), (0x370, 0x52f), (0x590, 0x6ff), (0x900, 0xdff),
                                 (0x1e00, 0x1fff), (0x2000, 0x2bff), (0x3000, 0x30ff), (0x4e00, 0x4eff),
                                 (0xa640, 0xa7ff), (0xff00, 0xffef), (0x10400, 0x1044f), (0x1d400, 0x1d7ff),
                                 (0x1f300, 0x1f6ff)])
            out.append(chr(rng.randint(lo, hi)))
    return "".join(out)

def gen_strings(ctx):
    maxlen = 4 if ctx.tier == "thorough" else 3
    strs = ["".join(t) for n in range(1, maxlen + 1) for t in itertools.product(ALPHABET, repeat=n)]
    n_exh = len(strs)
    # one length more over the ASCII part of the alphabet (the model's domain): quick in every role, thorough
    # (371 293 strings) through recase/heck only
    asc = [a for a in ALPHABET if is_ascii(a)]
    longer = ["".join(t) for t in itertools.product(asc, repeat=maxlen + 1)]
    cheap = []
    if ctx.tier == "thorough": cheap = longer
    else: strs += longer
    kws, kwsrc = syn_keywords()
    KW_LOWER.update(k.lower() for k in list(kws) + KW_FALLBACK + WEAK_KW)
    kwcases = []
    # syn's list (read from its source), the model's list (KW_FALLBACK is a copy of Names.keywords) and the weak keywords
    for k in dict.fromkeys(list(kws) + KW_FALLBACK + WEAK_KW):
        kwcases += [k, k.capitalize(), k.upper(), "_" + k, k + "_", "-" + k, k + "-", " " + k, k + "'", "'" + k,
                    k[0].upper() + k[1:], k + "1", "1" + k, "r#" + k, k.lower()]
    nrand = 20000 if ctx.tier == "thorough" else 2500
    rnd = [rand_ascii(ctx.rng, ctx.rng.randint(5, 40)) for _ in range(nrand)]
    rnd += [rand_unicode(ctx.rng, ctx.rng.randint(1, 24)) for _ in range(nrand)]
    seen = set(); out = []
    for s in SPECIALS + kwcases + strs + rnd:
        if s not in seen:
            seen.add(s); out.append(s)
    return out, cheap, {"exhaustive_len": maxlen, "exhaustive_strings": n_exh, "ascii_only_len": maxlen + 1,
                 "ascii_only_strings": len(longer), "ascii_only_roles": "recase+heck" if cheap else "all", "keywords": len(kws) + len(WEAK_KW),
                 "keyword_source": kwsrc, "keyword_cases": len(set(kwcases)), "random_ascii": nrand, "random_unicode": nrand}

def run_par(side, lines, tag, n=12, min_lines=4000):
    """run_side over chunks in parallel processes; answers in request order"""
    if len(lines) < min_lines:
        return vlib.run_side(side, "c08", lines, "%s_%s" % (tag, side))
    k = (len(lines) + n - 1) // n
    chunks = [lines[i:i + k] for i in range(0, len(lines), k)]
    res = [None] * len(chunks); errs = []
    def work(i):
        try: res[i] = vlib.run_side(side, "c08", chunks[i], "%s_%s_%d" % (tag, side, i))
        except Exception as e: errs.append(e)
    ts = [threading.Thread(target=work, args=(i,)) for i in range(len(chunks))]
    for t in ts: t.start()
    for t in ts: t.join()
    if errs: raise errs[0]
    out = []
    for c, r in zip(chunks, res):
        if len(r) != len(c): raise RuntimeError("line count mismatch on %s side" % side)
        out += r
    return out

def parse(ans):
    """canonical form of an answer: (kind, json value or None)"""
    if ans.startswith("ok "):
        try: return ("ok", json.loads(ans[3:]))
        except ValueError: return ("garbled", ans)
    return (ans, None)

def req_parts(line):
    kind, rest = line.split(" ", 1)
    case = None
    if kind in ("sanitize", "recase"):
        case, rest = rest.split(" ", 1)
    return kind, case, json.loads(rest)

def wire(pair): return pair[1] if pair[1] is not None else pair[0]

def oracle(line, ans):
    """the property itself on one implementation answer. Returns (failures [(kind, detail)], identifiers to be
    checked against Rust's identifier grammar)."""
    kind, case, arg = req_parts(line)
    k, v = parse(ans)
    fails = []; idents = []
    if k == "panic":
        return [("panic", None)], []
    if k.startswith("bad") or k == "garbled" or k == "unsupported":
        return [("bad-output", ans[:200])], []
    if kind == "sanitize" and k == "ok":
        idents.append(v)
    elif kind == "recase" and k == "ok":
        idn, rn = v
        idents.append(idn)
        if not ((rn is None and idn == arg) or (rn == arg and idn != arg)):
            fails.append(("wire", {"ident": idn, "rename": rn}))
    elif kind == "variants" and k == "ok":
        idents += [p[0] for p in v]
        if [wire(p) for p in v] != arg: fails.append(("wire", v))
        if len(set(p[0] for p in v)) != len(v): fails.append(("dup-variant", v))
    elif kind == "props" and k == "ok":
        keys = sorted(set(arg))
        idents += [p[0] for p in v]
        if sorted(wire(p) for p in v) != keys: fails.append(("wire", v))
        if len(set(p[0] for p in v)) != len(v): fails.append(("dup-field", v))
    elif kind == "propsx" and k == "ok":
        keys = sorted(set(arg))
        plain = [p for p in v if not isinstance(p[1], dict)]
        idents += [p[0] for p in v]
        if sorted(wire(p) for p in plain) != keys or len(v) != len(plain) + 1: fails.append(("wire", v))
        if len(set(p[0] for p in v)) != len(v): fails.append(("dup-field", v))
    elif kind == "defs" and k == "ok":
        names, n = v
        idents += names
        if len(names) != len(arg): fails.append(("wire", v))
        if len(set(names)) != len(names): fails.append(("dup-def", v))
    elif kind == "refunion" and k == "ok":
        # variant identifiers of an untagged enum over named types: valid Rust, one per definition, pairwise distinct
        idents += list(v)
        if len(v) != len(arg): fails.append(("wire", v))
        if len(set(v)) != len(v): fails.append(("dup-variant", v))
    return fails, idents

def nontrivial(line, ans):
    """a case is non-trivial when the implementation had to change a name (identifier differs from the JSON name /
    a rename is emitted), rejected it, or a collision/panic occurred"""
    kind, case, arg = req_parts(line)
    k, v = parse(ans)
    if k != "ok": return True
    if kind in ("sanitize", "snake", "pascal", "xpass"): return v != arg
    if kind == "recase": return v[1] is not None
    if kind == "isident": return not v
    if kind in ("variants", "props"): return any(p[1] is not None for p in v)
    if kind == "propsx": return any(isinstance(p[1], str) for p in v) or len(set(p[0] for p in v)) != len(v)
    if kind == "defs": return v[0] != arg
    return False

def compare(lines, impl, model):
    dis = []; unsupported = 0
    for l, a, b in zip(lines, impl, model):
        if b == "unsupported": unsupported += 1; continue
        if parse(a) != parse(b): dis.append({"input": l, "impl": a, "model": b})
    return dis, unsupported

KW_LOWER = set()
def pair_requests(ctx, strings, snake_of, pascal_of):
    """colliding pairs/triples: group the names on the model's own sanitize output (implementation's output for
    names outside the model's domain)"""
    budget = 12000 if ctx.tier == "thorough" else 1500
    reqs = []
    for table, kinds in ((pascal_of, ("variants", "defs")), (snake_of, ("props",))):
        groups = {}
        for s in strings:
            if s in table: groups.setdefault(table[s], []).append(s)
        gl = [g for g in groups.values() if len(g) > 1]
        ctx.rng.shuffle(gl)
        # groups that contain a keyword in one of its spellings come first and in full (the second naming pass, the
        # keyword suffix `_` and the rename decision meet there); then every group once while the budget lasts
        kw = lambda g: any(x.strip("_-' ").lower() in KW_LOWER for x in g)
        gl.sort(key=lambda g: 0 if kw(g) else 1)
        n = 0
        for g in gl:
            if n >= budget and not kw(g): break
            if kw(g) and len(g) <= 8:
                for i_ in range(len(g)):
                    for j_ in range(i_ + 1, len(g)):
                        for kd in kinds: reqs.append("%s %s" % (kd, J([g[i_], g[j_]]))); reqs.append("%s %s" % (kd, J([g[j_], g[i_]])))
                n += 1
                continue
            a = g[0]
            others = g[1:] if len(g) <= 4 else ctx.rng.sample(g[1:], 3)
            for b in others:
                for kd in kinds: reqs.append("%s %s" % (kd, J([a, b])))
                n += 1
            if len(g) >= 3 and ctx.rng.random() < .3:
                t = ctx.rng.sample(g, 3)
                for kd in kinds: reqs.append("%s %s" % (kd, J(t)))
            if ctx.rng.random() < .2:
                for kd in kinds: reqs.append("%s %s" % (kd, J([a, "zzz", g[1]])))
    # the flattened `extra` field next to properties that do / do not become `extra`
    ex = [s for s in strings if snake_of.get(s) == "extra"]
    for s in ex:
        reqs.append("propsx %s" % J([s]))
        reqs.append("propsx %s" % J([s, ctx.rng.choice(strings[:4000])]))
    for _ in range(budget // 6):
        reqs.append("propsx %s" % J(ctx.rng.sample(strings[:4000], ctx.rng.choice([1, 2, 3]))))
    # untagged unions over named definitions: the variant identifiers are what is left of the definition names once their common
    # prefix is cut off — keywords, digits, nothing at all
    stems = ["link", "Link", "my-type", "a", "node_", "x1", "get", "Value"]
    tails = ["self", "Self", "type", "crate", "super", "next", "1", "2nd", "", "-", "x", "fn", "Box", "a b"]
    for _ in range(max(40, budget // 12)):
        st = ctx.rng.choice(stems); sep = ctx.rng.choice(["-", "_", "", " "])
        ts = ctx.rng.sample(tails, ctx.rng.choice([2, 2, 3]))
        names = [st + sep + t for t in ts]
        if len(set(names)) == len(names) and "T" not in names: reqs.append("refunion %s" % J(names))
    # non-colliding lists for contrast
    pool = [s for s in strings[:4000]]
    for _ in range(budget // 4):
        t = ctx.rng.sample(pool, ctx.rng.choice([2, 3, 5]))
        for kd in ("variants", "props", "defs"): reqs.append("%s %s" % (kd, J(t)))
    seen = set(); out = []
    for r in reqs:
        if r not in seen: seen.add(r); out.append(r)
    return out

class Pred:
    """mechanism predicates of the known findings, evaluated from sanitize/xpass answers (model's when the name is
    in the model's domain, else the implementation's)"""
    def __init__(self): self.san = {}; self.xp = {}
    def need(self, names):
        return [n for n in names if ("snake", n) not in self.san or n not in self.xp]
    def load(self, names):
        names = sorted(set(self.need(names)))
        if not names: return
        l1 = []
        for n in names: l1 += ["sanitize snake " + J(n), "sanitize pascal " + J(n), "xpass " + J(n)]
        a = self._ask(l1)
        for i, n in enumerate(names):
            self.san[("snake", n)] = a[3 * i]; self.san[("pascal", n)] = a[3 * i + 1]; self.xp[n] = a[3 * i + 2]
        xs = sorted(set(self.xp[n] for n in names if ("pascal", self.xp[n]) not in self.san))
        b = self._ask(["sanitize pascal " + J(x) for x in xs])
        for x, r in zip(xs, b): self.san[("pascal", x)] = r
    def _ask(self, lines):
        if not lines: return []
        impl = run_par("impl", lines, "pred")
        try: model = run_par("model", lines, "pred")
        except Exception: model = ["unsupported"] * len(lines)
        out = []
        for a, b in zip(impl, model):
            src = b if b != "unsupported" else a
            out.append(parse(src)[1])
        return out
    def field_collision(self, names):
        ids = [self.san[("snake", n)] for n in sorted(set(names))]
        return len(set(ids)) != len(ids)
    def extra_collision(self, names):
        return any(self.san[("snake", n)] == "extra" for n in names)
    def def_collision(self, names):
        ids = [self.san[("pascal", n)] for n in names]
        return len(set(ids)) != len(ids)
    def variant_collision(self, names):
        p1 = [self.san[("pascal", n)] for n in names]
        p2 = [self.san[("pascal", self.xp[n])] for n in names]
        return len(set(p1)) != len(p1) and len(set(p2)) != len(p2)

def attribute(pred, line, kind, findings):
    k, case, arg = req_parts(line)
    ids = {f["id"]: f for f in findings}
    if not isinstance(arg, list): return None
    if kind == "dup-field" and k in ("props", "propsx") and "C08-field-collision" in ids and pred.field_collision(arg):
        return ids["C08-field-collision"]
    if kind == "dup-field" and k == "propsx" and "C08-extra-field-collision" in ids and pred.extra_collision(arg):
        return ids["C08-extra-field-collision"]
    if kind == "dup-def" and k == "defs" and "C08-def-collision" in ids and pred.def_collision(arg):
        return ids["C08-def-collision"]
    if kind == "panic" and k == "variants" and "C08-variant-panic" in ids and pred.variant_collision(arg):
        return ids["C08-variant-panic"]
    # an untagged union over definitions two of which take ONE type name: the variants named after them collide too (the
    # definition collision seen from the union; the panic is the one of C08-variant-panic)
    if k == "refunion" and kind in ("panic", "dup-variant", "wire") and "C08-def-collision" in ids and pred.def_collision(arg):
        return ids["C08-def-collision"]
    return None

def check_idents(idents):
    """Rust identifier grammar via the real syn (harness `isident`); returns the set of invalid ones and the answers"""
    ids = sorted(set(idents))
    lines = ["isident " + J(i) for i in ids]
    impl = run_par("impl", lines, "ident")
    return set(i for i, a in zip(ids, impl) if a != "ok true"), lines, impl

def m3_stage(ctx, strings, snake_of, pascal_of):
    """The serde clause on COMPILED generated code (batch pipeline, DESIGN 3.3 M3): for a sample of names, a struct with
    that one required property and an enum with that one value are generated by the real typify, compiled, and driven:
    {"<name>": "v"} must deserialize and serialize back to exactly {"<name>": "v"}; "<name>" likewise for the enum; and
    when the identifier differs from the name, {"<ident>": "v"} must be rejected (bound to *exactly* the original)."""
    import batch
    from batch import Batch, canon
    n = 600 if ctx.tier == "thorough" else 90
    ok_name = lambda s: "{" not in s and "}" not in s          # braces in enum values break the Display template (C01's defect)
    pool = [s for s in strings if ok_name(s)]
    fixed = [s for s in SPECIALS if ok_name(s)] + KW_FALLBACK[:12]
    names = list(dict.fromkeys(fixed + ctx.rng.sample(pool, min(len(pool), n))))[:n + len(fixed)]
    b = Batch(ctx, shards=12, assertions=False, ops=("rt", "de"), ops_for="named")
    cases = []
    for nm in names:
        st = {"title": "S", "type": "object", "properties": {nm: {"type": "string"}}, "required": [nm]}
        en = {"title": "E", "type": "string", "enum": [nm]}
        # the same enumerated value reached through a composition (the enumeration intersected with a length bound it meets,
        # counted in characters): the value keeps its variant and its exact wire name
        em = {"title": "Em", "allOf": [{"type": "string", "enum": [nm, "zz"]}, {"type": "string", "maxLength": max(len(nm), 2)}]}
        calls = [{"type": st, "name": None}, {"type": en, "name": None}] + ([{"type": em, "name": None}] if nm != "zz" else [])
        cases.append((nm, b.add_case(calls, tag=nm[:30])))
    b.prepare(); b.build()
    reqs = []; meta = []
    for nm, c in cases:
        reqs.append((c, "S", "rt", batch.J({nm: "v"}))); meta.append((nm, "struct-rt"))
        reqs.append((c, "E", "rt", batch.J(nm))); meta.append((nm, "enum-rt"))
        if nm != "zz" and c.type("Em") is not None:
            reqs.append((c, "Em", "rt", batch.J(nm))); meta.append((nm, "merged-enum-rt"))
        idn = snake_of.get(nm)
        if idn is not None and idn != nm:
            reqs.append((c, "S", "de", batch.J({idn: "v"}))); meta.append((nm, "struct-ident-key"))
        idp = pascal_of.get(nm)
        if idp is not None and idp != nm:
            reqs.append((c, "E", "de", batch.J(idp))); meta.append((nm, "enum-ident-value"))
    ans = b.run(reqs)
    fails = []; counts = {}
    for (c, ty, op, payload), (nm, what), a in zip(reqs, meta, ans):
        st, parts = batch.split_answer(a)
        good = False
        if what.endswith("-rt"):
            good = st == "ok" and len(parts) == 2 and canon(parts[0]) == canon(payload) and canon(parts[1]) == canon(payload)
        else:
            good = st == "err"
        counts[what] = counts.get(what, 0) + 1
        if not good:
            fails.append({"name": nm, "what": what, "payload": payload, "answer": a[:300], "compiled": c.compiled,
                          "rustc": [e.get("message") for e in (c.rustc_errors or [])][:2]})
    return {"names": len(names), "operations": len(reqs), "by_kind": counts, "failures": len(fails),
            "compiled_cases": sum(1 for _, c in cases if c.compiled), "cases": len(cases),
            "sample": [reqs[0][3], reqs[1][3], ans[0], ans[1]]}, fails

def run(ctx):
    findings = vlib.load_findings("C08")
    st = vlib.proof_stage(ctx, "C08", PROOF_TARGETS, PROOF_FILES, slices=["c08"])
    fok, flog = vlib.lean_build(ctx, [FINDINGS_TARGET]) if st["proof_ok"] else (False, "")
    model_ok = st["driver_ok"] and os.path.exists(vlib.drv("c08"))
    strings, cheap, gen_info = gen_strings(ctx)
    # ---- phase 1: every string alone, in every role
    lines1 = []
    for s in strings: lines1 += single_requests(s)
    nfull = len(lines1)
    for s in cheap:
        j = J(s)
        lines1 += ["recase snake " + j, "recase pascal " + j, "snake " + j, "pascal " + j]
    lines1 += ["variants []", "defs []"]  # (an object without properties is a map, not a struct: not a naming case)
    impl1 = run_par("impl", lines1, "p1")
    model1 = run_par("model", lines1, "p1") if model_ok else None
    ctx.log("phase 1: %d strings, %d requests" % (len(strings), len(lines1)))
    # ---- phase 2: colliding pairs, grouped on the model's own output
    snake_of, pascal_of = {}, {}
    for i, s in enumerate(strings):
        for off, tab in ((0, snake_of), (1, pascal_of)):
            src = model1[10 * i + off] if model1 is not None and model1[10 * i + off] != "unsupported" else impl1[10 * i + off]
            k, v = parse(src)
            if k == "ok": tab[s] = v
    lines2 = pair_requests(ctx, strings, snake_of, pascal_of)
    lines2 += [f["request"] for f in findings]
    impl2 = run_par("impl", lines2, "p2")
    model2 = run_par("model", lines2, "p2") if model_ok else None
    ctx.log("phase 2: %d collision / list requests" % len(lines2))
    lines = lines1 + lines2; impl = impl1 + impl2
    model = (model1 + model2) if model_ok else None
    # ---- oracle on every implementation answer
    raw_fail = []; all_idents = []; per_line_idents = []
    for l, a in zip(lines, impl):
        fails, idents = oracle(l, a)
        per_line_idents.append(idents); all_idents += idents
        for kd, det in fails: raw_fail.append((l, a, kd, det))
    # ---- implementation-only sweep of every Unicode scalar value in four positions (exploration of the non-ASCII domain)
    step = 0x8000
    sw_lines = ["sweep [%d, %d]" % (lo, min(lo + step, 0x110000)) for lo in range(0, 0x110000, step)]
    sw = [parse(a) for a in run_par("impl", sw_lines, "sweep", n=16, min_lines=2)]
    sweep_checked = sum(v["checked"] for k, v in sw if k == "ok")
    sweep_bad = [b for k, v in sw if k == "ok" for b in v["bad"]] + [{"sweep": k} for k, v in sw if k != "ok"]
    for b in sweep_bad[:3]:
        l = "recase %s %s" % ("pascal" if b.get("pascal") else "snake", J(b.get("name", "")))
        raw_fail.append((l, "ok " + J([b.get("ident"), b.get("rename")]), "unicode-sweep", b))
    ctx.log("unicode sweep: %d names checked, %d bad" % (sweep_checked, len(sweep_bad)))
    # ---- the serde clause on compiled generated code (M3)
    m3 = {"available": False}
    try:
        m3, m3_fails = m3_stage(ctx, strings, snake_of, pascal_of)
        m3["available"] = True
        for f in m3_fails[:3]:
            kd = "props" if f["what"].startswith("struct") else "variants"
            raw_fail.append(("%s %s" % (kd, J([f["name"]])), f["answer"], "compiled-" + f["what"], f))
        ctx.log("M3: %d names, %d operations on compiled generated code, %d failures" % (m3["names"], m3["operations"], m3["failures"]))
    except Exception as e:  # the pipeline is shared machinery; its absence is reported, not hidden
        m3["error"] = repr(e)[:300]
        ctx.notes.append("M3 stage (compiled-code round trip) did not run: %r" % (e,))
        ctx.log("M3 stage did not run:", repr(e)[:200])
    bad_idents, lines3, impl3 = check_idents(all_idents)
    model3 = run_par("model", lines3, "ident") if model_ok else None
    for l, a, ids in zip(lines, impl, per_line_idents):
        b = [i for i in ids if i in bad_idents]
        if b: raw_fail.append((l, a, "not-an-identifier", b))
    lines_all = lines + lines3; impl_all = impl + impl3
    model_all = (model + model3) if model_ok else None
    disagreements, unsupported = compare(lines_all, impl_all, model_all) if model_ok else ([], 0)
    ctx.log("requests=%d disagreements=%d out-of-model-domain=%d oracle-failures=%d" %
            (len(lines_all), len(disagreements), unsupported, len(raw_fail)))
    # ---- attribution of implementation failures to known findings (mechanism predicate + failure kind)
    pred = Pred()
    names = []
    for l, a, kd, det in raw_fail:
        arg = req_parts(l)[2]
        if isinstance(arg, list): names += arg
    for f in findings: names += req_parts(f["request"])[2]
    pred.load(names)
    new_fail = []; known_hit = {}
    for l, a, kd, det in raw_fail:
        f = attribute(pred, l, kd, findings)
        if f is None: new_fail.append((l, a, kd, det))
        else: known_hit[f["id"]] = known_hit.get(f["id"], 0) + 1
    # ---- known-finding witnesses: still failing?
    for f in findings:
        a = vlib.run_side("impl", "c08", [f["request"]], "wit")[0]
        fails, _ = oracle(f["request"], a)
        if any(attribute(pred, f["request"], kd, [f]) for kd, _ in fails): vlib.known(ctx, f)
        else: ctx.notes.append("known finding %s no longer reproduces on its witness" % f["id"])
    if st["proof_ok"] and not fok:
        ctx.notes.append("Proofs/C08Findings.lean (refutation witnesses of known findings) no longer compiles: a finding may have been repaired")
    broken = list(st["broken"])
    if disagreements:
        broken.append("correspondence c08: model and implementation disagree on %d requests" % len(disagreements))
    # ---- search for a failing input when only the correspondence broke: extend the disagreeing lists by names built
    #      from the identifiers the implementation produced (a repair-by-renaming can collide with a name that is
    #      already spelled like the repaired identifier), and judge the real answers by the oracle
    if disagreements and not new_fail:
        ext = []
        for d in disagreements[:60]:
            k, case, arg = req_parts(d["input"])
            if not isinstance(arg, list): continue
            kk, val = parse(d["impl"])
            if kk != "ok" or not isinstance(val, list): continue
            ids = [pr[0] for pr in val if isinstance(pr, list) and pr and isinstance(pr[0], str)]
            for i in ids:
                for extra in (i, i.lower(), i + "2", i[:-1] if len(i) > 1 else i):
                    if extra not in arg: ext.append("%s %s" % (d["input"].split(" ")[0], J(arg + [extra])))
        ext = list(dict.fromkeys(ext))[:600]
        if ext:
            eimpl = run_par("impl", ext, "search")
            efail = []
            for l, a in zip(ext, eimpl):
                fails, _ = oracle(l, a)
                for kd, det in fails: efail.append((l, a, kd, det))
            names = []
            for l, a, kd, det in efail: names += req_parts(l)[2]
            pred.load(names)
            for l, a, kd, det in efail:
                if attribute(pred, l, kd, findings) is None: new_fail.append((l, a, kd, det))
            ctx.log("search: %d extended inputs, %d oracle failures, %d not attributed" % (len(ext), len(efail), len(new_fail)))
    # ---- report
    seen_kinds = set()
    new_fail.sort(key=lambda t: len(t[0]))
    for l, a, kd, det in new_fail:
        key = (kd, l.split(" ")[0])
        if key in seen_kinds: continue
        seen_kinds.add(key)
        if len(ctx.violations) >= 6: break
        vlib.violation(ctx, {"property": "C08", "kind": "implementation violates the property", "input": l,
                             "impl_answer": a, "failed_clause": kd, "detail": det, "broken_obligations": broken,
                             "first_disagreements": disagreements[:3], "replay": "./check C08 --replay <this file>"})
    if broken and not new_fail:
        vlib.violation(ctx, {"property": "C08", "kind": "property no longer shown to hold",
                             "broken_obligations": broken, "first_disagreements": disagreements[:5],
                             "input": disagreements[0]["input"] if disagreements else None,
                             "lean_log": st.get("log", "")}, no_input=True)
    nt = sum(1 for l, a in zip(lines_all, impl_all) if nontrivial(l, a))
    branches = {}
    for l, a in zip(lines_all, impl_all):
        key = l.split(" ")[0] + ":" + parse(a)[0]
        branches[key] = branches.get(key, 0) + 1
    nonascii = sum(1 for l in lines_all if not is_ascii(json.dumps(req_parts(l)[2], ensure_ascii=False)))
    mid = nfull // 2
    cov = {
        "obligations": st["obligations"], "discharged": st["discharged"],
        "checker_cmd": "cd /verif/lean && lake build TypifyModel.Proofs.C08 && lake env lean TypifyModel/Audit/C08.lean",
        "trusted_base": vlib.TRUSTED_BASE + [
            "C08: no translated table; the hand-written model Model/Names.lean (heck transform, syn keyword list, sanitize, recase, variant/field/definition naming) is tied to the code by the c08 correspondence only",
            "C08: serde_derive gives a field/variant the name in #[serde(rename)] when present and the identifier otherwise (Names.wireName); typify emits no rename_all",
        ],
        "axioms": st.get("axioms", {}),
        "theorems": ["C08." + t for t in THEOREMS],
        "evaluations": len(lines_all), "distinct_nontrivial": nt,
        "rule": ("every string over the 16-symbol alphabet %r up to length %d and every string of one more character over its 13 ASCII symbols, the keyword list read from the locked syn source (+ weak keywords) in 15 casings/decorations, special cases, random ASCII and random Unicode strings; each string alone as sanitize/recase (both cases), heck snake/pascal, syn identifier test, one-value enum, one-property struct, one definition; then pairs/triples that collide under the model's own sanitize output (plus non-colliding lists) as enum values, properties and definition keys; then every identifier returned by the implementation through the real syn. Distinct by request text. Non-trivial = the implementation changed the name (identifier differs / rename emitted), rejected it, or a collision or panic occurred."
                 % (ALPHABET, gen_info["exhaustive_len"])),
        "samples": [lines1[7], lines1[mid], lines1[mid + 7], lines1[nfull - 3], lines1[-3]] + lines2[:3] + lines2[-2:],
        "exhaustive": False,
        "traces_validated_against_impl": len(lines_all) - unsupported,
        "model_disagreements": len(disagreements),
        "impl_oracle_failures_new": len(new_fail), "impl_oracle_failures_known": known_hit,
        "out_of_model_domain": unsupported,
        "exploration": {
            "what": "names with non-ASCII characters are outside the Lean model's domain; they are run on the implementation only and judged by the oracle (identifier grammar via the real syn, distinctness, wire name = original). This part is exploration, not proof.",
            "requests_with_non_ascii_names": nonascii,
            "unicode_sweep": "every Unicode scalar value c as the names c, 'a'+c, c+'a', 'A'+c+'b' through the real recase in both cases: identifier accepted by syn, rename present iff identifier differs",
            "unicode_sweep_names_checked": sweep_checked, "unicode_sweep_failures": len(sweep_bad),
        },
        "compiled_code_roundtrip_M3": m3,
        "generation": gen_info,
        "identifiers_checked_by_syn": len(lines3), "identifiers_rejected_by_syn": len(bad_idents),
        "answer_distribution": dict(sorted(branches.items(), key=lambda kv: -kv[1])[:30]),
        "tables_regenerated": st["tables_ok"],
    }
    vlib.write_evidence(ctx, "proof", cov, [
        "domain of the theorems: ASCII names of any length; Rust's char::is_alphanumeric/is_lowercase/is_uppercase/to_lowercase/to_uppercase and unicode_ident::is_xid_start/is_xid_continue restricted to ASCII are Lean's Char.isAlphanum/isLower/isUpper/toLower/toUpper/isAlpha (+ '_')",
        "syn::parse_str::<syn::Ident> on a string of identifier shape fails exactly on the keyword list of syn's accept_as_ident and on `_` (list compared with the locked syn through the isident requests)",
        "the 'found under that name when deserializing / written when serializing' clause is proved at the level of the emitted serde attributes (Names.wireName; the emitted items are parsed by syn in the correspondence: identifier and #[serde(rename)] of every field/variant); that serde_derive reads/writes exactly that name is not modelled in Lean: it is exercised on compiled generated code for a sample of names (coverage.compiled_code_roundtrip_M3, tools/batch.py)",
        "schemars' property map is a BTreeMap (properties reach struct_members sorted by JSON name); sort_by is stable",
    ])

def replay(ctx, path):
    obj = json.load(open(path))
    line = obj.get("input")
    if not line:
        print("replay file names broken obligations only:", obj.get("broken_obligations")); return 1
    a = vlib.run_side("impl", "c08", [line], "replay")[0]
    b = vlib.run_side("model", "c08", [line], "replay")[0] if os.path.exists(vlib.drv("c08")) else "n/a"
    fails, idents = oracle(line, a)
    bad, _, _ = check_idents(idents) if idents else (set(), [], [])
    if bad: fails.append(("not-an-identifier", sorted(bad)))
    findings = vlib.load_findings("C08")
    pred = Pred()
    arg = req_parts(line)[2]
    if isinstance(arg, list): pred.load(arg)
    new = [(k, d) for k, d in fails if attribute(pred, line, k, findings) is None]
    print("input:", line); print("impl :", a); print("model:", b)
    print("oracle failures:", fails); print("not attributed to a known finding:", new)
    return 1 if new or (b not in ("n/a", "unsupported") and parse(a) != parse(b)) else 0

"""C07 — every containment cycle among the generated types passes through a heap indirection; no Box without a cycle.
Theorems: lean/TypifyModel/Proofs/C07.lean (break_acyclic, break_no_cycle, break_minimal, break_box_on_cycle, break_only_box, break_total)
Correspondence: slice c07 — the real `break_cycles` (hook `verif_break_cycles_on`, and `add_root_schema` with the
pre/post IR snapshots) vs `Cycles.breakCycles`; compared: the exact set of boxed edges."""
import json, itertools, subprocess, os
import vlib

PROOF_TARGETS = ["TypifyModel.Proofs.C07"]
PROOF_FILES = ["Proofs/C07.lean", "Proofs/Lemmas/CyclesLemmas.lean", "Proofs/Lemmas/CyclesAcyclic.lean",
               "Proofs/Lemmas/CyclesFrame.lean", "Proofs/Lemmas/CyclesMinimal.lean",
               "Proofs/Lemmas/CyclesTotal.lean", "Proofs/Lemmas/CyclesClosed.lean", "Proofs/Lemmas/CyclesOnCycle.lean"]
THEOREMS = ["C07.break_acyclic", "C07.break_no_cycle", "C07.break_minimal", "C07.break_box_on_cycle", "C07.acyclic_of_rank",
            "C07.break_only_box", "C07.break_total", "C07.byValue_or_heap", "C07.mapChildren_shape"]

EDGE_KINDS = ["direct", "option", "array", "tuple", "newtype", "enum", "heap"]   # the 7 edge kinds
REDUCED = ["direct", "option", "heap"]                                            # n = 3 alphabet
NODE_KINDS = ["struct", "newtype", "enum"]
HEAP = ("box", "vec", "set", "map")

# ------------------------------------------------------------------ node access (request format)
def child_ids(n):
    """by-value member ids, in get_child_ids order (independent re-statement for the oracle)"""
    k = n["kind"]
    if k == "struct": return list(n["props"])
    if k == "newtype": return [n["type_id"]]
    if k == "enum":
        out = []
        for v in n["variants"]:
            if "item" in v: out.append(v["item"])
            elif "tuple" in v: out += v["tuple"]
            elif "struct" in v: out += v["struct"]
        return out
    if k in ("option", "array"): return [n["id"]]
    if k == "tuple": return list(n["ids"])
    return []

def heap_ids(n):
    k = n["kind"]
    if k in ("box", "vec", "set"): return [n["id"]]
    if k == "map": return [n["key"], n["value"]]
    return []

def shape(n):
    """everything but the by-value ids"""
    k = n["kind"]
    if k == "enum":
        return ("enum", tuple(("item" if "item" in v else "tuple%d" % len(v["tuple"]) if "tuple" in v
                               else "struct%d" % len(v["struct"]) if "struct" in v else "simple") for v in n["variants"]))
    if k == "array": return ("array", n["len"])
    if k in HEAP: return (k, tuple(heap_ids(n)))
    if k in ("struct", "newtype", "option", "tuple"): return (k, len(child_ids(n)))
    return ("leaf",)

# ------------------------------------------------------------------ graph builder (mimics assign_type dedup)
class Builder:
    def __init__(self, n, first=1):
        self.first, self.n = first, n
        self.nodes = {}
        self.next = first + n
        self.dedup = {}
    def inter(self, node, named=None):
        key = named or json.dumps(node, sort_keys=True)
        if key in self.dedup: return self.dedup[key]
        i = self.next; self.next += 1
        self.nodes[i] = node; self.dedup[key] = i
        return i
    def leaf(self): return self.inter({"kind": "string"})
    def member(self, kind, b, rng=None):
        """id of a member that refers to definition id `b` through `kind`"""
        if kind == "direct": return b
        if kind == "option": return self.inter({"kind": "option", "id": b})
        if kind == "array": return self.inter({"kind": "array", "id": b, "len": 2})
        if kind == "tuple": return self.inter({"kind": "tuple", "ids": [self.leaf(), b]})
        if kind == "newtype": return self.inter({"kind": "newtype", "name": "Nt%d" % b, "type_id": b}, named="Nt%d" % b)
        if kind == "enum":
            return self.inter({"kind": "enum", "name": "En%d" % b, "variants": [{}, {"item": b}]}, named="En%d" % b)
        if kind == "heap": return self.inter({"kind": "vec", "id": b})
        if kind in ("box", "vec", "set"): return self.inter({"kind": kind, "id": b})
        if kind == "map": return self.inter({"kind": "map", "key": self.leaf(), "value": b})
        raise ValueError(kind)
    def define(self, i, nkind, members):
        name = "D%d" % i
        if nkind == "struct":
            self.nodes[i] = {"kind": "struct", "name": name, "props": members}
        elif nkind == "newtype":
            inner = members[0] if len(members) == 1 else (self.leaf() if not members else self.inter({"kind": "tuple", "ids": members}))
            self.nodes[i] = {"kind": "newtype", "name": name, "type_id": inner}
        else:
            vs, j, pat = [{}], 0, 0
            while j < len(members):      # item, tuple(2), struct(1), item, ...
                if pat % 3 == 0: vs.append({"item": members[j]}); j += 1
                elif pat % 3 == 1: vs.append({"tuple": members[j:j + 2]}); j += 2
                else: vs.append({"struct": members[j:j + 1]}); j += 1
                pat += 1
            self.nodes[i] = {"kind": "enum", "name": name, "variants": vs}
    def request(self, lo=None, hi=None):
        lo = self.first if lo is None else lo
        hi = self.first + self.n if hi is None else hi
        return {"graph": {str(k): self.nodes[k] for k in sorted(self.nodes)}, "lo": lo, "hi": hi}

def from_spec(kinds, edges):
    """kinds: node kind per definition; edges: list of (a, b, edge kind) in member order"""
    n = len(kinds)
    b = Builder(n)
    members = {i: [] for i in range(n)}
    for (x, y, k) in edges:
        members[x].append(b.member(k, b.first + y))
    for i in range(n):
        b.define(b.first + i, kinds[i], members[i])
    return b.request()

def gen_exhaustive_n1():
    for kind in NODE_KINDS:
        for mult in itertools.product((0, 1, 2), repeat=len(EDGE_KINDS)):
            edges = [(0, 0, k) for k, m in zip(EDGE_KINDS, mult) for _ in range(m)]
            yield from_spec([kind], edges)

def gen_exhaustive_n2():
    pairs = [(0, 0), (0, 1), (1, 0), (1, 1)]
    opts = [None] + EDGE_KINDS
    for kinds in itertools.product(NODE_KINDS, repeat=2):
        for choice in itertools.product(opts, repeat=4):
            edges = [(a, b, k) for (a, b), k in zip(pairs, choice) if k]
            yield from_spec(list(kinds), edges)

def gen_exhaustive_n3(kind_patterns):
    pairs = [(a, b) for a in range(3) for b in range(3)]
    opts = [None] + REDUCED
    for kinds in kind_patterns:
        for choice in itertools.product(opts, repeat=9):
            edges = [(a, b, k) for (a, b), k in zip(pairs, choice) if k]
            yield from_spec(list(kinds), edges)

def _n3_chunk(task):
    kinds, a, b = task
    pairs = [(x, y) for x in range(3) for y in range(3)]
    out = []
    for rest in itertools.product([None] + REDUCED, repeat=7):
        edges = [(x, y, k) for (x, y), k in zip(pairs, (a, b) + rest) if k]
        out.append(from_spec(list(kinds), edges))
    return out

def gen_random(rng):
    n = rng.randint(1, 8)
    b = Builder(n)
    ids = list(range(b.first, b.first + n))
    # pre-existing entries from "earlier passes": boxes of definitions, shared options
    for _ in range(rng.choice([0, 0, 1, 2])):
        b.member(rng.choice(["box", "option", "vec"]), rng.choice(ids))
    def rand_member(depth=0):
        t = rng.choice(ids)
        k = rng.choice(EDGE_KINDS + ["direct", "option", "box", "vec", "set", "map"])
        m = b.member(k, t)
        # nested unnamed wrappers: Option<[T;2]>, (S, Option<T>), ...
        while depth < 2 and rng.random() < 0.25:
            w = rng.choice(["option", "array", "tuple2", "vec"])
            if w == "tuple2":
                m = b.inter({"kind": "tuple", "ids": [m, rand_member(depth + 1)] if rng.random() < .5 else [m, m]})
            else:
                m = b.member(w, m)
            depth += 1
        return m
    dens = rng.choice([0.6, 1.2, 2.0])
    for i in ids:
        k = rng.choice(NODE_KINDS)
        cnt = min(5, int(rng.expovariate(1.0 / dens)))
        if k == "newtype": cnt = 1 if rng.random() < .8 else cnt
        members = [rand_member() for _ in range(cnt)]
        if members and rng.random() < .2: members.append(rng.choice(members))   # multi-edge
        b.define(i, k, members)
    lo, hi = b.first, b.first + n
    r = rng.random()
    if r < .1 and n > 1: hi = rng.randint(lo + 1, hi)          # roots: a prefix of the definitions
    elif r < .2 and n > 1: lo = rng.randint(lo, hi - 1)       # a suffix
    elif r < .25: hi = b.next                                  # every entry is a root
    return b.request(lo, hi)

# ------------------------------------------------------------------ real schemas
def gen_schema(rng):
    n = rng.randint(1, 5)
    names = ["T%d" % i for i in range(n)]
    has_root = rng.random() < .35
    # `$ref: "#"` targets the (titled) root schema: cycles that pass through the root only
    ref = lambda t: {"$ref": "#"} if t == "#" else {"$ref": "#/definitions/" + t}
    def member():
        t = rng.choice(names + (["#", "#"] if has_root else []))
        k = rng.choice(["direct", "optional", "nullable_oneof", "nullable_anyof", "tuple", "fixed", "vec", "map", "set", "alias", "inline", "xrust"])
        if k == "xrust":
            # the member also names a Rust type through the x-rust-type extension; the crate (std) is not enabled in these
            # settings, so the schema decides and the cycle has to be cut as for any other nullable member
            return {"oneOf": [ref(t), {"type": "null"}], "x-rust-type": {"crate": "std", "version": "1.0.0", "path": "std::option::Option",
                                                                        "parameters": [ref(t)]}}, rng.random() < .5
        if k in ("direct", "optional"): return ref(t), k == "direct"
        if k == "nullable_oneof": return {"oneOf": [ref(t), {"type": "null"}]}, rng.random() < .5
        if k == "nullable_anyof": return {"anyOf": [ref(t), {"type": "null"}]}, rng.random() < .5
        if k == "tuple": return {"type": "array", "items": [ref(t), {"type": "string"}], "minItems": 2, "maxItems": 2}, rng.random() < .7
        if k == "fixed": return {"type": "array", "items": ref(t), "minItems": 2, "maxItems": 2}, rng.random() < .7
        if k == "vec": return {"type": "array", "items": ref(t)}, True
        if k == "set": return {"type": "array", "items": ref(t), "uniqueItems": True}, True
        if k == "map": return {"type": "object", "additionalProperties": ref(t)}, True
        if k == "alias": return {"allOf": [ref(t)]}, rng.random() < .5
        return {"type": "object", "properties": {"in": ref(t)}, "required": ["in"] if rng.random() < .6 else []}, rng.random() < .6
    def obj(minp=0):
        props, req = {}, []
        for j in range(rng.randint(minp, 3)):
            s, r = member()
            props["p%d" % j] = s
            if r: req.append("p%d" % j)
        return {"type": "object", "properties": props, "required": req}
    defs = {}
    for t in names:
        k = rng.choice(["object", "object", "object", "newtype_ref", "newtype_tuple", "newtype_fixed", "newtype_opt", "enum_ext", "enum_untagged"])
        o = rng.choice(names)       # alias-only cycles (T0 = $ref T1, T1 = $ref T0) are included on purpose
        if k == "object": defs[t] = obj()
        elif k == "newtype_ref": defs[t] = {"allOf": [ref(o)], "description": "alias"} if rng.random() < .5 else ref(o)
        elif k == "newtype_tuple": defs[t] = {"type": "array", "items": [ref(o), {"type": "integer"}], "minItems": 2, "maxItems": 2}
        elif k == "newtype_fixed": defs[t] = {"type": "array", "items": ref(o), "minItems": 3, "maxItems": 3}
        elif k == "newtype_opt": defs[t] = {"oneOf": [ref(o), {"type": "null"}]}
        elif k == "enum_ext":
            vs = [{"type": "string", "enum": ["unit"]}]
            for j in range(rng.randint(1, 3)):
                s, _ = member()
                vs.append({"type": "object", "properties": {"V%d" % j: s}, "required": ["V%d" % j], "additionalProperties": False})
            defs[t] = {"oneOf": vs}
        else:
            vs = [obj(1) for _ in range(rng.randint(2, 3))]
            for j, v in enumerate(vs): v["properties"]["tag%d" % j] = {"type": "string"}; v["required"] = sorted(set(v["required"] + ["tag%d" % j]))
            defs[t] = {"oneOf": vs}
    doc = {"definitions": defs}
    if has_root:
        doc.update(obj(1)); doc["title"] = "Root"
        if rng.random() < .3: doc.pop("definitions")       # the root alone (its members then refer to "#" or dangle)
    if rng.random() < .5: add_member_defaults(rng, doc)
    return {"schema": doc}

def add_member_defaults(rng, doc):
    """non-required members of the recursive types get a schema default now and then (a shallow valid instance, `null` where
    the member is nullable): the default functions are typed by the member's type AFTER cycle breaking"""
    import gen
    holders = [doc] + list((doc.get("definitions") or {}).values())
    for h in holders:
        if not isinstance(h, dict) or h.get("type") != "object": continue
        for pn, ps in (h.get("properties") or {}).items():
            if pn in h.get("required", []) or not isinstance(ps, dict) or "default" in ps or "x-rust-type" in ps or rng.random() > .55: continue
            try: d = gen.gen_valid(rng, doc, ps, depth=2, mode=rng.choice(["min", "random", "all_present"]))
            except Exception: continue
            if len(json.dumps(d)) < 400: ps["default"] = d

# ------------------------------------------------------------------ canonical projection, oracle
def norm_nodes(ans):
    return {int(k): v for k, v in ans["nodes"].items()}

def canon(orig, res):
    """the projection the property is about: per original entry its shape and members, a member that
    is a Box entry printed as B<target>; plus the targets of the new Box entries"""
    out = []
    for i in sorted(orig):
        if i not in res: out.append("%d:missing" % i); continue
        n = res[i]
        cs = []
        for c in child_ids(n):
            t = res.get(c)
            cs.append("B%d" % t["id"] if t is not None and t["kind"] == "box" else str(c))
        out.append("%d:%s[%s]" % (i, shape(n), ",".join(cs)))
    new = sorted(((res[i]["id"] if res[i]["kind"] == "box" else "?%s" % res[i]["kind"]) for i in res if i not in orig), key=str)
    return ";".join(out) + " new=%s" % new

def reachable(nodes, roots):
    seen, st = set(), [r for r in roots if r in nodes]
    while st:
        u = st.pop()
        if u in seen: continue
        seen.add(u)
        for v in child_ids(nodes[u]):
            if v in nodes and v not in seen: st.append(v)
    return seen

def find_cycle(nodes, among):
    """a by-value cycle within `among` (iterative three-colour DFS), or None"""
    color = {}
    for s in sorted(among):
        if s in color: continue
        path, stack = [], [(s, iter(child_ids(nodes[s])))]
        color[s] = 1; path.append(s)
        while stack:
            u, it = stack[-1]
            adv = False
            for v in it:
                if v not in nodes or v not in among: continue
                if color.get(v) == 1:
                    return path[path.index(v):] + [v]
                if v not in color:
                    color[v] = 1; path.append(v); stack.append((v, iter(child_ids(nodes[v])))); adv = True
                    break
            if not adv:
                color[u] = 2; path.pop(); stack.pop()
    return None

def reaches(nodes, a, b):
    """is there a by-value path a ->* b (length >= 0)"""
    return b in reachable(nodes, [a])

def oracle(orig, res, lo, hi, whole=False):
    """the property, on an implementation answer. Returns list of (clause, detail)."""
    fails = []
    roots = range(lo, hi)
    # (a) finite size: no by-value cycle among entries reachable from the roots (result and input reachability)
    among = set(res) if whole else (reachable(res, roots) | (reachable(orig, roots) & set(res)))
    cyc = find_cycle(res, among)
    if cyc: fails.append(("cycle", cyc))
    # (c) only child -> Box(child) rewrites
    boxed = []
    for i, n in orig.items():
        m = res.get(i)
        if m is None: fails.append(("only_box", "entry %d removed" % i)); continue
        if shape(n) != shape(m): fails.append(("only_box", "entry %d changed shape" % i)); continue
        for c, c2 in zip(child_ids(n), child_ids(m)):
            if c == c2: continue
            t = res.get(c2)
            if t is None or t["kind"] != "box" or t["id"] != c:
                fails.append(("only_box", "entry %d: member %d became %d which is not Box(%d)" % (i, c, c2, c)))
            else: boxed.append((i, c))
    for i, m in res.items():
        if i not in orig and m["kind"] != "box": fails.append(("only_box", "new entry %d is %s" % (i, m["kind"])))
    # (b) minimality: nothing changes when no cycle is reachable from the roots;
    #     and indirection is introduced only to cut a cycle: a boxed edge u -> c lies on a by-value cycle of the input
    if find_cycle(orig, reachable(orig, roots)) is None and res != orig:
        fails.append(("minimal", "acyclic input was changed"))
    for (u, c) in boxed:
        if not reaches(orig, c, u):
            fails.append(("minimal", "edge %d -> %d was boxed but lies on no cycle" % (u, c))); break
    return fails

# ------------------------------------------------------------------ running the implementation side
def run_impl(ctx, lines, tag, budget):
    """vlib.run_side with a time budget; on expiry the first request that does not return is located"""
    path = vlib.os.path.join(vlib.CACHE, "in_c07_%s.txt" % tag)
    def go(ls, t):
        with open(path, "w") as f: f.write("\n".join(ls) + "\n")
        with open(path) as fin:
            p = subprocess.run([vlib.tvh("c07")], stdin=fin, capture_output=True, text=True, env=vlib.ENV, timeout=t)
        if p.returncode != 0: raise RuntimeError("tvh_c07 failed: " + p.stderr[-2000:])
        out = p.stdout.split("\n")
        if out and out[-1] == "": out.pop()
        return out
    try:
        return go(lines, budget), None
    except subprocess.TimeoutExpired:
        pass
    out, i, step = [], 0, 500
    while i < len(lines):
        try:
            out += go(lines[i:i + step], 20); i += step
        except subprocess.TimeoutExpired:
            a, b = i, min(i + step, len(lines))
            while b - a > 1:
                m = (a + b) // 2
                try: go(lines[a:m], 20); a = m
                except subprocess.TimeoutExpired: b = m
            return None, lines[a]
    return out, None

# ------------------------------------------------------------------ the check
def parse_answer(a):
    try:
        v = json.loads(a)
        return v if isinstance(v, dict) else None
    except Exception:
        return None

def gen_cases(ctx):
    graphs, schemas = [], []
    graphs += list(gen_exhaustive_n1())
    graphs += list(gen_exhaustive_n2())
    if ctx.tier == "thorough":
        pats = [("struct",) * 3, ("enum", "struct", "newtype"), ("newtype", "enum", "struct")]
        # the complete n = 3 enumeration (3 x 4^9 graphs), built on all cores: one task per (pattern, first two choices)
        import multiprocessing as mp
        tasks = [(kinds, a, b) for kinds in pats for a in [None] + REDUCED for b in [None] + REDUCED]
        with mp.get_context("fork").Pool(min(14, os.cpu_count() or 1)) as pool:
            for part in pool.map(_n3_chunk, tasks): graphs += part
    else:
        # a slice of the n = 3 space: random members of the reduced enumeration
        pairs = [(a, b) for a in range(3) for b in range(3)]
        for _ in range(400):
            kinds = [ctx.rng.choice(NODE_KINDS) for _ in range(3)]
            edges = [(a, b, k) for (a, b) in pairs for k in [ctx.rng.choice([None] + REDUCED)] if k]
            graphs.append(from_spec(kinds, edges))
    nrand = 20000 if ctx.tier == "thorough" else 300
    graphs += [gen_random(ctx.rng) for _ in range(nrand)]
    nsch = 3000 if ctx.tier == "thorough" else 150
    schemas = [gen_schema(ctx.rng) for _ in range(nsch)]
    return graphs, schemas

def corpus():
    """hand-written cases kept from design time (shared Option node reached from two parents, etc.)"""
    g = []
    g.append({"graph": {"1": {"kind": "struct", "name": "R", "props": [3]}, "2": {"kind": "struct", "name": "X", "props": [3]},
                        "3": {"kind": "option", "id": 2}}, "lo": 1, "hi": 3})
    g.append({"graph": {"1": {"kind": "newtype", "name": "A", "type_id": 2}, "2": {"kind": "newtype", "name": "B", "type_id": 1}}, "lo": 1, "hi": 3})
    g.append({"graph": {"1": {"kind": "struct", "name": "A", "props": [1, 1, 2]}, "2": {"kind": "box", "id": 1}}, "lo": 1, "hi": 2})
    g.append({"graph": {"1": {"kind": "enum", "name": "A", "variants": [{}, {"item": 1}, {"tuple": [2, 1]}, {"struct": [3]}]},
                        "2": {"kind": "string"}, "3": {"kind": "option", "id": 1}}, "lo": 1, "hi": 2})
    s = [{"schema": {"definitions": {"X": {"type": "object", "properties": {"x": {"$ref": "#/definitions/X"}}},
                                     "R": {"type": "object", "properties": {"f": {"$ref": "#/definitions/X"}}}}}}]
    # cycles through the root schema only (`$ref: "#"`), with and without definitions
    s.append({"schema": {"title": "Node", "type": "object", "properties": {"value": {"type": "integer"}, "next": {"$ref": "#"}}}})
    s.append({"schema": {"title": "Node", "type": "object", "properties": {"pair": {"type": "array", "items": [{"$ref": "#"}, {"type": "string"}], "minItems": 2, "maxItems": 2}},
                         "definitions": {"Leaf": {"type": "string"}}}})
    s.append({"schema": {"title": "Node", "type": "object", "properties": {"w": {"$ref": "#/definitions/W"}}, "required": ["w"],
                         "definitions": {"W": {"type": "object", "properties": {"back": {"$ref": "#"}}}}}})
    return g, s

def check_graph_case(req, a_impl, a_model):
    """returns (disagreement or None, oracle failures on impl, unsupported?)"""
    orig = {int(k): v for k, v in req["graph"].items()}
    ri = parse_answer(a_impl)
    fails = []
    if ri is None:
        fails.append(("answer", a_impl))
    else:
        fails = oracle(orig, norm_nodes(ri), req["lo"], req["hi"])
    if a_model is None: return None, fails, False
    if a_model == "unsupported": return None, fails, True
    rm = parse_answer(a_model)
    if rm is None or ri is None:
        return ({"input": req, "impl": a_impl[:300], "model": a_model[:300]} if a_impl != a_model else None), fails, False
    ci, cm = canon(orig, norm_nodes(ri)), canon(orig, norm_nodes(rm))
    if ci != cm:
        return {"input": req, "impl": ci, "model": cm}, fails, False
    return None, fails, False

def _graph_chunk(triples):
    disagreements, impl_fail, unsupported, nontrivial, cyclic = [], [], 0, 0, 0
    for req, a, b in triples:
        d, fails, uns = check_graph_case(req, a, b)
        if uns: unsupported += 1
        if d: disagreements.append(d)
        for f in fails: impl_fail.append((req, a, f))
        orig = {int(k): v for k, v in req["graph"].items()}
        reach = reachable(orig, range(req["lo"], req["hi"]))
        if any(child_ids(orig[u]) for u in reach): nontrivial += 1
        if find_cycle(orig, reach): cyclic += 1
    return disagreements, impl_fail, unsupported, nontrivial, cyclic

def run(ctx):
    findings = vlib.load_findings("C07")
    st = vlib.proof_stage(ctx, "C07", PROOF_TARGETS, PROOF_FILES, slices=["c07"])
    cg, cs = corpus()
    graphs, schemas = gen_cases(ctx)
    graphs = cg + graphs; schemas = cs + schemas
    seen = set(); glines = []; greqs = []
    for r in graphs:
        l = json.dumps(r, sort_keys=True)
        if l not in seen: seen.add(l); glines.append(l); greqs.append(r)
    ctx.log("graph cases=%d schema cases=%d" % (len(glines), len(schemas)))
    budget = 1500 if ctx.tier == "thorough" else 90
    impl, hang = run_impl(ctx, glines, "impl", budget)
    if hang is not None:
        vlib.violation(ctx, {"property": "C07", "kind": "implementation violates the property",
                             "input": json.loads(hang), "failed_clause": "nontermination",
                             "detail": "break_cycles (or the dump of its result) does not return on this graph",
                             "replay": "./check C07 --replay <this file>"})
        vlib.write_evidence(ctx, "proof", {"obligations": st["obligations"], "discharged": st["discharged"],
            "checker_cmd": "cd /verif/lean && lake build TypifyModel.Proofs.C07", "trusted_base": vlib.TRUSTED_BASE,
            "evaluations": len(glines), "distinct_nontrivial": 0, "rule": "run aborted: implementation did not terminate",
            "samples": [json.loads(hang)]}, [])
        return
    model = vlib.run_side("model", "c07", glines) if st["driver_ok"] else [None] * len(glines)
    disagreements, impl_fail, unsupported = [], [], 0
    nontrivial = cyclic = boxed_cases = 0
    triples = list(zip(greqs, impl, model))
    if len(triples) > 20000:
        # the complete n = 3 enumeration: the per-graph oracle is pure; spread it over the cores
        import multiprocessing as mp
        chunks = [triples[i:i + 4000] for i in range(0, len(triples), 4000)]
        with mp.get_context("fork").Pool(min(14, os.cpu_count() or 1)) as pool: parts = pool.map(_graph_chunk, chunks)
    else:
        parts = [_graph_chunk(triples)]
    for ds, fs, uns, nt, cy in parts:
        disagreements += ds; impl_fail += fs; unsupported += uns; nontrivial += nt; cyclic += cy
    # real schemas: pre/post snapshots of add_root_schema; the pre graph is also fed to both sides as a graph case
    slines = [json.dumps(r, sort_keys=True) for r in schemas]
    sans, hang = run_impl(ctx, slines, "impl_schema", budget)
    if hang is not None:
        vlib.violation(ctx, {"property": "C07", "kind": "implementation violates the property",
                             "input": json.loads(hang), "failed_clause": "nontermination",
                             "detail": "add_root_schema does not return on this document",
                             "replay": "./check C07 --replay <this file>"})
        sans = ["err hang"] * len(slines)
    sdist = {"ok": 0, "err": 0, "panic": 0}
    second = []; second_src = []
    for req, a in zip(schemas, sans):
        v = parse_answer(a)
        if v is None:
            sdist["panic" if a == "panic" else "err"] += 1; continue
        sdist["ok"] += 1
        pre, post = norm_nodes(v["pre"]), norm_nodes(v["post"])
        fails = oracle(pre, post, v["lo"], v["hi"], whole=True)
        for f in fails: impl_fail.append((req, "pre/post", f))
        if find_cycle(pre, set(pre)): cyclic += 1
        g = {"graph": {str(k): pre[k] for k in sorted(pre)}, "lo": v["lo"], "hi": v["hi"], "next": v["pre"]["next"]}
        second.append(g); second_src.append((req, canon(pre, post)))
    if second and st["driver_ok"]:
        l2 = [json.dumps(r, sort_keys=True) for r in second]
        m2 = vlib.run_side("model", "c07", l2, "model_schema")
        for g, (req, cpost), b in zip(second, second_src, m2):
            if b == "unsupported": unsupported += 1; continue
            rm = parse_answer(b)
            orig = {int(k): v for k, v in g["graph"].items()}
            cm = canon(orig, norm_nodes(rm)) if rm else b
            if cm != cpost:
                disagreements.append({"input": req, "pre_graph": g, "impl": cpost, "model": cm})
    # histories: the recursive definitions are USED again by later additions to the same type space (`add_type` of an object with
    # an optional / a required member, an array, a nullable union referring to each definition). The generated types of the
    # type space must still have no containment cycle without a heap indirection, and what was there must be what it was.
    hist = {"requests": 0, "then_ok": 0, "then_other": 0}
    hreq = []
    nh = 400 if ctx.tier == "thorough" else 60
    for req, a in zip(schemas, sans):
        v = parse_answer(a)
        if v is None or len(hreq) >= nh: continue
        names = sorted((req["schema"].get("definitions") or {}).keys())[:4]
        if not names: continue
        then = []
        for n in names:
            r = {"$ref": "#/definitions/" + n}
            then.append({"title": "HoldOpt" + n, "type": "object", "properties": {"m": r}})
            then.append({"title": "HoldReq" + n, "type": "object", "properties": {"m": r, "l": {"type": "array", "items": r}}, "required": ["m"]})
            then.append({"title": "HoldNul" + n, "type": "object", "properties": {"m": {"oneOf": [r, {"type": "null"}]}}})
        hreq.append({"schema": req["schema"], "then": then})
    if hreq:
        hans, hhang = run_impl(ctx, [json.dumps(r, sort_keys=True) for r in hreq], "impl_history", budget)
        if hhang is None:
            for req, a in zip(hreq, hans):
                v = parse_answer(a)
                if v is None: continue
                hist["requests"] += 1
                for t in v.get("then") or []: hist["then_ok" if t == "ok" else "then_other"] += 1
                post = norm_nodes(v["post"])
                cyc = find_cycle(post, set(post))
                if cyc: impl_fail.append((req, "history", ("cycle", "after the later additions the type space has a containment cycle without indirection: %r" % (cyc,))))
    ctx.log("histories: %r" % (hist,))
    # compiled-code stage: "... so the types have finite size and compile". The accepted schema documents are emitted and
    # handed to rustc (tools/batch.py). E0072 (infinite size) is the property's own failure; E0055 on a cycle made of
    # newtypes only is the listed finding; other codes belong to C01 (duplicate names, ...) and are counted only.
    comp = {"built": 0, "ok": 0, "E0072": 0, "E0055_alias": 0, "other": 0}
    try:
        from batch import Batch
        lim = 400 if ctx.tier == "thorough" else 60
        pick = [(req, a) for req, a in zip(schemas, sans) if parse_answer(a) is not None][:lim]
        b = Batch(ctx, shards=12, assertions=False, ops=(), verbose=False)
        bc = [b.add_case([{"root": req["schema"]}], {}, tag="c07:%d" % i) for i, (req, _) in enumerate(pick)]
        b.prepare(); b.build()
        for (req, a), c in zip(pick, bc):
            if c.skipped or c.dump is None: continue
            comp["built"] += 1
            if c.compiled: comp["ok"] += 1; continue
            codes = {e.get("code") for e in c.rustc_errors}
            if "E0072" in codes:
                comp["E0072"] += 1
                impl_fail.append((req, "rustc", ("infinite_size", "rustc E0072 on the generated types: " + "; ".join(e.get("message", "")[:160] for e in c.rustc_errors[:3]))))
            elif codes == {"E0055"}:
                comp["E0055_alias"] += 1
                fd = next((f for f in findings if f["id"] == "C07-alias-cycle-deref"), None)
                if fd is None: impl_fail.append((req, "rustc", ("does_not_compile", "rustc E0055 (endless auto-deref chain)")))
            else: comp["other"] += 1
    except Exception as e:
        ctx.notes.append("compile stage unavailable: %r" % (e,))
    ctx.log("disagreements=%d impl-oracle-failures=%d unsupported=%d schema answers=%r compiled=%r" % (len(disagreements), len(impl_fail), unsupported, sdist, comp))
    # model-side search (the same oracle on the model's answers) when something is broken
    broken = list(st["broken"])
    if disagreements:
        broken.append("correspondence c07: model and implementation disagree on %d inputs" % len(disagreements))
    new_fail = []; known_hit = {}
    for req, a, f in impl_fail:
        new_fail.append((req, a, f))
    if comp["E0055_alias"]: known_hit["C07-alias-cycle-deref"] = comp["E0055_alias"]
    for fd in findings:
        # the canonical witness is compiled on every run
        try:
            from batch import Batch
            wb = Batch("C07_witness", assertions=False, ops=(), verbose=False)
            wc = wb.add_case(fd["witness"]["calls"], fd["witness"].get("settings", {})); wb.prepare(); wb.build()
            if wc.dump is not None and not wc.compiled and {e.get("code") for e in wc.rustc_errors} == set(fd.get("codes", [])): vlib.known(ctx, fd)
            else: ctx.notes.append("known finding %s no longer reproduces on its witness" % fd["id"])
        except Exception as e:
            ctx.notes.append("witness of %s could not be compiled: %r" % (fd["id"], e))
    seen_k = set()
    for req, a, (clause, det) in new_fail:
        if clause in seen_k: continue
        seen_k.add(clause)
        if len(ctx.violations) >= 5: break
        vlib.violation(ctx, {"property": "C07", "kind": "implementation violates the property",
                             "input": req, "impl_answer": a[:2000], "failed_clause": clause, "detail": det,
                             "broken_obligations": broken, "first_disagreements": disagreements[:3],
                             "replay": "./check C07 --replay <this file>"})
    if broken and not new_fail:
        vlib.violation(ctx, {"property": "C07", "kind": "property no longer shown to hold",
                             "broken_obligations": broken, "first_disagreements": disagreements[:5],
                             "lean_log": st.get("log", "")}, no_input=True)
    total = len(glines) + len(schemas)
    cov = {
        "obligations": st["obligations"], "discharged": st["discharged"],
        "checker_cmd": "cd /verif/lean && lake build TypifyModel.Proofs.C07 && lake env lean TypifyModel/Audit/C07.lean",
        "trusted_base": vlib.TRUSTED_BASE,
        "axioms": st.get("axioms", {}),
        "theorems": THEOREMS,
        "evaluations": total, "distinct_nontrivial": nontrivial + sdist["ok"],
        "rule": "graph cases (IR built directly, real break_cycles): all 1-definition multigraphs with 0-2 self edges per each of the 7 edge kinds x 3 node kinds; all 2-definition graphs with at most one edge of the 7 kinds (or none) per ordered pair x 9 node-kind pairs; n=3 over {none,direct,option,heap} (thorough: complete for 3 node-kind patterns; quick: 400 random members); random n<=8 with nested/shared unnamed wrappers, multi-edges, pre-existing Box/Option entries, partial root ranges; schema cases: random documents with $ref cycles through optional, nullable oneOf/anyOf, tuple, fixed array, Vec/Set/Map, alias, inline object, newtype and enum definitions run through add_root_schema. Distinct by JSON text; non-trivial = at least one by-value edge reachable from the roots (graph) / accepted by add_root_schema (schema)",
        "samples": [greqs[5], greqs[len(greqs) // 2], greqs[-1], schemas[-1]],
        "cyclic_cases": cyclic,
        "traces_validated_against_impl": len(glines) + len(second) - unsupported,
        "model_disagreements": len(disagreements),
        "impl_oracle_failures_new": len(new_fail), "impl_oracle_failures_known": known_hit,
        "out_of_model_domain": unsupported,
        "schema_answers": sdist, "compiled_schema_cases": comp, "histories": hist,
        "exhaustive": False,
    }
    vlib.write_evidence(ctx, "proof", cov, [
        "the recursive depth-first model Cycles.visit and the Rust stack machine in break_cycles compute the same graph (tied by the correspondence on the generated cases, not by proof)",
        "the abstraction of TypeEntryDetails to kind + ordered ids (Cycles.Node) keeps every field break_cycles reads; get_child_ids order is compared through the hook dump",
        "type_to_id holds at most one Box entry per target (true of assign_type); graphs violating it are answered `unsupported` by the model",
        "rustc accepts a set of type definitions as finitely sized iff every containment cycle passes through Box/Vec/Map/Set: exercised by compiling the accepted schema cases (coverage.compiled_schema_cases); compile errors other than E0072/E0055 are C01's subject and only counted",
        "the clause 'values of the recursive types still round-trip' (Box transparent for serde) is part of the Serde model, not of this slice",
    ])

def replay(ctx, path):
    obj = json.load(open(path))
    if "input" not in obj:
        print("replay file names broken obligations only:", obj.get("broken_obligations")); return 1
    req = obj["input"]
    line = json.dumps(req, sort_keys=True)
    out, hang = run_impl(ctx, [line], "replay", 30)
    if hang is not None:
        print("input:", line); print("impl : does not terminate"); return 1
    a = out[0]
    have_model = vlib.os.path.exists(vlib.drv("c07"))
    if "graph" in req:
        b = vlib.run_side("model", "c07", [line])[0] if have_model else None
        d, fails, uns = check_graph_case(req, a, b)
        print("input:", line); print("impl :", a); print("model:", b)
        print("oracle failures:", fails); print("disagreement:", d)
        return 1 if fails or d else 0
    v = parse_answer(a)
    print("input:", line); print("impl :", a)
    if v is None: return 0
    pre, post = norm_nodes(v["pre"]), norm_nodes(v["post"])
    if req.get("then"):
        # a history: the type space after the later additions must have no containment cycle without indirection
        cyc = find_cycle(post, set(post))
        print("later additions:", v.get("then")); print("containment cycle without indirection:", cyc)
        return 1 if cyc else 0
    fails = oracle(pre, post, v["lo"], v["hi"], whole=True)
    d = None
    if have_model:
        g = {"graph": {str(k): pre[k] for k in sorted(pre)}, "lo": v["lo"], "hi": v["hi"], "next": v["pre"]["next"]}
        b = vlib.run_side("model", "c07", [json.dumps(g, sort_keys=True)])[0]
        rm = parse_answer(b)
        print("model:", b)
        if rm and canon(pre, norm_nodes(rm)) != canon(pre, post): d = "model differs"
    print("oracle failures:", fails); print("disagreement:", d)
    return 1 if fails or d else 0

"""C19 — every generated type is public and carries the promised trait surface.
Theorems: lean/TypifyModel/Proofs/C19.lean over the Render model and the derive tables regenerated
from type_entry.rs. Correspondence M2: Render model vs syn summary of the real to_stream().
Implementation oracle: the property evaluated on the real summary (+ compiled trait-bound
assertions through the batch pipeline)."""
import json, glob, os
import vlib, m2

PROOF_TARGETS = ["TypifyModel.Proofs.C19"]
PROOF_FILES = ["Proofs/C19.lean", "Proofs/Lemmas/RenderLemmas.lean"]
CMP = ["Copy", "Eq", "Ord", "Hash", "PartialEq", "PartialOrd"]

def cases(ctx):
    import gen
    out = []
    settings = [{}, {"struct_builder": True}, {"derives": ["JsonSchema"]}, {"map_type": "::std::collections::BTreeMap"}]
    fx = gen.fixture_docs()
    for name, doc in fx:
        for st in (settings if ctx.tier == "thorough" else settings[:2]):
            out.append(("fixture:" + name, {"settings": st, "calls": [{"root": doc}]}))
    # the keyword lattice of constrained strings (each of minLength / maxLength / pattern absent, zero-ish, ordinary) and the
    # other constructs that get a hand-written Deserialize or a bespoke derive set: one definition each, plus a holder struct
    lat = {}
    for mn in (None, 0, 1):
        for mx in (None, 0, 3):
            for pat in (None, "", "^[a-z]*$"):
                s_ = {"type": "string"}
                if mn is not None: s_["minLength"] = mn
                if mx is not None: s_["maxLength"] = mx
                if pat is not None: s_["pattern"] = pat
                lat["S%s%s%s" % ("x" if mn is None else mn, "x" if mx is None else mx, {None: "x", "": "e", "^[a-z]*$": "p"}[pat])] = s_
    lat.update({"DenyS": {"type": "string", "not": {"enum": ["x"]}}, "EnumI": {"type": "integer", "enum": [1, 2]}, "EnumS": {"type": "string", "enum": ["a"]},
                "EnumF": {"type": "number", "enum": [1.5]}, "Fl": {"type": "number"}, "FlS": {"type": "object", "properties": {"f": {"type": "number"}}},
                "FlE": {"oneOf": [{"type": "object", "properties": {"A": {"type": "number"}}, "required": ["A"], "additionalProperties": False},
                                  {"type": "string", "enum": ["B"]}]}})
    holder = {"title": "Holder", "type": "object", "properties": {k.lower(): {"$ref": "#/definitions/" + k} for k in lat}, "definitions": lat}
    # ... and under a conversion registered for exactly the PLAIN string schema (constrained strings are other schemas: their
    # newtypes keep their surface whatever plain strings convert to)
    conv = lambda ty: {"convert": [{"schema": {"type": "string"}, "type": ty, "impls": ["Display", "Default"]}]}
    for st in settings[:2] + [{"derives": ["::altser::Serialize", "::altser::Deserialize", "Eq"]}, {"derives": ["::std::hash::Hash", "::std::fmt::Debug"]},
                              conv("::std::boxed::Box<str>"), conv("::std::borrow::Cow<'static, str>")]:
        # (derive lists naming a crate that does not exist, or repeating a built-in derive, are for the syntactic half only)
        out.append(("lattice" if "derives" not in st else "lattice-syn", {"settings": st, "calls": [{"root": holder}]}))
    # per-type patch derives: comparison / hashing traits requested for ONE type whose name other definitions extend by a word
    # (some of them hold a float and could not derive Eq / Hash): they appear on the patched type only
    scope = {"title": "Holder2", "type": "object", "properties": {"a": {"$ref": "#/definitions/Sample"}, "b": {"$ref": "#/definitions/SampleRate"}},
             "definitions": {"Sample": {"type": "object", "properties": {"n": {"type": "integer"}, "s": {"type": "string"}}},
                             "SampleRate": {"type": "object", "properties": {"hz": {"type": "number"}}},
                             "SampleRateLimit": {"type": "object", "properties": {"max": {"type": "number"}}},
                             "Samp": {"type": "object", "properties": {"x": {"type": "number"}}},
                             "Kind": {"type": "string", "enum": ["a", "b"]}, "KindOf": {"type": "object", "properties": {"w": {"type": "number"}}}}}
    for pd in ({"name": "Sample", "derives": ["PartialEq", "Eq", "Hash"]}, {"name": "Kind", "derives": ["PartialOrd"]},
               {"name": "SampleRate", "derives": ["PartialEq"], "rename": "Rate"}):
        out.append(("lattice-patch", {"settings": {"patch": [pd]}, "calls": [{"root": scope}]}))
    import corpus
    for cid, cdoc, _ in corpus.documents():
        if cid.startswith(("hand:", "file:")): out.append(("corpus:" + cid, {"settings": settings[len(cid) % 2], "calls": [{"root": cdoc}]}))
    n = 400 if ctx.tier == "thorough" else 60
    for k in range(n):
        feats = set(gen.DEFAULT_FEATURES)
        if k % 3 == 1: feats = set(gen.ALL_FEATURES) - {"hostile_names", "invalid_defaults"}
        doc = gen.gen_universe(ctx.rng, 3 + k % 8, feats)
        out.append(("gen:%d" % k, {"settings": settings[k % len(settings)], "calls": [{"root": doc}]}))
    return out

def oracle_item(it, user_derives):
    """the property on one real item summary; returns list of failed clauses"""
    f = []
    d = set(m2.norm(it["derives"])); impls = set(m2.norm(it["impls"]))
    if not it["pub"]: f.append("not-pub")
    for t in ("Debug", "Clone", "::serde::Serialize"):
        if t not in d: f.append("missing-derive:" + t)
    hand = any(i.startswith("Deserialize<") for i in impls)
    if ("::serde::Deserialize" in d) == hand: f.append("deserialize-both-or-neither")
    if "From<&Self>" not in impls: f.append("missing-From<&Self>")
    simple = it["kind"] == "enum" and all(v["kind"] == "unit" for v in it["variants"])
    strnt = it["kind"] == "newtype" and m2.norm(it["fields"][0]["ty"]) == "::std::string::String"
    if simple:
        for t in ["Copy", "Eq", "Ord", "Hash"]:
            if t not in d: f.append("simple-enum-missing:" + t)
    if strnt:
        for t in ["Eq", "Ord", "Hash"]:
            if t not in d: f.append("string-newtype-missing:" + t)
    for t in CMP:
        if t in d and t not in user_derives and not simple and not (strnt and t != "Copy"):
            f.append("underivable-candidate:" + t)
    return f

def run(ctx):
    st = vlib.proof_stage(ctx, "C19", PROOF_TARGETS, PROOF_FILES, slices=["ir"])
    cs = cases(ctx)
    ans = m2.tvh_ir([c[1] for c in cs])
    ok = [i for i, a in enumerate(ans) if a["calls"] and a["calls"][-1].startswith("ok") and a["render"] == "ok" and a["parses"]]
    real = m2.real_summaries([ans[i]["code"] for i in ok])
    model = m2.model_summaries([(ans[i]["dump"], cs[i][1]["settings"]) for i in ok]) if st["driver_ok"] else [None] * len(ok)
    disagreements = []; items = 0; new_fail = []
    kinds = {}
    for k, i in enumerate(ok):
        user = set(cs[i][1]["settings"].get("derives", []))
        patches = cs[i][1]["settings"].get("patch", [])
        for it in real[k]["items"]:
            items += 1
            kinds[it["kind"]] = kinds.get(it["kind"], 0) + 1
            # a patch's derives are requested for the patched type (under its new name) and for no other
            mine = set(d_ for p_ in patches if it["name"] == (p_.get("rename") or p_["name"]) for d_ in p_.get("derives", []))
            fl = oracle_item(it, user | mine)
            if fl: new_fail.append((cs[i], it["name"], fl))
        if model[k] is not None:
            d = m2.diff_case(real[k], model[k])
            d = [x for x in d if x[1] in ("pub", "derives", "impls", "kind", "presence", "serde", "fields", "variants")]
            if d: disagreements.append({"case": cs[i][0], "input": cs[i][1], "diffs": [list(map(str, x))[:4] for x in d[:3]]})
        elif st["driver_ok"]:
            disagreements.append({"case": cs[i][0], "input": cs[i][1], "diffs": ["model could not read the IR dump"]})
    ctx.log("cases=%d ingested=%d items=%d disagreements=%d oracle_failures=%d" % (len(cs), len(ok), items, len(disagreements), len(new_fail)))
    # compiled trait-bound assertions (batch pipeline): T: Debug + Clone + Serialize + DeserializeOwned + From<&T> (+ extras)
    compiled = 0; bound_fail = []
    try:
        import batch
        b = batch.Batch("c19-" + ctx.tier, assertions=True)
        # the hand-written lattice under every settings assignment always, then the first cases of the rest
        lat_ = [i for i in ok if cs[i][0] == "lattice"]
        sel = lat_ + [i for i in ok if cs[i][0] != "lattice"][: (200 if ctx.tier == "thorough" else 24)]
        bc = [b.add_case(cs[i][1]["calls"], cs[i][1]["settings"], tag=cs[i][0]) for i in sel]
        def extra(case):
            items_ = []
            for t in case.types:
                if t.get("kind") == "enum" and t.get("variants") and all(v.get("kind") == "simple" for v in t["variants"]):
                    items_.append("const _: fn() = || { fn a<T: Copy + Eq + Ord + ::std::hash::Hash>() {} a::<super::%s>(); };" % t["name"])
            return "\n".join(items_)
        b.prepare(); b.build(extra_items=extra)
        for i, c in zip(sel, bc):
            if c.compiled: compiled += 1
            else:
                errs = [e for e in (c.rustc_errors or []) if "_assert" in json.dumps(e)]
                # (the lattice is written to compile: there any error leaves the trait surface of its types undecided)
                if not errs and cs[i][0] == "lattice" and not getattr(c, "skipped", False): errs = list(c.rustc_errors or [])[:2] or [{"message": "did not compile"}]
                if errs: bound_fail.append((cs[i], errs[:2]))
    except Exception as e:   # pipeline not available: say so, do not fail the check
        ctx.notes.append("batch pipeline unavailable for bound assertions: %r" % (e,))
    for c, errs in bound_fail[:3]:
        vlib.violation(ctx, {"property": "C19", "kind": "trait-bound assertion does not compile on the real output",
                             "input": c[1], "rustc": errs})
    broken = list(st["broken"])
    if disagreements: broken.append("correspondence M2 (render): model and implementation disagree on %d cases" % len(disagreements))
    seen = set()
    for c, name, fl in new_fail:
        key = tuple(fl)
        if key in seen or len(ctx.violations) >= 5: continue
        seen.add(key)
        vlib.violation(ctx, {"property": "C19", "kind": "implementation violates the property", "input": c[1], "case": c[0],
                             "item": name, "failed_clauses": fl, "broken_obligations": broken})
    if broken and not new_fail and not bound_fail:
        vlib.violation(ctx, {"property": "C19", "kind": "property no longer shown to hold", "broken_obligations": broken,
                             "first_disagreements": disagreements[:3], "lean_log": st.get("log", "")}, no_input=True)
    cov = {"obligations": st["obligations"], "discharged": st["discharged"],
           "checker_cmd": "cd /verif/lean && lake build TypifyModel.Proofs.C19 && lake env lean TypifyModel/Audit/C19.lean",
           "trusted_base": vlib.TRUSTED_BASE + ["tvh_m2 (syn summary of the emitted items)", "rustc for the compiled bound assertions"],
           "axioms": st.get("axioms", {}),
           "evaluations": items, "distinct_nontrivial": items,
           "rule": "every named item of every ingested case (fixtures x settings + type-directed generated schemas); an item is one (case, type name); all are non-trivial (each is a generated type the property quantifies over)",
           "samples": [cs[i][0] for i in ok[:5]] + [cs[ok[-1]][1]] if ok else [],
           "cases": len(cs), "cases_ingested": len(ok), "item_kinds": kinds,
           "traces_validated_against_impl": len(ok) - len(disagreements),
           "model_disagreements": len(disagreements), "impl_oracle_failures_new": len(new_fail),
           "compiled_cases_with_bound_assertions": compiled, "tables_regenerated": st["tables_ok"]}
    vlib.write_evidence(ctx, "proof", cov, [
        "rustc/serde derive semantics are not modelled: derivability is stated against two hand-written tables (fieldlessDerivable, stringImplements) and exercised by compiled bound assertions",
        "the Render model is hand-written; its tie to to_stream() is the M2 differential over the listed cases"])

def replay(ctx, path):
    obj = json.load(open(path))
    if "input" not in obj:
        print("replay file names broken obligations only:", obj.get("broken_obligations")); return 1
    a = m2.tvh_ir([obj["input"]])[0]
    if not a["parses"]: print("output does not parse"); return 1
    real = m2.real_summaries([a["code"]])[0]
    bad = 0
    for it in real["items"]:
        fl = oracle_item(it, set(obj["input"]["settings"].get("derives", [])))
        if fl: print(it["name"], fl); bad += 1
    model = m2.model_summaries([(a["dump"], obj["input"]["settings"])])[0]
    d = m2.diff_case(real, model) if model else ["model failed"]
    print("oracle failures:", bad, "model diffs:", d[:3])
    return 1 if bad or d else 0

"""C06 — defaults are reproduced exactly, or rejected when the schema is added.
Theorems: lean/TypifyModel/Proofs/C06.lean (default_value_partial, bad_default_partial, bad_default_is_err, generic_default,
generic_default_reaches, no_late_panic_partial, default_same_builder / _de_dflt / _build, default_fn_value) over
Model/{Defaults,Value,DefaultsWF}.lean (+ Serde / Builder); refutation of the full statement in Proofs/C06Findings.lean.

Stages
  (a) proofs + axiom audit
  (b) M0: validate_value / output_value / default_fn (hooks, tvh_c06) vs the Lean models (drv_c06) over a grid
      "every IR kind x candidate defaults" and over the default sites of generated documents (+ perturbed values);
      has_default through the IR dump; check_defaults through TypeSpace.defaults
  (c) M3 on compiled code (tools/batch.py): `de` of the owning struct with defaulted members omitted, `build` with nothing
      optional set, `default` of named types - against the Serde/Builder models (m3.compare) and against the oracle:
        o1 realised member == de-then-se of the schema default through the same compiled member type
        o2 builder with nothing optional set == de of the object without the members
        o3 Default::default() == de of the type's default (or of {} when every member has a default)
        o4 realised member and schema default are valid under the property schema (tools/oracle.py)
  (d) a default that is invalid under its schema => the add call is err:* (never panic / render panic / no-compile)
"""
import json, os, subprocess
import vlib, m3, gen
from batch import Batch, J, canon

PROOF_TARGETS = ["TypifyModel.Proofs.C06"]
FINDINGS_TARGET = "TypifyModel.Proofs.C06Findings"
PROOF_FILES = ["Proofs/C06.lean", "Proofs/Lemmas/DefaultsLemmas.lean", "Proofs/Lemmas/DefaultsMaster.lean",
               "Proofs/Lemmas/DefaultsStruct.lean", "Proofs/Lemmas/DefaultsEnum.lean"]
SETTINGS = {"struct_builder": True}

# ------------------------------------------------------------------------------------------ grid: every type kind
_STRUCT = {"type": "object", "required": ["a"], "properties": {"a": {"type": "integer"}, "t": {"type": "string"},
           "b": {"type": "boolean", "default": True}}}
GRID_DEFS = {
  "B": {"type": "boolean"},
  "I": {"type": "integer"}, "U8": {"type": "integer", "format": "uint8"}, "I8": {"type": "integer", "format": "int8"},
  "U16": {"type": "integer", "format": "uint16"}, "I32": {"type": "integer", "format": "int32"},
  "U64": {"type": "integer", "format": "uint64"}, "Rng": {"type": "integer", "minimum": -5, "maximum": 100},
  "Nz": {"type": "integer", "minimum": 1}, "Nz8": {"type": "integer", "format": "uint8", "minimum": 1},
  "F": {"type": "number"}, "F32": {"type": "number", "format": "float"},
  "S": {"type": "string"}, "N3": {"type": "string", "maxLength": 3}, "M2": {"type": "string", "minLength": 2},
  "Pat": {"type": "string", "pattern": "^[a-z]+$"},
  "E": {"type": "string", "enum": ["red", "green", "b-c"]},
  "Deny": {"type": "string", "not": {"enum": ["bad", "worse"]}},
  "Nul": {"type": "null"},
  "OptS": {"type": ["string", "null"]}, "OptI": {"type": ["integer", "null"]},
  "VecI": {"type": "array", "items": {"type": "integer"}}, "VecU8": {"type": "array", "items": {"type": "integer", "format": "uint8"}},
  "VecS": {"type": "array", "items": {"type": "string"}},
  "SetS": {"type": "array", "items": {"type": "string"}, "uniqueItems": True},
  "SetI": {"type": "array", "items": {"type": "integer"}, "uniqueItems": True},
  "MapI": {"type": "object", "additionalProperties": {"type": "integer"}},
  "MapS": {"type": "object", "additionalProperties": {"type": "string"}},
  "T1": {"type": "array", "items": [{"type": "integer"}], "minItems": 1, "maxItems": 1},
  "T2": {"type": "array", "items": [{"type": "integer"}, {"type": "string"}], "minItems": 2, "maxItems": 2},
  "T3": {"type": "array", "items": [{"type": "integer"}, {"type": "string"}, {"type": "boolean"}], "minItems": 3, "maxItems": 3},
  "A2": {"type": "array", "items": {"type": "integer"}, "minItems": 2, "maxItems": 2},
  "St": _STRUCT,
  "Closed": {"type": "object", "properties": {"x": {"type": "integer"}}, "additionalProperties": False},
  "Ren": {"type": "object", "required": ["foo-bar"], "properties": {"foo-bar": {"type": "integer"}, "Type": {"type": "string"}}},
  "Fs": {"type": "object", "properties": {"a": {"type": "integer"}}, "additionalProperties": {"type": "string"}},
  "Nest": {"type": "object", "properties": {"s": {"$ref": "#/definitions/St"}, "v": {"type": "array", "items": {"$ref": "#/definitions/E"}}}},
  "NestD": {"type": "object", "properties": {"n": {"type": "integer", "default": 5}, "c": {"allOf": [{"$ref": "#/definitions/E"}], "default": "red"}}},
  "Ext": {"oneOf": [{"type": "string", "enum": ["Unit"]},
                    {"type": "object", "required": ["It"], "properties": {"It": {"type": "integer"}}, "additionalProperties": False},
                    {"type": "object", "required": ["Tu"], "properties": {"Tu": {"type": "array", "items": [{"type": "integer"}, {"type": "string"}], "minItems": 2, "maxItems": 2}}, "additionalProperties": False},
                    {"type": "object", "required": ["T1"], "properties": {"T1": {"type": "array", "items": [{"type": "integer"}], "minItems": 1, "maxItems": 1}}, "additionalProperties": False},
                    {"type": "object", "required": ["Sv"], "properties": {"Sv": {"type": "object", "required": ["x"], "properties": {"x": {"type": "integer"}, "y": {"type": "string"}}}}, "additionalProperties": False}]},
  "Int": {"oneOf": [{"type": "object", "required": ["kind"], "properties": {"kind": {"type": "string", "enum": ["a"]}}},
                    {"type": "object", "required": ["kind", "v"], "properties": {"kind": {"type": "string", "enum": ["b"]}, "v": {"type": "integer"}, "w": {"type": "string"}}}]},
  "Adj": {"oneOf": [{"type": "object", "required": ["t"], "properties": {"t": {"type": "string", "enum": ["u"]}}},
                    {"type": "object", "required": ["t", "c"], "properties": {"t": {"type": "string", "enum": ["a"]}, "c": {"type": "integer"}}},
                    {"type": "object", "required": ["t", "c"], "properties": {"t": {"type": "string", "enum": ["s"]}, "c": {"type": "object", "required": ["x"], "properties": {"x": {"type": "integer"}}}}},
                    {"type": "object", "required": ["t", "c"], "properties": {"t": {"type": "string", "enum": ["p"]}, "c": {"type": "array", "items": [{"type": "integer"}, {"type": "integer"}], "minItems": 2, "maxItems": 2}}}]},
  "Unt": {"oneOf": [{"type": "integer", "format": "uint8"}, {"type": "string"}, {"type": "array", "items": {"type": "integer"}}]},
  "UntN": {"oneOf": [{"type": "integer", "format": "uint8"}, {"type": "number"}]},
  "UntS": {"oneOf": [{"type": "object", "required": ["v"], "properties": {"v": {"type": "array", "items": {"type": "integer", "format": "uint8"}}}},
                     {"type": "object", "required": ["v"], "properties": {"v": {"type": "array", "items": {"type": "integer"}}}}]},
  "NtI": {"$ref": "#/definitions/I"}, "NtE": {"$ref": "#/definitions/E"},
  "Rec": {"type": "object", "properties": {"next": {"$ref": "#/definitions/Rec"}, "v": {"type": "integer"}}},
  "Any": {},
  "Uu": {"type": "string", "format": "uuid"},
}
VALUES = [None, True, False, 0, 1, -1, 5, 100, 101, 127, 128, 255, 256, 300, -129, 65535, 65536, 2**31, 2**63 - 1, 2**63, 2**64 - 1,
          -2**63, 1.5, 0.0, -2.5, 2.0, "", "a", "ab", "abc", "abcd", "red", "b-c", "blue", "bad", "Unit", "u", "9x",
          [], [1], [300], [1, 2], [1, 2, 3], [1, "x"], [1, "x", True], ["x", 1], [1, 1], ["a", "a"], ["a", "b"], [[1]], ["red", "green"], ["red", "zz"],
          {}, {"a": 1}, {"a": "x"}, {"a": 1, "t": "q"}, {"a": 1, "b": False}, {"a": 1, "zz": 2}, {"a": 1, "zz": "q"}, {"zz": 1}, {"k": "v"}, {"x": 1}, {"x": 1, "y": 2},
          {"foo-bar": 1}, {"foo-bar": 1, "Type": "z"}, {"foo_bar": 1}, {"s": {"a": 1}}, {"s": {}}, {"v": ["red"]}, {"n": 1}, {"c": "green"}, {"next": {"v": 1}}, {"next": {"next": {}}},
          {"It": 3}, {"It": "s"}, {"Tu": [1, "s"]}, {"Tu": [1]}, {"T1": [1]}, {"T1": 1}, {"Sv": {"x": 1}}, {"Sv": {"y": "s"}}, {"Unit": None}, {"It": 3, "Tu": [1, "s"]},
          {"kind": "a"}, {"kind": "b", "v": 1}, {"kind": "b"}, {"kind": "b", "v": 1, "w": "s"}, {"kind": "b", "v": 1, "zz": 0}, {"kind": "c"}, {"kind": 1},
          {"t": "u"}, {"t": "a", "c": 3}, {"t": "a"}, {"t": "a", "c": "s"}, {"t": "s", "c": {"x": 1}}, {"t": "p", "c": [1, 2]}, {"t": "p", "c": [1]}, {"t": "u", "c": None}, {"t": "a", "c": 3, "z": 1},
          {"v": [1]}, {"v": [300]}, {"v": ["s"]}, "00000000-0000-0000-0000-000000000000", "not-a-uuid"]

# (property schema, default) pairs for has_default / struct_property
HD_TYPES = [{"type": "boolean"}, {"type": "integer"}, {"type": "integer", "minimum": 1}, {"type": "number"}, {"type": "string"},
            {"type": "null"}, {"type": ["string", "null"]}, {"type": "array", "items": {"type": "integer"}},
            {"type": "array", "items": {"type": "string"}, "uniqueItems": True}, {"type": "object", "additionalProperties": {"type": "integer"}},
            {"type": "array", "items": [{"type": "integer"}], "minItems": 1, "maxItems": 1}, {"type": "string", "enum": ["red", "green"]}, {}]
HD_VALUES = ["<none>", None, False, True, 0, 1, 0.0, 1.5, "", "red", [], [1], {}, {"k": 1}]

# documents for the compiled-code stage: valid defaults of every kind inside properties and on named types
_E = {"type": "string", "enum": ["red", "green", "b-c"]}
HAND_DOCS = [
  ("scalars", {"title": "Root", "type": "object", "required": ["r"], "properties": {"r": {"type": "integer"},
      "bt": {"type": "boolean", "default": True}, "bf": {"type": "boolean", "default": False},
      "ip": {"type": "integer", "default": 5}, "i1": {"type": "integer", "default": 1}, "im": {"type": "integer", "default": -3}, "iz": {"type": "integer", "default": 0},
      "u8": {"type": "integer", "format": "uint8", "default": 255}, "i8": {"type": "integer", "format": "int8", "default": -128},
      "u64": {"type": "integer", "format": "uint64", "default": 18446744073709551615},
      "nz": {"type": "integer", "minimum": 1, "default": 7}, "rng": {"type": "integer", "minimum": -5, "maximum": 100, "default": -5},
      "s": {"type": "string", "default": "hi"}, "se": {"type": "string", "default": ""},
      "f": {"type": "number", "default": 1.5}, "fi": {"type": "number", "default": 2}, "fz": {"type": "number", "default": 0.0},
      "u": {"type": "null", "default": None}, "any": {"default": {"k": [1, None]}}}}),
  ("containers", {"title": "Root", "type": "object", "properties": {
      "os": {"type": ["string", "null"], "default": "d"}, "on": {"type": ["string", "null"], "default": None},
      "v": {"type": "array", "items": {"type": "integer"}, "default": [1, 2]}, "ve": {"type": "array", "items": {"type": "integer"}, "default": []},
      "vs": {"type": "array", "items": {"$ref": "#/definitions/St"}, "default": [{"a": 1}, {"a": 2, "t": "x"}]},
      "set": {"type": "array", "items": {"type": "string"}, "uniqueItems": True, "default": ["a", "b"]},
      "m": {"type": "object", "additionalProperties": {"type": "integer"}, "default": {"k": 1, "j": 2}},
      "me": {"type": "object", "additionalProperties": {"type": "integer"}, "default": {}},
      "t1": {"type": "array", "items": [{"type": "integer"}], "minItems": 1, "maxItems": 1, "default": [3]},
      "t2": {"type": "array", "items": [{"type": "integer"}, {"type": "string"}], "minItems": 2, "maxItems": 2, "default": [3, "x"]},
      "t3": {"type": "array", "items": [{"type": "integer"}, {"type": "string"}, {"type": "boolean"}], "minItems": 3, "maxItems": 3, "default": [3, "x", True]},
      "a2": {"type": "array", "items": {"type": "integer"}, "minItems": 2, "maxItems": 2, "default": [7, 8]}},
    "definitions": {"St": _STRUCT}}),
  ("named", {"title": "Root", "type": "object", "properties": {
      "st": {"allOf": [{"$ref": "#/definitions/St"}], "default": {"a": 1, "t": "z", "b": False}},
      "ren": {"allOf": [{"$ref": "#/definitions/Ren"}], "default": {"foo-bar": 4, "Type": "q"}},
      "e": {"allOf": [{"$ref": "#/definitions/E"}], "default": "b-c"},
      "n3": {"allOf": [{"$ref": "#/definitions/N3"}], "default": "ab"}, "pat": {"allOf": [{"$ref": "#/definitions/Pat"}], "default": "xyz"},
      "nti": {"allOf": [{"$ref": "#/definitions/NtI"}], "default": 9}, "u8": {"allOf": [{"$ref": "#/definitions/U8"}], "default": 200},
      "fs": {"allOf": [{"$ref": "#/definitions/Fs"}], "default": {"a": 1, "zz": "q"}},
      "rec": {"allOf": [{"$ref": "#/definitions/Rec"}], "default": {"v": 1, "next": {"v": 2}}}},
    "definitions": {"St": _STRUCT, "E": _E, "N3": {"type": "string", "maxLength": 3}, "Pat": {"type": "string", "pattern": "^[a-z]+$"},
      "Ren": GRID_DEFS["Ren"], "NtI": {"type": "integer"}, "U8": {"type": "integer", "format": "uint8"}, "Fs": GRID_DEFS["Fs"],
      "Rec": GRID_DEFS["Rec"]}}),
  ("enums", {"title": "Root", "type": "object", "properties": {
      "xu": {"allOf": [{"$ref": "#/definitions/Ext"}], "default": "Unit"}, "xi": {"allOf": [{"$ref": "#/definitions/Ext"}], "default": {"It": 3}},
      "xt": {"allOf": [{"$ref": "#/definitions/Ext"}], "default": {"Tu": [1, "s"]}}, "x1": {"allOf": [{"$ref": "#/definitions/Ext"}], "default": {"T1": [1]}},
      "xs": {"allOf": [{"$ref": "#/definitions/Ext"}], "default": {"Sv": {"x": 1}}},
      "ia": {"allOf": [{"$ref": "#/definitions/Int"}], "default": {"kind": "a"}}, "ib": {"allOf": [{"$ref": "#/definitions/Int"}], "default": {"kind": "b", "v": 1}},
      "au": {"allOf": [{"$ref": "#/definitions/Adj"}], "default": {"t": "u"}}, "aa": {"allOf": [{"$ref": "#/definitions/Adj"}], "default": {"t": "a", "c": 3}},
      "as": {"allOf": [{"$ref": "#/definitions/Adj"}], "default": {"t": "s", "c": {"x": 1}}}, "ap": {"allOf": [{"$ref": "#/definitions/Adj"}], "default": {"t": "p", "c": [1, 2]}},
      "un": {"allOf": [{"$ref": "#/definitions/Unt"}], "default": "s"}, "uv": {"allOf": [{"$ref": "#/definitions/Unt"}], "default": [1, 2]},
      "u3": {"allOf": [{"$ref": "#/definitions/UntN"}], "default": 300}, "us": {"allOf": [{"$ref": "#/definitions/UntS"}], "default": {"v": [300]}}},
    "definitions": {k: GRID_DEFS[k] for k in ("Ext", "Int", "Adj", "Unt", "UntN", "UntS")}}),
  # numeric defaults at and beyond the edges of i64 / u64 / 2^53 (valid for their types): reproduced exactly
  ("number-edges", {"title": "Root", "type": "object", "properties": {
      "f1": {"type": "number", "default": 1e300}, "f2": {"type": "number", "default": 1e19}, "f3": {"type": "number", "default": -1e19},
      "f4": {"type": "number", "default": 9007199254740993}, "f5": {"type": "number", "default": 2.5e-7},
      "u1": {"type": "integer", "format": "uint64", "default": 18446744073709551615}, "u2": {"type": "integer", "format": "uint64", "default": 9223372036854775808},
      "i1": {"type": "integer", "format": "int64", "default": -9223372036854775808}, "i2": {"type": "integer", "default": 9007199254740993},
      "a1": {"type": "array", "items": {"type": "number"}, "default": [1e19, 0.5]}, "m1": {"default": {"k": 1e300}}}}),
  # enumerated values that differ in case / separators only (distinct variant identifiers all the same): the default names
  # exactly ONE of them
  ("near-values", {"title": "Root", "type": "object", "properties": {
      "p1": {"allOf": [{"$ref": "#/definitions/Unit"}], "default": "mW"}, "p2": {"allOf": [{"$ref": "#/definitions/Unit"}], "default": "MW"},
      "p3": {"allOf": [{"$ref": "#/definitions/Unit"}], "default": "kW"},
      "q1": {"allOf": [{"$ref": "#/definitions/Sep"}], "default": "a-b"}, "q2": {"allOf": [{"$ref": "#/definitions/Sep"}], "default": "ab"},
      "t1": {"allOf": [{"$ref": "#/definitions/Tagged"}], "default": {"Kw": 1}}, "t2": {"allOf": [{"$ref": "#/definitions/Tagged"}], "default": {"KW": 2}}},
    "definitions": {"Unit": {"type": "string", "enum": ["mW", "MW", "kW"]}, "Sep": {"type": "string", "enum": ["a-b", "ab"]},
                    "Tagged": {"oneOf": [{"type": "object", "required": ["Kw"], "properties": {"Kw": {"type": "integer"}}, "additionalProperties": False},
                                         {"type": "object", "required": ["KW"], "properties": {"KW": {"type": "integer"}}, "additionalProperties": False}]},
                    "DU": {"type": "string", "enum": ["mW", "MW"], "default": "MW"}}}),
  ("type-defaults", {"title": "Root", "type": "object", "properties": {"a": {"$ref": "#/definitions/DS"}, "b": {"$ref": "#/definitions/DE"}, "c": {"$ref": "#/definitions/DN"}},
    "definitions": {"DS": dict(_STRUCT, default={"a": 3, "t": "w"}), "DE": dict(_E, default="green"),
                    "DN": {"type": "integer", "format": "uint16", "default": 515},
                    "AllD": {"type": "object", "properties": {"x": {"type": "integer", "default": 4}, "y": {"type": "array", "items": {"type": "string"}}, "z": {"type": "string", "default": "q"}}}}}),
]
# one invalid default per document: the add call must be an error
BAD_DEFAULTS = [({"type": "boolean"}, 1), ({"type": "integer"}, "x"), ({"type": "integer"}, 1.5), ({"type": "integer", "format": "uint8"}, 300),
  ({"type": "integer", "format": "uint8"}, -1), ({"type": "integer", "minimum": 1}, 0), ({"type": "string"}, 5), ({"type": "string"}, None), ({"type": "number"}, "x"),
  ({"type": "null"}, 0), ({"type": "array", "items": {"type": "integer"}}, [1, "x"]), ({"type": "array", "items": {"type": "integer"}}, {}),
  ({"type": "array", "items": {"type": "integer", "format": "uint8"}}, [300]),
  ({"type": "array", "items": {"type": "string"}, "uniqueItems": True}, ["a", "a"]), ({"type": "object", "additionalProperties": {"type": "integer"}}, {"k": "v"}),
  ({"type": "object", "additionalProperties": {"type": "integer"}}, []), ({"type": "array", "items": [{"type": "integer"}], "minItems": 1, "maxItems": 1}, [1, 2]),
  ({"type": "array", "items": [{"type": "integer"}, {"type": "string"}], "minItems": 2, "maxItems": 2}, ["x", 1]),
  ({"type": "array", "items": {"type": "integer"}, "minItems": 2, "maxItems": 2}, [1]),
  ({"$ref": "#/definitions/St"}, {}), ({"$ref": "#/definitions/St"}, {"a": "x"}), ({"$ref": "#/definitions/St"}, [1]),
  ({"$ref": "#/definitions/E"}, "blue"), ({"$ref": "#/definitions/E"}, 1), ({"$ref": "#/definitions/N3"}, "toolong"), ({"$ref": "#/definitions/Pat"}, "9x"),
  ({"$ref": "#/definitions/U8"}, 300), ({"$ref": "#/definitions/Nz"}, 0), ({"$ref": "#/definitions/Deny"}, "bad"),
  ({"$ref": "#/definitions/Ext"}, "Nope"), ({"$ref": "#/definitions/Ext"}, {"It": "s"}), ({"$ref": "#/definitions/Ext"}, {"Tu": [1]}), ({"$ref": "#/definitions/Ext"}, {"Unit": None}),
  ({"$ref": "#/definitions/Int"}, {"kind": "c"}), ({"$ref": "#/definitions/Int"}, {"kind": "b"}), ({"$ref": "#/definitions/Adj"}, {"t": "a"}),
  ({"$ref": "#/definitions/Adj"}, {"t": "a", "c": "s"}), ({"$ref": "#/definitions/Unt"}, 300), ({"$ref": "#/definitions/Unt"}, {"k": 1})]
# integer bounds (the default fits the Rust integer type, not the schema's range), then every plainly typed entry again in the
# nullable spelling `type: [T, "null"]` (the same default is just as invalid there)
BAD_DEFAULTS += [({"type": "integer", "minimum": 0, "maximum": 100}, 200), ({"type": "integer", "minimum": 10}, 5), ({"type": "integer", "maximum": -1}, 0),
                 ({"type": "integer", "exclusiveMinimum": 0}, 0), ({"type": "integer", "format": "uint32", "minimum": 1, "maximum": 10}, 11),
                 ({"type": "integer", "format": "int64", "minimum": -5, "maximum": 5}, -6)]
# fixed-length arrays of every size class (std / serde implement their traits for arrays up to 32 items): the wrong number of items
BAD_DEFAULTS += [({"type": "array", "items": {"type": "integer"}, "minItems": n_, "maxItems": n_}, [0] * (n_ + d_)) for n_ in (3, 12, 32, 33, 40) for d_ in (-1, 1)]
BAD_DEFAULTS += [(dict(s_, type=[s_["type"], "null"]), dv_) for s_, dv_ in list(BAD_DEFAULTS)
                 if isinstance(s_.get("type"), str) and s_["type"] != "null" and dv_ is not None]
BAD_DEFS = {k: GRID_DEFS[k] for k in ("St", "E", "N3", "Pat", "U8", "Nz", "Deny", "Ext", "Int", "Adj", "Unt")}

# ------------------------------------------------------------------------------------------ known findings (predicates)
def _entries(dump): return dump.get("entries", {}) if dump else {}

def has_native(dump, tid, _seen=None):
    """the type tree of `tid` contains a Native entry (validate_value accepts any default there)"""
    seen = _seen if _seen is not None else set()
    if tid in seen: return False
    seen.add(tid)
    e = _entries(dump).get(str(tid))
    if not e: return False
    k = e["kind"]
    if k == "native": return True
    subs = []
    if k in ("option", "box", "vec", "set", "array"): subs = [e["id"]]
    elif k == "map": subs = [e["key"], e["value"]]
    elif k == "tuple": subs = e["ids"]
    elif k == "newtype": subs = [e["type_id"]]
    elif k == "struct": subs = [p["type_id"] for p in e["props"]]
    elif k == "enum":
        for v in e["variants"]:
            d = v["details"]
            if isinstance(d, dict):
                subs += [d["item"]] if "item" in d else d.get("tuple", []) + [p["type_id"] for p in d.get("struct", [])]
    return any(has_native(dump, s, seen) for s in subs)

def omits_defaulted_member(dump, tid, value, fuel=12):
    """somewhere in (type, default) a struct default omits a member whose own state is Default(..): typify writes
    `Default::default()` for it (negated conjunct of WFDefault / wfStruct)"""
    if fuel == 0: return False
    e = _entries(dump).get(str(tid))
    if not e: return False
    k = e["kind"]
    rec = lambda t, v: omits_defaulted_member(dump, t, v, fuel - 1)
    def props(ps, obj):
        if not isinstance(obj, dict): return False
        for p in ps:
            wire = p["rename"]["rename"] if isinstance(p["rename"], dict) else p["name"]
            if p["rename"] == "flatten": continue
            if wire in obj:
                if rec(p["type_id"], obj[wire]): return True
            elif isinstance(p["state"], dict): return True
        return False
    if k == "struct": return props(e["props"], value)
    if k in ("option", "box", "newtype"): return value is not None and rec(e["id"] if k != "newtype" else e["type_id"], value)
    if k in ("vec", "set", "array"): return isinstance(value, list) and any(rec(e["id"], x) for x in value)
    if k == "tuple": return isinstance(value, list) and any(rec(t, x) for t, x in zip(e["ids"], value))
    if k == "map": return isinstance(value, dict) and any(rec(e["value"], x) for x in value.values())
    if k == "enum":
        # the payload may be the value itself (untagged), the single member's value (external), the content member
        # (adjacent) or the object without its tag (internal): try each against every variant it could belong to
        cands = [value] + (list(value.values()) if isinstance(value, dict) else [])
        for v in e["variants"]:
            d = v["details"]
            if not isinstance(d, dict): continue
            for c in cands:
                if "item" in d and rec(d["item"], c): return True
                if "tuple" in d and isinstance(c, list) and len(c) == len(d["tuple"]) and any(rec(t, x) for t, x in zip(d["tuple"], c)): return True
                if "struct" in d and isinstance(c, dict):
                    req = [wire_(p) for p in d["struct"] if p["state"] == "required"]
                    if all(r in c for r in req) and props(d["struct"], c): return True
    return False

def wire_(p): return p["rename"]["rename"] if isinstance(p["rename"], dict) else p["name"]

FINDING_WITNESS = {
  "C06-nested-default": {"settings": SETTINGS, "calls": [{"root": {"title": "Root", "type": "object", "properties": {
      "s": {"allOf": [{"$ref": "#/definitions/Inner"}], "default": {}}},
      "definitions": {"Inner": {"type": "object", "properties": {"a": {"type": "integer", "default": 5}}}}}}]},
  "C06-default-ignored": {"settings": SETTINGS, "calls": [{"root": {"title": "Root", "type": "object", "properties": {"t": {"$ref": "#/definitions/T"}},
      "definitions": {"T": {"type": "string", "default": None}}}}]},
  "C06-ref-int-bounds": {"settings": SETTINGS, "calls": [{"root": {"title": "Root", "type": "object", "properties": {
      "p": {"allOf": [{"$ref": "#/definitions/I"}], "default": 5}, "q": {"type": "array", "items": {"$ref": "#/definitions/I"}, "default": [12, 99]}},
      "definitions": {"I": {"type": "integer", "minimum": 10, "maximum": 20}}}}]},
  "C06-native-default": {"settings": SETTINGS, "calls": [{"root": {"title": "Root", "type": "object", "properties": {
      "id": {"type": "string", "format": "uuid", "default": "not-a-uuid"}}}}]},
}

# ------------------------------------------------------------------------------------------ plumbing
def tvh(reqs):
    lines = [json.dumps(r) for r in reqs]
    out = vlib.run_side("impl", "c06", lines)
    if len(out) != len(lines): raise RuntimeError("tvh_c06: %d answers for %d requests" % (len(out), len(lines)))
    return [json.loads(o) if o != "panic" else {"error": "panic"} for o in out]

def drv(reqs):
    lines = [json.dumps(r) for r in reqs]
    out = vlib.run_side("model", "c06", lines)
    if len(out) != len(lines): raise RuntimeError("drv_c06: %d answers for %d requests" % (len(out), len(lines)))
    return [json.loads(o) for o in out]

def in_model_domain(v):
    """numbers the Json model carries exactly and prints like serde_json does"""
    if isinstance(v, bool) or v is None or isinstance(v, str): return True
    if isinstance(v, int): return -2**63 <= v <= 2**64 - 1
    if isinstance(v, float): return abs(v) < 1e15 and (v == 0 or abs(v) >= 1e-4) and float(repr(v)) == v
    if isinstance(v, list): return all(in_model_domain(x) for x in v)
    if isinstance(v, dict): return all(in_model_domain(x) for x in v.values())
    return False

def sites_of(dump):
    """[(owner, prop, type_id, default)] for every property with state Default and every named type with a default"""
    out = []
    for tid, e in sorted(_entries(dump).items(), key=lambda kv: int(kv[0])):
        if e["kind"] in ("struct", "enum", "newtype") and e.get("default") is not None:
            out.append((e["name"], "", int(tid), e["default"]))
        ps = []
        if e["kind"] == "struct": ps = [(e["name"], p) for p in e["props"]]
        if e["kind"] == "enum":
            for v in e["variants"]:
                if isinstance(v["details"], dict) and "struct" in v["details"]:
                    ps += [(e["name"] + "::" + v["ident_name"], p) for p in v["details"]["struct"]]
        for owner, p in ps:
            if isinstance(p["state"], dict): out.append((owner, p["name"], p["type_id"], p["state"]["default"]))
    return out

def probe_diff(a, b):
    """which answers of the hook (a) and of the model (b) differ for one probe"""
    bad = []
    if a["validate"] != b["validate"]: bad.append("validate")
    if a["output_status"] != b["output_status"]: bad.append("output_status")
    elif a["output_status"] == "ok" and a["output"] != b["output"]: bad.append("output")
    if "default_fn" in a and a["validate"].startswith("ok"):
        fa, fb = a["default_fn"], b["default_fn"]
        ka = "panic" if fa["status"] == "panic" else ("custom" if fa.get("custom") is not None else fa["path"].split("::")[1])
        if ka != fb["kind"]: bad.append("default_fn")
        elif ka.startswith("default_") and ka != "default_bool":
            want = "defaults::%s::<%s, %d>" % (ka, fb["ty"], fb["n"])
            if fa["path"] != want: bad.append("default_fn path")
    return bad

def m0_compare(ctx, tag, request, ans, stats, dis):
    """hook answers vs model answers for the probes of one request"""
    probes = request.get("probes", [])
    keep = [(p, a) for p, a in zip(probes, ans.get("probes", [])) if a.get("id") is not None]
    if not keep or not ans.get("dump"): return
    mod = drv([{"dump": ans["dump"], "probes": [{"id": a["id"], "value": p["value"]} for p, a in keep]}])[0]
    for (p, a), b in zip(keep, mod.get("probes", [])):
        stats["m0_probes"] += 1
        if b.get("validate") == "fuel" or b.get("output_status") == "fuel": stats["m0_fuel"] += 1; continue
        stats["validate:" + a["validate"].split("(")[0]] = stats.get("validate:" + a["validate"].split("(")[0], 0) + 1
        bad = probe_diff(a, b)
        if bad: dis.append({"stage": "M0", "case": tag, "what": bad, "request": dict(request, probes=[p]), "impl": a, "model": b})
        else:
            stats["m0_agree"] += 1
            if b.get("wf") and a["validate"].startswith("ok"):
                stats["wf_accepted"] += 1
                if a["output_status"] != "ok" or b.get("well_typed") is not True or not str(b.get("value", "")).startswith("ok"):
                    dis.append({"stage": "theorem-twin", "case": tag, "what": ["default_value_partial body false on a WF input"],
                                "request": dict(request, probes=[p]), "impl": a, "model": b})

def minimal(dump, tid, fuel=6):
    """a small valid JSON value for the entry (None when not synthesised)"""
    e = _entries(dump).get(str(tid))
    if not e or fuel == 0: return None
    k = e["kind"]
    if k == "boolean": return True
    if k == "integer": return 1
    if k == "float": return 1.5
    if k == "string": return "a"
    if k == "unit": return None
    if k == "json_value": return {"j": 1}
    if k == "option": return None
    if k in ("vec", "set"): return []
    if k == "map": return {}
    if k == "box": return minimal(dump, e["id"], fuel - 1)
    if k == "newtype" and e["constraints"] is None: return minimal(dump, e["type_id"], fuel - 1)
    if k == "newtype" and "enum" in (e["constraints"] or {}): return e["constraints"]["enum"][0]
    if k == "enum" and e["tag"] == "external":
        for v in e["variants"]:
            if v["details"] == "simple": return v["raw_name"]
    if k == "struct":
        out = {}
        for p in e["props"]:
            if p["rename"] == "flatten": continue
            if p["state"] == "required":
                v = minimal(dump, p["type_id"], fuel - 1)
                if v is None and _entries(dump).get(str(p["type_id"]), {}).get("kind") not in ("option", "unit"): return None
                out[p["rename"]["rename"] if isinstance(p["rename"], dict) else p["name"]] = v
        return out
    return None

def wire(p): return p["rename"]["rename"] if isinstance(p["rename"], dict) else p["name"]

# ------------------------------------------------------------------------------------------ stages
def stage_m0(ctx, stats, dis):
    reqs = []
    # grid: every type x every value, through the hook
    names = list(GRID_DEFS)
    base = tvh([{"settings": {}, "calls": [{"defs": GRID_DEFS}], "probes": []}])[0]
    ids = {e.get("name"): int(i) for i, e in _entries(base.get("dump")).items() if e.get("name")}
    stats["grid_types"] = len(ids); stats["grid_call"] = base.get("calls")
    probes = []
    for n, tid in sorted(ids.items()):
        for v in VALUES:
            if in_model_domain(v): probes.append({"type_id": tid, "value": v, "fn": [n, "p"]})
    # also the unnamed entries (i64, Vec<..>, tuples ..) with a smaller pool
    for i, e in _entries(base.get("dump")).items():
        if not e.get("name"):
            for v in VALUES[:60]:
                if in_model_domain(v): probes.append({"type_id": int(i), "value": v, "fn": ["T", "p"]})
    reqs.append(("grid", {"settings": {}, "calls": [{"defs": GRID_DEFS}], "probes": probes}))
    # generated documents: their default sites + perturbed values
    ndocs = 400 if ctx.tier == "thorough" else 30
    docs = []
    for k in range(ndocs):
        fs = gen.FEATURE_SETS["c06" if k % 2 else "defaults"]
        docs.append(("gen:%d" % k, gen.gen_universe(ctx.rng, 3 + k % 5, fs)))
    docs += [("hand:" + n, d) for n, d in HAND_DOCS]
    first = tvh([{"settings": {}, "calls": [{"root": d}], "probes": []} for _, d in docs])
    for (tag, d), a in zip(docs, first):
        if not a.get("dump"): continue
        ps = []
        for owner, prop, tid, dv in sites_of(a["dump"]):
            if in_model_domain(dv): ps.append({"type_id": tid, "value": dv, "fn": [owner.replace("::", ""), prop or "x"]})
            for v in ctx.rng.sample(VALUES, 6):
                if in_model_domain(v): ps.append({"type_id": tid, "value": v})
        if ps: reqs.append((tag, {"settings": {}, "calls": [{"root": d}], "probes": ps}))
        # check_defaults: TypeSpace.defaults of an accepted document
        if all(c.startswith("ok") for c in a["calls"]):
            chk = drv([{"dump": a["dump"], "probes": []}])[0]["check"]
            stats["check_defaults"] += 1
            if chk.get("status") == "fuel": continue
            if chk.get("status") != "ok" or sorted(chk.get("defaults", [])) != sorted(a["dump"].get("defaults", [])):
                dis.append({"stage": "M0 check_defaults", "case": tag, "request": {"settings": {}, "calls": [{"root": d}], "probes": []},
                            "impl": a["dump"].get("defaults"), "model": chk})
    answers = tvh([r for _, r in reqs])
    for (tag, r), a in zip(reqs, answers): m0_compare(ctx, tag, r, a, stats, dis)
    # has_default / struct_property through the dump
    hreq = []
    for ts in HD_TYPES:
        for dv in HD_VALUES:
            s = dict(ts) if dv == "<none>" else dict(ts, default=dv)
            hreq.append((ts, dv, {"settings": {}, "calls": [{"root": {"title": "R", "type": "object", "properties": {"p": s}}}], "probes": []}))
    hans = tvh([r for _, _, r in hreq])
    for (ts, dv, r), a in zip(hreq, hans):
        if not a.get("dump") or not all(c.startswith("ok") for c in a["calls"]): stats["hd_rejected"] += 1; continue
        ent = [e for e in _entries(a["dump"]).values() if e.get("name") == "R"]
        if not ent or not ent[0]["props"]: continue
        p = ent[0]["props"][0]
        te = _entries(a["dump"])[str(p["type_id"])]
        cands = [(p["type_id"], False)] + ([(te["id"], True)] if te["kind"] == "option" else [])
        q = [{"id": c} if dv == "<none>" else {"id": c, "default": dv} for c, _ in cands]
        mod = drv([{"dump": a["dump"], "probes": [], "hasdefault": q}])[0]["hasdefault"]
        stats["hd_checked"] += 1
        ok = any(m["state"] == p["state"] and m["wrapped"] == w for (c, w), m in zip(cands, mod))
        if not ok: dis.append({"stage": "M0 has_default", "case": "hd", "request": r, "impl": {"state": p["state"], "type": te}, "model": mod})

def _has_integral_float(v):
    if isinstance(v, float): return v == int(v) if abs(v) < 2**62 else False
    if isinstance(v, list): return any(_has_integral_float(x) for x in v)
    if isinstance(v, dict): return any(_has_integral_float(x) for x in v.values())
    return False

def stage_m3(ctx, stats, dis, fails, driver_ok):
    b = Batch(ctx, assertions=False, ops=("de", "build", "default"), ops_for="all")
    cases = []
    for n, d in HAND_DOCS: cases.append(("hand:" + n, d, "valid"))
    ndocs = 150 if ctx.tier == "thorough" else 14
    for k in range(ndocs):
        cases.append(("gen:%d" % k, gen.gen_universe(ctx.rng, 3 + k % 4, gen.FEATURE_SETS["defaults"]), "valid"))
    for k in range(ndocs):
        cases.append(("genbad:%d" % k, gen.gen_universe(ctx.rng, 3 + k % 4, gen.FEATURE_SETS["c06"]), "maybe"))
    # the valid-default documents again with the integers of their defaults written 3.0: the same JSON numbers (rejected or reproduced)
    for tag, d, kind in list(cases):
        if tag.startswith(("gen:", "hand:")) and len([1 for t_, _, _ in cases if t_.startswith("respelled:")]) < (60 if ctx.tier == "thorough" else 8):
            d2, nresp = gen.respell_integer_defaults(ctx.rng, d)
            if nresp: cases.append(("respelled:" + tag, d2, "respelled"))      # refusal allowed ("reproduced exactly, or rejected")
    import corpus
    for cid, cdoc, _ in corpus.documents():
        if cid.startswith("file:") and '"default"' in json.dumps(cdoc): cases.append(("corpus:" + cid, cdoc, "maybe"))
    for i, (s, dv) in enumerate(BAD_DEFAULTS):
        body = dict(s, default=dv) if "$ref" not in s else {"allOf": [s], "default": dv}
        cases.append(("bad:%d" % i, {"title": "Root", "type": "object", "properties": {"p": body}, "definitions": BAD_DEFS}, "invalid"))
    for fid, w in FINDING_WITNESS.items(): cases.append(("finding:" + fid, w["calls"][0]["root"], "finding"))
    # a listed finding whose witness is a VALID default that is refused (judged by the "valid default rejected" clause)
    for fd in vlib.load_findings("C06"):
        if fd["id"] == "C06-variant-shared-inline-type": cases.append(("finding-valid:" + fd["id"], fd["witness"]["calls"][0]["root"], "valid"))
    bc = []
    for tag, d, kind in cases:
        c = b.add_case([{"root": d}], SETTINGS, tag=tag); c.settings = SETTINGS; c.request = {"settings": SETTINGS, "calls": [{"root": d}]}
        c.doc = d; c.kind = kind; bc.append(c)
    b.prepare()
    # oracle verdicts for every default in every document
    oreq = []; omap = []
    for c in bc:
        c.defaults = gen.find_defaults(c.doc)
        for ptr, body, dv in c.defaults:
            oreq.append({"doc": c.doc, "schema": body, "value": dv}); omap.append((c, ptr))
    verdicts = gen.run_oracle(oreq) if oreq else []
    for (c, ptr), v in zip(omap, verdicts): c.__dict__.setdefault("verdict", {})[ptr] = v
    # (d) invalid default => err at add time
    for c in bc:
        bad = [ptr for ptr, v in getattr(c, "verdict", {}).items() if v is False]
        call = c.calls[0] if c.calls else "none"
        stats["docs"] += 1
        if bad:
            stats["docs_invalid_default"] += 1
            if call.startswith("err"): stats["invalid_rejected"] += 1
            else:
                for ptr in bad:
                    dv = [d for q, _, d in c.defaults if q == ptr][0]
                    fails.append({"clause": "d: invalid default not rejected when the schema is added", "case": c.tag, "input": c.request,
                                  "pointer": ptr, "default": dv, "call": call, "render": c.render, "message": (c.messages or [None])[0], "dump": c.dump,
                                  "site": [(t, d) for _, _, t, d in sites_of(c.dump) if canon(json.dumps(d)) == canon(json.dumps(dv))],
                                  "ignored_position": _ignored_position(c.dump, c.doc, ptr)})
        elif c.kind == "invalid":
            dis.append({"stage": "oracle sanity", "case": c.tag, "what": "hand-written bad default judged valid by the oracle", "request": c.request})
        elif not call.startswith("ok") and c.kind == "valid":
            # (documents of the generator's schemars-shaped fragment only: the property allows a refusal, the supported fragment does not)
            # every default valid, yet the document is refused: only a violation if the refusal is about a default
            msg = (c.messages or [None])[0] or ""
            # integers written with a zero fraction (3.0) are the same JSON number but not the same serde_json::Number: typify
            # (like serde) does not read them as integers; refusing such a default is "rejected when the schema is added"
            if any(_has_integral_float(dv) for _, _, dv in c.defaults): stats["refused_float_spelled"] = stats.get("refused_float_spelled", 0) + 1
            elif "default" in msg.lower() or "value" in msg.lower():
                fails.append({"clause": "valid default rejected", "case": c.tag, "input": c.request, "call": call, "message": msg})
    # ops only on what is needed
    plans = []
    for c in bc:
        if not c.dump or not c.calls or not c.calls[0].startswith("ok"): continue
        ents = _entries(c.dump); need = set(); plan = []
        for tid, e in ents.items():
            if e["kind"] != "struct": continue
            dps = [p for p in e["props"] if isinstance(p["state"], dict) and p["rename"] != "flatten"]
            base = minimal(c.dump, int(tid))
            if base is None: continue
            alld = all(p["state"] != "required" for p in e["props"])
            sd = any(_owner_of(ptr, c.doc) == e["name"] for ptr, _, _ in c.defaults)
            if dps or sd or (alld and e.get("default") is None):
                plan.append(("struct", e["name"], int(tid), base, dps, e)); need.add(e["name"])
                for p in dps: need.add(p["type_id"])
        for tid, e in ents.items():
            if e["kind"] in ("struct", "enum", "newtype") and e.get("default") is not None:
                plan.append(("typedefault", e["name"], int(tid), e["default"], [], e)); need.add(e["name"])
        c.ops_types = sorted(need, key=str)
        plans.append((c, plan))
    b.build()
    for c in bc:
        if c.dump and c.calls and c.calls[0].startswith("ok"):
            stats["accepted"] += 1
            if c.render != "ok":
                fails.append({"clause": "late panic while rendering", "case": c.tag, "input": c.request, "message": c.render_message})
            elif not c.compiled and not c.skipped:
                errs = [e.get("message") for e in (c.rustc_errors or [])][:3]
                # only default-related compile failures are C06's business: those inside `mod defaults` or an `impl Default`
                code = c.code or ""
                dl = [e for e in (c.rustc_errors or []) if (e.get("line") and _in_default_code(code, e["line"])) or "default" in (e.get("rendered") or "").lower()]
                # two default FUNCTIONS of one name (E0428) is a collision of derived names (C01-default-fn-clash, decided by C01/C08),
                # not an ill-typed or wrong default value
                if dl and all(str(e.get("code")) == "E0428" for e in dl): stats["compile_name_clash"] = stats.get("compile_name_clash", 0) + 1; dl = []
                if dl: fails.append({"clause": "default expression does not compile", "case": c.tag, "input": c.request, "errors": [e.get("message") for e in dl][:3],
                                     "dump": c.dump, "site": [(t, d) for _, _, t, d in sites_of(c.dump)]})
                else: stats["compile_other"] += 1
            elif c.compiled: stats["compiled"] += 1
    reqs = []; meta = []
    for c, plan in plans:
        if not c.compiled: continue
        for kind, name, tid, base, dps, e in plan:
            if kind == "struct":
                reqs.append((c, name, "de", J(base))); meta.append(("de", c, name, tid, base, dps, e))
                if e.get("default") is None and all(p["state"] != "required" for p in e["props"]):
                    reqs.append((c, name, "default", "")); meta.append(("default-all", c, name, tid, base, dps, e))
                setp = {p["name"]: base[wire(p)] for p in e["props"] if p["state"] == "required" and p["rename"] != "flatten" and wire(p) in base}
                reqs.append((c, name, "build", J({"set": setp}))); meta.append(("build", c, name, tid, base, dps, e))
                for p in dps:
                    reqs.append((c, p["type_id"], "de", J(p["state"]["default"]))); meta.append(("member", c, name, tid, p, None, e))
            else:
                reqs.append((c, name, "default", "")); meta.append(("default", c, name, tid, base, None, e))
                reqs.append((c, name, "de", J(base))); meta.append(("de-default", c, name, tid, base, None, e))
    ctx.log("M3: cases=%d accepted=%d compiled=%d requests=%d" % (len(bc), stats["accepted"], stats["compiled"], len(reqs)))
    live = [c for c in bc if c.dump]
    if driver_ok and reqs:
        r = m3.compare(b, live, reqs)
    else:
        r = {"real": b.run(reqs) if reqs else [], "model": None, "disagreements": [], "skipped_model": 0, "skipped_real": 0}
    site_of = {}
    for mt in meta:
        kind, c, name = mt[0], mt[1], mt[2]
        ss = [(p["type_id"], p["state"]["default"]) for p in (mt[5] or [])] if kind in ("de", "build", "default-all") else \
             ([(mt[4]["type_id"], mt[4]["state"]["default"])] if kind == "member" else [(mt[3], mt[4])])
        site_of.setdefault((id(c), str(name)), []).extend(ss)
    for rq, ra, ma in r["disagreements"]:
        ss = site_of.get((id(rq[0]), str(rq[1])), [])
        if any(omits_defaulted_member(rq[0].dump, t, d) or has_native(rq[0].dump, t) for t, d in ss):
            stats["m3_on_finding_sites"] = stats.get("m3_on_finding_sites", 0) + 1; continue
        dis.append({"stage": "M3", "case": rq[0].tag, "request": rq[0].request, "type": rq[1], "op": rq[2], "payload": rq[3], "compiled": ra, "model": ma})
    stats["m3_requests"] = len(reqs); stats["m3_skipped_model"] = r["skipped_model"]; stats["m3_skipped_real"] = r["skipped_real"]
    # oracle on the compiled code's answers
    ans = {}
    for mt, ra in zip(meta, r["real"]): ans[(id(mt[1]), mt[0], mt[2], mt[4]["name"] if mt[0] == "member" else None)] = ra
    vreq = []; vmap = []
    for mt, ra in zip(meta, r["real"]):
        kind, c, name, tid, base, dps, e = mt
        nr = m3.norm_real("de", ra)
        if kind == "de":
            stats["o1_structs"] += 1
            if nr[0] != "ok":
                if nr[0] in m3.SKIP_REAL: continue
                fails.append({"clause": "o1: object without the defaulted members does not deserialize (%s)" % ra[:80], "case": c.tag, "input": c.request,
                              "type": name, "payload": base, "dump": c.dump, "site": [(p["type_id"], p["state"]["default"]) for p in dps]}); continue
            obj = json.loads(nr[1][0])
            for p in dps:
                ma = m3.norm_real("de", ans.get((id(c), "member", name, p["name"]), "noop"))
                stats["o1_members"] += 1
                if ma[0] != "ok":
                    if ma[0] in m3.SKIP_REAL: continue
                    fails.append({"clause": "o1: the schema default does not deserialize into the member type (%s)" % ma[0], "case": c.tag, "input": c.request,
                                  "type": name, "prop": p["name"], "dump": c.dump, "site": [(p["type_id"], p["state"]["default"])]}); continue
                filled = json.loads(ma[1][0])
                if wire(p) not in obj or canon(json.dumps(obj[wire(p)])) != canon(json.dumps(filled)):
                    fails.append({"clause": "o1: realised default differs from the filled schema default", "case": c.tag, "input": c.request, "type": name,
                                  "prop": p["name"], "realised": obj.get(wire(p)), "filled": filled, "dump": c.dump, "site": [(p["type_id"], p["state"]["default"])]})
            # o5: a valid schema default that did NOT become a Default state (has_default judged it the intrinsic default):
            #     the member, omitted, must still come out as the schema default
            for ptr, body, dv in c.defaults:
                if _owner_of(ptr, c.doc) != name or getattr(c, "verdict", {}).get(ptr) is not True or not _no_dict(dv): continue
                w = gen.ptr_split(ptr)[-1]
                pp = [p for p in e["props"] if wire(p) == w and p["rename"] != "flatten"]
                if not pp or isinstance(pp[0]["state"], dict) or w in base: continue
                stats["o5_checked"] = stats.get("o5_checked", 0) + 1
                realised = obj.get(w, "<absent>")
                okv = (dv in (None, [], {}) and not isinstance(dv, bool)) if realised == "<absent>" else gen.jeq(realised, dv)
                if not okv:
                    fails.append({"clause": "o5: schema default silently replaced by the type's intrinsic default", "case": c.tag, "input": c.request, "type": name,
                                  "prop": w, "realised": realised, "schema_default": dv, "dump": c.dump, "site": []})
            for p in dps:
                pass
            # o4: validity of the realised value under the property schema (named definitions / root only)
                for ptr, body, dv in c.defaults:
                    if ptr.endswith("/properties/" + gen.ptr_escape(wire(p))) and _owner_of(ptr, c.doc) == name and wire(p) in obj:
                        vreq.append({"doc": c.doc, "schema": body, "value": obj[wire(p)]}); vmap.append((c, name, p, obj[wire(p)]))
        elif kind == "build":
            stats["o2_builds"] += 1
            d = m3.norm_real("de", ans.get((id(c), "de", name, None), "noop"))
            if nr[0] in m3.SKIP_REAL or d[0] in m3.SKIP_REAL: continue
            if (nr[0], nr[1][:1]) != (d[0], d[1][:1]) and not (nr[0] != "ok" and d[0] != "ok"):
                fails.append({"clause": "o2: builder with nothing optional set differs from deserializing the same object", "case": c.tag, "input": c.request,
                              "type": name, "build": ra, "de": ans.get((id(c), "de", name, None)), "dump": c.dump, "site": [(p["type_id"], p["state"]["default"]) for p in dps]})
        elif kind in ("default", "default-all"):
            stats["o3_defaults"] += 1
            other = ans.get((id(c), "de-default" if kind == "default" else "de", name, None), "noop")
            d = m3.norm_real("de", other)
            if kind == "default-all" and base != {}: continue
            if nr[0] in m3.SKIP_REAL or d[0] in m3.SKIP_REAL: continue
            if (nr[0], nr[1][:1]) != (d[0], d[1][:1]):
                fails.append({"clause": "o3: Default::default() differs from deserializing the type's default", "case": c.tag, "input": c.request, "type": name,
                              "default": ra, "de": other, "dump": c.dump, "site": [(tid, base)] if kind == "default" else [(p["type_id"], p["state"]["default"]) for p in dps]})
    if vreq:
        for (c, name, p, val), v in zip(vmap, gen.run_oracle(vreq)):
            stats["o4_checked"] += 1
            if v is False:
                fails.append({"clause": "o4: realised default is not valid under the property schema", "case": c.tag, "input": c.request, "type": name,
                              "prop": p["name"], "realised": val, "dump": c.dump, "site": [(p["type_id"], p["state"]["default"])]})
    return bc, reqs, r

def _ignored_position(dump, doc, ptr):
    """the default sits on a definition / the root schema (added through add_ref_types / add_root_schema) and the IR entry of
    that name records no default: typify neither honours nor validates it"""
    parts = gen.ptr_split(ptr)
    name = (doc.get("title") or "Root") if not parts else (parts[1] if len(parts) == 2 and parts[0] == "definitions" else None)
    if name is None: return False
    ents = [e for e in _entries(dump).values() if e.get("name") == name]
    return bool(ents) and all(e.get("default") is None for e in ents) or (not ents and bool(dump))

def _no_dict(v):
    if isinstance(v, dict): return False
    if isinstance(v, list): return all(_no_dict(x) for x in v)
    return True

def _owner_of(ptr, doc):
    parts = gen.ptr_split(ptr)
    if len(parts) == 2 and parts[0] == "properties": return (doc.get("title") or "Root")
    if len(parts) == 4 and parts[0] == "definitions" and parts[2] == "properties": return parts[1]
    return None

def _in_default_code(code, line):
    """is source line `line` inside `mod defaults` or an `impl Default`?"""
    lines = code.split("\n"); cur = None
    for i, l in enumerate(lines[:line]):
        s = l.strip()
        if not l.startswith(" ") and s: cur = s
    return bool(cur) and ("mod defaults" in cur or "::default::Default for" in cur or "Default for" in cur)

def _int_bound_through_ref(f):
    """the invalid default holds an integer that is inside the RUST type's range but outside the schema's minimum / maximum,
    and reaches the integer schema through a `$ref` or from inside an array / object default (not written on the integer
    schema itself, where convert_integer checks it): the IR keeps only the Rust type, so validate_value cannot see the bounds"""
    try:
        doc = f["input"]["calls"][0]["root"]
        if "pointer" in f:
            ptr = f["pointer"]; dv = f["default"]
            body = gen.ptr_get(doc, ptr[: -len("/default")] if ptr.endswith("/default") else ptr)
            sites = [(body, dv)]
        else:       # o4: the property is known by name
            sites = [(b, d) for q, b, d in gen.find_defaults(doc) if q.endswith("/properties/%s" % f.get("prop")) or q.endswith("/properties/%s/default" % f.get("prop"))]
    except Exception: return False
    return any(_int_bound_site(doc, body, dv) for body, dv in sites)

def _int_bound_site(doc, body, dv):
    found = []
    def walk(schema, v, via, fuel=12):
        if fuel <= 0 or not isinstance(schema, dict): return
        if "$ref" in schema:
            try: walk(gen.resolve_ref(doc, schema["$ref"]), v, True, fuel - 1)
            except Exception: pass
            return
        for x in schema.get("allOf", []) if isinstance(schema.get("allOf"), list) else []: walk(x, v, via, fuel - 1)
        t = schema.get("type"); ts = t if isinstance(t, list) else [t]
        if "integer" in ts and isinstance(v, int) and not isinstance(v, bool):
            lo, hi = gen.int_bounds(schema)
            out_schema = (lo is not None and v < lo) or (hi is not None and v > hi)
            fmt = schema.get("format")
            flo, fhi = gen.INT_FORMATS.get(fmt, (-2**63, 2**64 - 1))
            if out_schema and flo <= v <= fhi and via: found.append((schema, v))
        if isinstance(v, list) and isinstance(schema.get("items"), dict):
            for x in v: walk(schema["items"], x, True, fuel - 1)
        if isinstance(v, list) and isinstance(schema.get("items"), list):
            for sc, x in zip(schema["items"], v): walk(sc, x, True, fuel - 1)
        if isinstance(v, dict):
            for k, x in v.items():
                if k in (schema.get("properties") or {}): walk(schema["properties"][k], x, True, fuel - 1)
                elif isinstance(schema.get("additionalProperties"), dict): walk(schema["additionalProperties"], x, True, fuel - 1)
    walk(body, dv, False)
    return bool(found)

def _one_string(s):
    return isinstance(s, dict) and ((isinstance(s.get("enum"), list) and len(s["enum"]) == 1 and isinstance(s["enum"][0], str)) or isinstance(s.get("const"), str))

def _collapse_twins(x):
    """the document as typify types it where a TAGGED union (every branch a plain object that requires a member pinned to one
    string) has two branches declaring a member of one name with different in-line schemas: the later branch's member gets the
    schema of the first (enums.rs names an in-line subtype after the enum and the member, lib.rs assign_type reuses the first
    type of that name). Returns (document, changed?)"""
    changed = False
    def go(v):
        nonlocal changed
        if isinstance(v, list): return [go(y) for y in v]
        if not isinstance(v, dict): return v
        out = {k: (y if k in ("default", "enum", "const", "examples") else go(y)) for k, y in v.items()}
        for comb in ("oneOf", "anyOf"):
            bs = out.get(comb)
            if not (isinstance(bs, list) and len(bs) >= 2 and all(isinstance(b, dict) and isinstance(b.get("properties"), dict) for b in bs)): continue
            tags = [k for k in bs[0]["properties"] if all(k in b["properties"] and k in b.get("required", []) and _one_string(b["properties"][k]) for b in bs)]
            if not tags: continue
            first = {}
            nbs = []
            for b in bs:
                props = dict(b["properties"])
                for k, ps in props.items():
                    if k in tags or not isinstance(ps, dict) or "$ref" in ps: continue
                    # the in-line schemas for which typify makes a NAMED type (`<Enum><Member>`): objects, enumerations, constrained
                    # strings; arrays / tuples for the types of their elements
                    if not (ps.get("type") in ("object", "array") or "enum" in ps or "properties" in ps or
                            (ps.get("type") == "string" and any(k in ps for k in ("minLength", "maxLength", "pattern")))): continue
                    if k in first and json.dumps(first[k], sort_keys=True) != json.dumps(ps, sort_keys=True):
                        # (the later member keeps its own `default`: it is that value which is checked against the first one's type)
                        props[k] = dict({kk: vv for kk, vv in first[k].items() if kk != "default"}, **({"default": ps["default"]} if "default" in ps else {})); changed = True
                    first.setdefault(k, ps)
                nbs.append(dict(b, properties=props))
            out[comb] = nbs
        return out
    return go(x), changed

def _twin_default(f):
    """a default that is valid under the document and NOT valid once the twins of a tagged union share the first one's schema"""
    try:
        doc = f["input"]["calls"][0]["root"]
        doc2, changed = _collapse_twins(doc)
        if not changed: return False
        d1 = {ptr: dv for ptr, _, dv in gen.find_defaults(doc)}
        req = [{"doc": doc2, "schema": body, "value": dv} for ptr, body, dv in gen.find_defaults(doc2) if ptr in d1]
        return any(v is False for v in gen.run_oracle(req)) if req else False
    except Exception:
        return False

def attribute(f):
    """known finding an oracle failure belongs to (by predicate on the model's view of the failing site), or None"""
    dump = f.get("dump"); sites = f.get("site") or []
    cl = f["clause"]
    if cl.startswith("default expression does not compile"):
        # E0277 `T: Default` for the `Default::default()` written for an omitted member that has its own default
        if dump and all("Default` is not satisfied" in (m or "") for m in f.get("errors", [])) and any(omits_defaulted_member(dump, t, d) for t, d in sites):
            return "C06-nested-default"
        return None
    if cl == "valid default rejected":
        return "C06-variant-shared-inline-type" if _twin_default(f) else None
    if cl.startswith("d:"):
        if f.get("ignored_position"): return "C06-default-ignored"
        if dump and any(has_native(dump, t) for t, d in sites): return "C06-native-default"
        if _int_bound_through_ref(f): return "C06-ref-int-bounds"
        return None
    if cl.startswith("o4") and _int_bound_through_ref(f): return "C06-ref-int-bounds"
    if dump and any(omits_defaulted_member(dump, t, d) for t, d in sites) and (cl.startswith("o1: realised") or cl.startswith("o2") or cl.startswith("o3") or cl.startswith("o4")):
        return "C06-nested-default"
    if dump and any(has_native(dump, t) for t, d in sites) and (cl.startswith("o1: object without") or cl.startswith("o1: the schema default") or cl.startswith("o2") or cl.startswith("o3")):
        return "C06-native-default"
    return None

def run(ctx):
    st = vlib.proof_stage(ctx, "C06", PROOF_TARGETS + ["TypifyModel.Proofs.StructProps", "TypifyModel.Proofs.SerdeAttrs"],
                          PROOF_FILES + ["Proofs/StructProps.lean", "Proofs/SerdeAttrs.lean"], slices=["c06", "ir", "sprop"])
    # which state a member gets (Required / Optional / Default(value)) and whether its type is wrapped in Option: structs.rs
    # struct_property / has_default against Model/StructProps.lean over the whole lattice (M0)
    import spropstage
    pstats, pdis = spropstage.stage(ctx) if st["driver_ok"] else ({"ran": False}, [])
    ctx.log("member state M0: %s disagreements=%d" % (pstats, len(pdis)))
    if pdis:
        st["broken"].append("correspondence M0 (structs.rs struct_property / has_default vs Model/StructProps.lean) disagrees on %d of %d points, first: %s"
                            % (len(pdis), pstats.get("compared", 0), json.dumps(pdis[0])[:400]))
    fok, flog = vlib.lean_build(ctx, [FINDINGS_TARGET])
    if not fok: ctx.notes.append("Proofs/C06Findings.lean no longer compiles (a listed finding was repaired?)")
    stats = {k: 0 for k in ("m0_probes", "m0_agree", "m0_fuel", "wf_accepted", "check_defaults", "hd_checked", "hd_rejected", "docs", "docs_invalid_default",
                            "invalid_rejected", "accepted", "compiled", "compile_other", "o1_structs", "o1_members", "o2_builds", "o3_defaults", "o4_checked")}
    dis = []; fails = []
    if st["driver_ok"]: stage_m0(ctx, stats, dis)
    else: ctx.notes.append("drv_c06 does not build: M0 skipped")
    ctx.log("M0: probes=%d agree=%d wf&accepted=%d disagreements=%d" % (stats["m0_probes"], stats["m0_agree"], stats["wf_accepted"], len(dis)))
    bc, reqs, r = stage_m3(ctx, stats, dis, fails, st["driver_ok"])
    findings = {f["id"]: f for f in vlib.load_findings("C06")}
    seen = {}; unattributed = []
    for f in fails:
        fid = attribute(f)
        if fid and fid in findings: seen.setdefault(fid, []).append(f)
        else: unattributed.append(f)
    for fid, f in findings.items():
        if fid in seen: vlib.known(ctx, f)
    broken = list(st["broken"])
    if dis: broken.append("correspondence: model and implementation disagree on %d inputs (%s)" % (len(dis), ", ".join(sorted({d["stage"] for d in dis}))))
    shown = set()
    for f in unattributed:
        key = f["clause"].split("(")[0]
        if key in shown or len(ctx.violations) >= 6: continue
        shown.add(key)
        vlib.violation(ctx, {"property": "C06", "kind": "implementation violates the property", "clause": f["clause"], "input": f["input"], "case": f["case"],
                             "detail": {k: v for k, v in f.items() if k not in ("input", "dump")}, "broken_obligations": broken})
    if broken and not unattributed:
        vlib.violation(ctx, {"property": "C06", "kind": "property no longer shown to hold", "broken_obligations": broken,
                             "first_disagreements": [{k: v for k, v in d.items()} for d in dis[:3]], "lean_log": st.get("log", "")}, no_input=not dis)
    cov = {"member_state_M0": pstats, "obligations": st["obligations"], "discharged": st["discharged"],
           "checker_cmd": "cd /verif/lean && lake build TypifyModel.Proofs.C06 && lake env lean TypifyModel/Audit/C06.lean",
           "trusted_base": vlib.TRUSTED_BASE + ["serde_derive / serde_json behaviour is modelled (Model/Serde*.lean), tied by M3 to the compiled code",
                                                "the typing judgement hasType stands for rustc on the emitted default expressions (checked by compiling every accepted case)", "rustc"],
           "axioms": st.get("axioms", {}), "evaluations": stats["m0_probes"] + len(reqs), "distinct_nontrivial": stats["m0_agree"] + stats["o1_members"] + stats["o3_defaults"],
           "rule": "M0: every named and unnamed entry of the grid type space (every IR kind) x the candidate-value pool, plus every default site of the generated/hand documents with its own default and 6 pool values; one evaluation = one (type, value) probe answered by validate_value + output_value (+ default_fn). M3: one evaluation = one op (de of the owning struct without the defaulted members / de of the default at the member type / build / default) on a compiled case",
           "samples": [{"type": str(rq[1]), "op": rq[2], "payload": rq[3][:80], "compiled": ra[:80]} for rq, ra in list(zip(reqs, r["real"]))[:6]],
           "traces_validated_against_impl": stats["m0_agree"] + len(reqs) - stats.get("m3_skipped_model", 0) - stats.get("m3_skipped_real", 0),
           "model_disagreements": len(dis), "impl_oracle_failures": len(fails), "attributed_to_findings": {k: len(v) for k, v in seen.items()}, "stats": stats}
    vlib.write_evidence(ctx, "proof", cov, [
        "serde / serde_json are third-party: modelled and validated differentially (M3), not verified",
        "WFDefault (Model/DefaultsWF.lean) is the hypothesis of the partial theorems; untagged / internally / adjacently tagged enums, flattened members, enum- and deny-constrained newtypes, non-String map keys and natives are outside it and covered by M0 / M3 / the oracle only",
        "integer type names are the twelve typify produces; floats print as serde_json prints them for the generated values (dyadic, small)"])

def replay(ctx, path):
    obj = json.load(open(path))
    inp = obj.get("input") or ((obj.get("first_disagreements") or [{}])[0].get("request"))
    if not inp: print("replay names broken obligations only:", obj.get("broken_obligations")); return 1
    if inp.get("probes"):
        a = tvh([inp])[0]
        keep = [(p, x) for p, x in zip(inp["probes"], a["probes"]) if x.get("id") is not None]
        mod = drv([{"dump": a["dump"], "probes": [{"id": x["id"], "value": p["value"]} for p, x in keep]}])[0]["probes"]
        bad = 0
        for (p, x), m in zip(keep, mod):
            print("probe", json.dumps(p), "\n  impl :", x["validate"], x["output_status"], x["output"], x.get("default_fn"), "\n  model:", m["validate"], m["output_status"], m["output"], m.get("default_fn"))
            d = probe_diff(x, m)
            if d: print("  DIFFERS:", d); bad += 1
        return 1 if bad else 0
    b = Batch("c06_replay", assertions=False, ops=("de", "build", "default"), ops_for="all")
    c = b.add_case(inp["calls"], inp.get("settings", SETTINGS)); b.prepare(); b.build()
    print("calls:", c.calls, c.messages, "| render:", c.render, c.render_message, "| compiled:", c.compiled, [e.get("message") for e in (c.rustc_errors or [])][:3])
    det = obj.get("detail", {})
    reqs = []
    if c.compiled and det.get("type"):
        e = [x for x in _entries(c.dump).values() if x.get("name") == det["type"]]
        base = det.get("payload", minimal(c.dump, [int(i) for i, x in _entries(c.dump).items() if x.get("name") == det["type"]][0]) if e else {})
        reqs = [(c, det["type"], "de", J(base if base is not None else {})), (c, det["type"], "build", J({"set": {}})), (c, det["type"], "default", "")]
        for rq, ra in zip(reqs, b.run(reqs)): print(rq[2], rq[3], "->", ra)
    print("clause:", obj.get("clause"), "| detail:", json.dumps(det)[:600])
    return 1

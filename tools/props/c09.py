"""C09 — a type generated from `allOf` accepts every instance valid under all subschemas; permuting the
subschemas changes neither acceptance nor round trips; an unsatisfiable conjunction yields an uninhabited type.

Theorems (lean/TypifyModel/Proofs/C09.lean, model lean/TypifyModel/Model/Merge.lean of typify-impl/src/merge.rs):
merge_inter_partial, merge_never_partial, merge_all_inter_partial, merge_all_never_partial, merge_perm_partial,
merge_perm_never_partial — for all documents, schemas, instances and fuels, under the decidable hypothesis
`GapFree` (the run goes through none of the defective arms `Merge.Gap`); the full statements are refuted in
Proofs/C09Findings.lean, one kernel-checked witness per arm, each reproduced here on the real `merge_all`.

Per run:
 (corr) M0 slice `c09`: real `merge_all` (hook verif_merge_all, harness tvh_c09) vs Lean `mergeAll` (drv_c09) on
        every permutation of every case. Compared SEMANTICALLY (accept-vector of the model's result by Lean
        `valid` vs accept-vector of the real result by tools/oracle.py, plus the `never` flag) and
        syntactically (real result normalised through the AST by drv_c09 `norm`); rates reported separately.
 (M4)   Lean `valid` on allOf(xs) vs python-jsonschema on the same candidates.
 (a)    real merged schema M: oracle-valid(allOf xs, v) <=> oracle-valid(M, v); never => no candidate valid.
 (b)    all permutations (all of them up to length 4) give the same accept-vector.
 (c)    compiled code (tools/batch.py): `P<i>: {allOf: perm_i(xs)}` — `de` accept-vectors and `rt` results equal
        across permutations, oracle-valid => accepted, merge says never => every candidate rejected and the IR
        entry is an enum without variants.
Failures are attributed to a listed finding only when the MODEL reproduces the real answer on that case and
reports the finding's gap (mechanism predicate); for inputs the AST cannot express, by the python predicates below."""
import copy, itertools, json, os, re
import vlib

PROOF_TARGETS = ["TypifyModel.Proofs.C09", "TypifyModel.Proofs.C09Findings"]
PROOF_FILES = ["Proofs/C09.lean", "Proofs/C09Findings.lean", "Proofs/Lemmas/MergeValid.lean", "Proofs/Lemmas/MergeSpec.lean",
               "Proofs/Lemmas/MergeArr.lean", "Proofs/Lemmas/MergeObj.lean", "Proofs/Lemmas/MergeBody.lean",
               "Proofs/Lemmas/MergeRough.lean", "Proofs/Lemmas/MergeSub.lean", "Proofs/Lemmas/MergeDist.lean",
               "Proofs/Lemmas/MergeTop.lean"]

def J(v): return json.dumps(v, sort_keys=True, ensure_ascii=False, separators=(",", ":"))
def ref(n): return {"$ref": "#/definitions/" + n}

# ------------------------------------------------------------------ findings: gap -> id, failure kind -> gaps
GAP_ID = {"intNumber": "C09-int-number", "arrayItems": "C09-array-items", "notDropped": "C09-not-dropped",
          "notRequired": "C09-not-required-multi", "overlap": "C09-anyof-subtract", "roughlyArray": "C09-roughly-array"}
KIND_GAPS = {"reject-valid": {"intNumber", "arrayItems", "notRequired", "overlap"},
             "permissive": {"notDropped", "roughlyArray", "overlap"},
             "order": {"notDropped", "overlap", "roughlyArray", "notRequired", "intNumber", "arrayItems"}}
INT_RANGES = {"int8": (-2**7, 2**7 - 1), "int16": (-2**15, 2**15 - 1), "int32": (-2**31, 2**31 - 1), "int64": (-2**63, 2**63 - 1),
              "int": (-2**63, 2**63 - 1), "uint8": (0, 2**8 - 1), "uint16": (0, 2**16 - 1), "uint32": (0, 2**32 - 1),
              "uint64": (0, 2**64 - 1), "uint": (0, 2**64 - 1)}

def walk(s):
    """all subschemas of a schema (schema positions only)"""
    if not isinstance(s, dict): return
    yield s
    for k in ("properties", "definitions"):
        if isinstance(s.get(k), dict):
            for v in s[k].values(): yield from walk(v)
    it = s.get("items")
    if isinstance(it, list):
        for v in it: yield from walk(v)
    elif it is not None: yield from walk(it)
    for k in ("additionalProperties", "additionalItems", "not"):
        if isinstance(s.get(k), dict): yield from walk(s[k])
    for k in ("oneOf", "anyOf", "allOf"):
        for v in s.get(k) or []: yield from walk(v)

def all_schemas(case):
    for s in case["schemas"]: yield from walk(s)
    for s in case["defs"].values(): yield from walk(s)

def pred_format_conflict(case):
    """merge_so_format: two different integer formats (ranges overlap) -> `Err` (mechanism of C09-format-conflict)"""
    fs = {s["format"] for s in all_schemas(case) if isinstance(s.get("format"), str) and s["format"] in INT_RANGES}
    return len(fs) > 1

NUMV = ("minimum", "maximum", "exclusiveMinimum", "exclusiveMaximum", "multipleOf")
STRV = ("minLength", "maxLength", "pattern")
def pred_validation_panic(case):
    """merge_so_number / merge_so_string: two different validations -> unimplemented!() (C09-validation-panic)"""
    n = {J({k: s[k] for k in NUMV if k in s}) for s in all_schemas(case) if any(k in s for k in NUMV)}
    t = {J({k: s[k] for k in STRV if k in s}) for s in all_schemas(case) if any(k in s for k in STRV)}
    return len(n) > 1 or len(t) > 1

def _deref(case, s, n=8):
    while isinstance(s, dict) and isinstance(s.get("$ref"), str) and n:
        s = case["defs"].get(s["$ref"].rsplit("/", 1)[1], {}); n -= 1
    return s

def _apart(case, a, b):
    """python port of Merge.apart0: syntactically disjoint branches"""
    a, b = _deref(case, a), _deref(case, b)
    if not isinstance(a, dict) or not isinstance(b, dict): return False
    ta, tb = a.get("type"), b.get("type")
    if isinstance(ta, str) and isinstance(tb, str) and ta != tb and {ta, tb} != {"integer", "number"}: return True
    if ta == tb == "object":
        pa, pb = a.get("properties", {}), b.get("properties", {})
        for r in a.get("required", []):
            if r in b.get("required", []) and "enum" in pa.get(r, {}) and "enum" in pb.get(r, {}):
                if not any(J(x) == J(y) for x in pa[r]["enum"] for y in pb[r]["enum"]): return True
        for (x, y, py) in ((a, b, pb), (b, a, pa)):
            if y.get("additionalProperties") is False and any(r not in py for r in x.get("required", [])): return True
    return False

def pred_overlap(case):
    """a oneOf/anyOf whose branches are not pairwise syntactically disjoint (mechanism of C09-anyof-subtract)"""
    for s in all_schemas(case):
        for k in ("oneOf", "anyOf"):
            bs = s.get(k)
            if isinstance(bs, list) and len(bs) > 1:
                if not all(_apart(case, bs[i], bs[j]) for i in range(len(bs)) for j in range(i + 1, len(bs))): return True
    return False

def pred_remerge(case, compiled=False):
    """a oneOf/anyOf with several branches among three or more merged schemas: the `allOf [.., not other-branch]`
    that the first merge emits is merged again (fallback mechanism of C09-oneof-remerge when the model has no answer)"""
    n = len(case["schemas"]) + sum(len(s.get("allOf", [])) for s in all_schemas(case))
    return n >= (2 if compiled else 3) and any(len(s.get(k) or []) > 1 for s in all_schemas(case) for k in ("oneOf", "anyOf"))

def pred_int_number(case):
    # `integer` on one side, `number` (alone or in a type list) on the other: merge.rs intersects the type SETS
    ts = set()
    for s in all_schemas(case):
        t = s.get("type")
        if isinstance(t, str): ts.add(t)
        elif isinstance(t, list): ts |= {x for x in t if isinstance(x, str)}
    return "integer" in ts and "number" in ts

def pred_array_items(case):
    """two array schemas whose item schemas CONFLICT (no value satisfies both: disjoint types, disjoint enumerations) at a position
    both constrain — the mechanism of C09-array-items; item schemas that merely differ but are compatible do not count"""
    def types(x):
        if not isinstance(x, dict): return None
        t = x.get("type")
        ts = set(t if isinstance(t, list) else [t]) if t is not None else None
        if ts is None and isinstance(x.get("enum"), list):
            ts = {"null" if v is None else "boolean" if isinstance(v, bool) else "integer" if isinstance(v, int) else "number" if isinstance(v, float)
                  else "string" if isinstance(v, str) else "array" if isinstance(v, list) else "object" for v in x["enum"]}
        if ts is not None and "number" in ts: ts = ts | {"integer"}
        return ts
    def conflict(a, b):
        if a is False or b is False: return True
        ta, tb = types(a), types(b)
        if ta is not None and tb is not None and not (ta & tb): return True
        if isinstance(a, dict) and isinstance(b, dict) and isinstance(a.get("enum"), list) and isinstance(b.get("enum"), list):
            return not any(J(x) == J(y) for x in a["enum"] for y in b["enum"])
        return False
    arrs = [s for s in all_schemas(case) if s.get("type") == "array" and "items" in s]
    def at(s, i):
        it = s["items"]
        return (it[i] if i < len(it) else None) if isinstance(it, list) else it
    for i_, a in enumerate(arrs):
        for b in arrs[i_ + 1:]:
            n = max(len(a["items"]) if isinstance(a["items"], list) else 1, len(b["items"]) if isinstance(b["items"], list) else 1)
            if any(at(a, k) is not None and at(b, k) is not None and conflict(at(a, k), at(b, k)) for k in range(n)): return True
    return False

def pred_not(case):
    return any("not" in s for s in all_schemas(case))

# ------------------------------------------------------------------ cases
def reach_defs(defs, schemas):
    need, todo = {}, list(schemas)
    while todo:
        s = todo.pop()
        for x in walk(s):
            r = x.get("$ref")
            if isinstance(r, str) and r.startswith("#/definitions/"):
                k = r[len("#/definitions/"):]
                if k in defs and k not in need:
                    need[k] = defs[k]; todo.append(defs[k])
    return need

def strip_meta(s):
    if isinstance(s, dict):
        return {k: (strip_meta(v) if k not in ("enum", "const", "default", "examples") else v) for k, v in s.items()
                if k not in ("title", "description", "default", "examples", "$schema", "$comment")}
    if isinstance(s, list): return [strip_meta(x) for x in s]
    return s

def unit_test_cases():
    """the `json!` inputs `a`, `b` of the unit tests of merge.rs"""
    src = open(os.path.join(vlib.REPO, "typify-impl/src/merge.rs"), encoding="utf-8").read()
    i = src.find("mod tests")
    out = []
    if i < 0: return out
    body = src[i:]
    for m in re.finditer(r"fn (test_\w+)\(\)", body):
        name = m.group(1)
        nxt = body.find("#[test]", m.end())
        chunk = body[m.end(): nxt if nxt > 0 else len(body)]
        vals = {}
        for mm in re.finditer(r"let (\w+) = json!\(", chunk):
            j, depth = mm.end(), 1
            while j < len(chunk) and depth:
                depth += {"(": 1, ")": -1}.get(chunk[j], 0); j += 1
            try: vals[mm.group(1)] = json.loads(chunk[mm.end(): j - 1])
            except Exception: pass
        if "a" in vals and "b" in vals:
            out.append({"tag": "unit:" + name, "schemas": [vals["a"], vals["b"]], "defs": {}})
    return out

HAND = [
 # conjunctions of three whose verdict must not depend on how two of them are grouped: a closed object, a second declaration of
 # one of its members with another type, and a member that requires it without declaring it (unsatisfiable in every grouping);
 # a closed tuple (additionalItems false, as many positions as maxItems) against one item schema that admits every position
 {"tag": "hand:closed-conflict-required", "schemas": [{"type": "object", "properties": {"x": {"type": "string"}}, "additionalProperties": False},
                                                      {"type": "object", "properties": {"x": {"type": "integer"}}}, {"type": "object", "required": ["x"]}],
  "defs": {}, "cands": [{}, {"x": 1}, {"x": "s"}]},
 {"tag": "hand:closed-conflict-optional", "schemas": [{"type": "object", "properties": {"x": {"type": "string"}, "y": {"type": "integer"}}, "additionalProperties": False},
                                                      {"type": "object", "properties": {"x": {"type": "integer"}}}, {"type": "object", "required": ["y"]}],
  "defs": {}, "cands": [{}, {"y": 1}, {"x": 1, "y": 1}, {"x": "s", "y": 2}]},
 {"tag": "hand:closed-tuple-single", "schemas": [{"type": "array", "items": [{"type": "string"}, {"type": "integer"}], "additionalItems": False, "minItems": 2, "maxItems": 2},
                                                 {"type": "array", "items": {"type": ["string", "integer"]}}],
  "defs": {}, "cands": [["a", 1], ["a"], [1, "a"], ["a", 1, 2]]},
 {"tag": "hand:tuple-single", "schemas": [{"type": "array", "items": [{"type": "string"}, {"type": "integer"}], "minItems": 2, "maxItems": 2},
                                          {"type": "array", "items": {"type": ["string", "integer"]}}],
  "defs": {}, "cands": [["a", 1], ["a"], [1, "a"]]},
 # the witnesses of the listed findings (also in KNOWN_FINDINGS.json)
 {"tag": "hand:int-number", "schemas": [{"type": "integer"}, {"type": "number"}], "defs": {}, "cands": [1, 2.5, "x"]},
 {"tag": "hand:array-items", "schemas": [{"type": "array", "items": {"type": "string"}}, {"type": "array", "items": {"type": "integer"}}], "defs": {}, "cands": [[], ["a"], [1]]},
 {"tag": "hand:not-enum", "schemas": [{"enum": [1, 2, 3]}, {"not": {"enum": [2]}}], "defs": {}, "cands": [1, 2, 3, 4]},
 {"tag": "hand:not-required-2", "schemas": [{"type": "object", "properties": {"a": {}, "b": {}}}, {"not": {"type": "object", "required": ["a", "b"]}}], "defs": {},
  "cands": [{}, {"a": 1}, {"b": 1}, {"a": 1, "b": 2}]},
 {"tag": "hand:anyof-overlap", "schemas": [{"type": "object", "properties": {"c": {"type": "string"}}},
    {"anyOf": [{"type": "object", "properties": {"a": {"type": "integer"}}, "required": ["a"]}, {"type": "object", "properties": {"b": {"type": "integer"}}, "required": ["b"]}]}],
  "defs": {}, "cands": [{}, {"a": 1}, {"b": 1}, {"a": 1, "b": 1}, {"a": 1, "b": 1, "c": "x"}, {"a": "s"}]},
 {"tag": "hand:roughly-array", "schemas": [ref("A"), {"type": "array", "maxItems": 1}], "defs": {"A": {"type": "array", "items": {"type": "string"}}},
  "cands": [[], ["a"], ["a", "b"], [1]]},
 {"tag": "hand:order-not", "schemas": [{"not": {"type": "object", "required": ["a"]}}, {"not": {"type": "object", "required": ["b"]}}, {"type": "object", "properties": {"c": {"type": "string"}}}],
  "defs": {}, "cands": [{}, {"a": 1}, {"b": 1}, {"c": "x"}, {"c": 1}]},
 {"tag": "hand:format-conflict", "schemas": [{"type": "integer", "format": "int8"}, {"type": "integer", "format": "uint8"}], "defs": {}, "cands": [5, -1, 200, "x"]},
 # sound arms
 {"tag": "hand:addl-schema", "schemas": [{"type": "object", "properties": {"a": {"type": "string"}}, "additionalProperties": {"type": "integer"}},
    {"type": "object", "properties": {"b": {"type": "string"}}, "required": ["b"]}], "defs": {},
  "cands": [{}, {"b": "x"}, {"b": 1}, {"a": "s", "b": "x"}, {"a": 1, "b": "x"}, {"z": 1}, {"z": "s"}]},
 {"tag": "hand:ref-allof", "schemas": [ref("A"), ref("B")],
  "defs": {"A": {"type": "object", "properties": {"x": {"type": "integer"}}, "required": ["x"]},
           "B": {"allOf": [ref("A"), {"type": "object", "properties": {"y": {"type": "string"}}}]}},
  "cands": [{}, {"x": 1}, {"x": 1, "y": "s"}, {"x": "s"}, {"x": 1, "y": 2}]},
 {"tag": "hand:closed-required", "schemas": [{"type": "object", "properties": {"a": {"type": "string"}}, "additionalProperties": False},
    {"type": "object", "properties": {"b": {"type": "integer"}}, "required": ["b"]}], "defs": {}, "cands": [{}, {"a": "x"}, {"b": 1}, {"a": "x", "b": 1}]},
 {"tag": "hand:tuple-list", "schemas": [{"type": "array", "items": [{"type": "string"}, {"type": "integer"}], "minItems": 2, "maxItems": 2},
    {"type": "array", "items": {}, "uniqueItems": False}], "defs": {}, "cands": [[], ["a", 1], ["a"], ["a", 1, 2], [1, "a"]]},
 {"tag": "hand:oneof-tagged", "schemas": [{"type": "object", "properties": {"k": {"type": "string"}, "n": {"type": "integer"}}},
    {"oneOf": [{"type": "object", "properties": {"k": {"enum": ["a"]}, "p": {"type": "boolean"}}, "required": ["k"]},
               {"type": "object", "properties": {"k": {"enum": ["b"]}, "n": {"type": "string"}}, "required": ["k", "n"]}]}], "defs": {},
  "cands": [{}, {"k": "a"}, {"k": "b"}, {"k": "b", "n": "s"}, {"k": "a", "n": 1, "p": True}, {"k": "c"}]},
 # a subschema whose only assertion is `const`: it narrows (or empties) what the other subschemas enumerate, wherever it stands
 {"tag": "hand:const-outside-ref", "schemas": [ref("Color"), {"const": "blue"}], "defs": {"Color": {"type": "string", "enum": ["red", "green"]}}, "cands": ["red", "green", "blue", 1]},
 {"tag": "hand:const-inside-ref", "schemas": [{"const": "red", "description": "only red"}, ref("Color")], "defs": {"Color": {"type": "string", "enum": ["red", "green"]}}, "cands": ["red", "green", "blue"]},
 {"tag": "hand:const-enum", "schemas": [{"enum": ["a", "b", "c"]}, {"const": "c"}, {"type": "string"}], "defs": {}, "cands": ["a", "b", "c", "d"]},
 {"tag": "hand:const-const", "schemas": [{"const": "a"}, {"const": "b"}], "defs": {}, "cands": ["a", "b", "c"]},
 {"tag": "hand:const-int-range", "schemas": [{"type": "integer", "minimum": 0, "maximum": 10}, {"const": 11}], "defs": {}, "cands": [0, 10, 11]},
]

PROPS = ["a", "b", "c", "d", "e"]
SCALARS = [{"type": "string"}, {"type": "integer"}, {"type": "boolean"}, {"type": "string", "enum": ["red", "green", "blue"]},
           {"type": "array", "items": {"type": "string"}}, {"type": "number"}, {"enum": ["red", 1, None]}]

def gen_obj(rng, home, defs, closed_ok=True):
    """an object schema over the property pool; `home` maps a property name to its usual schema"""
    n = rng.randint(0, 3)
    names = rng.sample(PROPS, n)
    props = {}
    for p in names:
        s = home[p]
        if rng.random() < 0.07: s = rng.choice(SCALARS)                       # conflicting / different schema
        elif rng.random() < 0.12 and defs: s = ref(rng.choice(sorted(defs)))
        props[p] = copy.deepcopy(s)
    o = {"type": "object"}
    if props: o["properties"] = props
    req = [p for p in names if rng.random() < 0.5]
    if rng.random() < 0.05: req.append(rng.choice(PROPS))                      # required but undeclared here
    if req: o["required"] = sorted(set(req))
    r = rng.random()
    if r < 0.1 and closed_ok: o["additionalProperties"] = False
    elif r < 0.15: o["additionalProperties"] = True
    elif r < 0.3: o["additionalProperties"] = copy.deepcopy(rng.choice(SCALARS[:3]))
    return o

SCALAR_POOL = [{"type": "string"}, {"enum": ["red", "green", "blue"]}, {"enum": ["green", "blue", 1]}, {"type": "integer"},
               {"type": "integer", "minimum": 0, "maximum": 10}, {"type": "number"}, {"type": "string", "enum": ["red", "off"]},
               {"type": "boolean"}, {"type": "string", "minLength": 2}, {"not": {"enum": ["green"]}}, {},
               {"const": "blue"}, {"const": "red"}, {"const": 1}, {"type": "string", "const": "green"},
               {"type": "integer", "minimum": 0, "maximum": 0, "exclusiveMinimum": -1}, {"type": "integer", "minimum": 1},
               {"type": "integer", "exclusiveMinimum": 0, "exclusiveMaximum": 2}, {"type": "integer", "format": "int32", "maximum": 5},
               {"type": "number", "minimum": 0.5, "maximum": 2.5}, {"type": "integer", "enum": [0, 1, 2]},
               {"type": ["number", "null"]}, {"enum": [1, 2.5, None, "x"]}, {"type": "number", "enum": [1, 2, 2.5]}]

TUP_ITEMS = [{"type": "object", "properties": {"id": {"type": "integer"}}, "required": ["id"]}, {"type": "string"}, {"type": "integer"},
             {"type": "object", "properties": {"id": {"type": "integer"}}, "required": ["id"]}]

def scalar_pair_cases():
    """every unordered pair of the scalar pool (and each entry against a reference to an enumeration): deterministic"""
    out = []
    defs = {"Enum": {"type": "string", "enum": ["red", "green", "blue"]}, "Num": {"type": "number"}}
    pool = SCALAR_POOL + [ref("Enum"), ref("Num")]
    for i in range(len(pool)):
        for j in range(i + 1, len(pool)):
            xs = [copy.deepcopy(pool[i]), copy.deepcopy(pool[j])]
            out.append({"tag": "pair:%d:%d" % (i, j), "schemas": xs, "defs": reach_defs(defs, xs)})
    return out

def gen_case(rng, k):
    home = {p: copy.deepcopy(rng.choice(SCALARS[:5])) for p in PROPS}
    defs = {}
    if rng.random() < 0.7:
        defs["Enum"] = {"type": "string", "enum": rng.sample(["red", "green", "blue", "on", "off"], 3)}
    if rng.random() < 0.8: defs["Base"] = gen_obj(rng, home, {}, closed_ok=False)
    if rng.random() < 0.4: defs["Other"] = gen_obj(rng, home, {})
    if "Base" in defs and rng.random() < 0.5:
        defs["Comp"] = {"allOf": [ref("Base"), gen_obj(rng, home, {}, closed_ok=False)]}
    if rng.random() < 0.3: defs["Arr"] = {"type": "array", "items": copy.deepcopy(rng.choice(SCALARS[:3]))}
    if rng.random() < 0.3:
        # a tuple definition, often with structurally identical positions (refinements of ONE position must not be lost or moved)
        its = [copy.deepcopy(rng.choice(TUP_ITEMS)) for _ in range(rng.choice([2, 2, 3]))]
        if rng.random() < 0.6: its[1] = copy.deepcopy(its[0])
        defs["Tup"] = {"type": "array", "items": its, "minItems": len(its), "maxItems": len(its)}
    objdefs = [d for d in ("Base", "Other", "Comp") if d in defs]
    mode = rng.choices(["object", "scalar", "array", "oneof", "not"], [50, 14, 12, 14, 10])[0]
    n = rng.choice([2, 2, 2, 3, 3, 4])
    xs = []
    if mode in ("object", "oneof", "not"):
        for _ in range(n):
            if objdefs and rng.random() < 0.3: xs.append(ref(rng.choice(objdefs)))
            else: xs.append(gen_obj(rng, home, {k: v for k, v in defs.items() if k in ("Enum", "Arr")}))
        if mode == "oneof":
            tag = rng.choice(["kind", "type"])
            vs = rng.sample(["a", "b", "c"], rng.choice([2, 3]))
            if rng.random() < 0.6:      # internally tagged, disjoint by the tag value
                brs = []
                for v in vs:
                    b = gen_obj(rng, home, {}, closed_ok=False)
                    b.setdefault("properties", {})[tag] = {"type": "string", "enum": [v]}
                    b["required"] = sorted(set(b.get("required", []) + [tag]))
                    brs.append(b)
            else:                       # externally tagged, closed single-member objects
                brs = [{"type": "object", "properties": {v: copy.deepcopy(rng.choice(SCALARS[:3]))}, "required": [v], "additionalProperties": False} for v in vs]
            comb = "oneOf" if rng.random() < 0.75 else "anyOf"
            if rng.random() < 0.12:     # overlapping branches (exercises the subtraction arm)
                brs = [{"type": "object", "properties": {p: copy.deepcopy(home[p])}, "required": [p]} for p in rng.sample(PROPS, 2)]
                comb = rng.choice(["oneOf", "anyOf"])
            if rng.random() < 0.4:      # the branches are named types: `oneOf` over references (a discriminated union of definitions)
                for bi, b in enumerate(brs): defs["Br%d" % bi] = b
                brs = [ref("Br%d" % bi) for bi in range(len(brs))]
            xs[rng.randrange(len(xs))] = {comb: brs}
        if mode == "object" and len(xs) >= 3 and rng.random() < 0.3:
            # a bare `allOf` nested in the `allOf` (the grouping of a conjunction carries no meaning)
            i_ = rng.randrange(len(xs) - 1)
            xs[i_:i_ + 2] = [{"allOf": xs[i_:i_ + 2]}]
        if mode == "not":
            names = rng.sample(PROPS, 1 if rng.random() < 0.8 else 2)
            xs.insert(rng.randrange(len(xs) + 1), {"not": {"type": "object", "required": sorted(names)}})
    elif mode == "scalar":
        pool = SCALAR_POOL + ([ref("Enum")] if "Enum" in defs else [])
        xs = [copy.deepcopy(rng.choice(pool)) for _ in range(n)]
    elif mode == "scalar-old":
        pool = [{"type": "string"}, {"enum": ["red", "green", "blue"]}, {"enum": ["green", "blue", 1]}, {"type": "integer"},
                {"type": "integer", "minimum": 0, "maximum": 10}, {"type": "number"}, {"type": "string", "enum": ["red", "off"]},
                {"type": "boolean"}, {"type": "string", "minLength": 2}, {"not": {"enum": ["green"]}}, {},
                {"const": "blue"}, {"const": "red"}, {"const": 1}, {"type": "string", "const": "green"},
                {"type": "integer", "minimum": 0, "maximum": 0, "exclusiveMinimum": -1}, {"type": "integer", "minimum": 1},
                {"type": "integer", "exclusiveMinimum": 0, "exclusiveMaximum": 2}, {"type": "integer", "format": "int32", "maximum": 5},
                {"type": "number", "minimum": 0.5, "maximum": 2.5}, {"type": "integer", "enum": [0, 1, 2]}]
        if "Enum" in defs: pool.append(ref("Enum"))
        xs = [copy.deepcopy(rng.choice(pool)) for _ in range(n)]
    else:
        def arr():
            if "Arr" in defs and rng.random() < 0.25: return ref("Arr")
            if "Tup" in defs and rng.random() < 0.5:
                if rng.random() < 0.45: return ref("Tup")
                its = []
                for it in defs["Tup"]["items"]:           # a refinement of some positions, `{}` elsewhere
                    r_ = rng.random()
                    if r_ < 0.5: its.append({})
                    elif it.get("type") == "object": its.append(rng.choice([{"type": "object", "properties": {"label": {"type": "string"}}},
                                                                             {"type": "object", "properties": {"label": {"type": "string"}}, "required": ["label"]}]))
                    elif it.get("type") == "string": its.append({"type": "string", "maxLength": 3})
                    else: its.append({"type": "integer", "minimum": 0})
                return {"type": "array", "items": its, "minItems": len(its), "maxItems": len(its)}
            if rng.random() < 0.25:
                ts = [copy.deepcopy(rng.choice(SCALARS[:3])) for _ in range(rng.choice([1, 2, 2, 3]))]
                t_ = {"type": "array", "items": ts, "minItems": len(ts), "maxItems": len(ts)}
                if rng.random() < 0.4: t_["additionalItems"] = False       # (nothing beyond the positions anyway)
                return t_
            if rng.random() < 0.12:      # one item schema that admits several types (meets a tuple position by position)
                return {"type": "array", "items": {"type": rng.sample(["string", "integer", "boolean"], 2)}}
            a = {"type": "array", "items": copy.deepcopy(rng.choice(SCALARS[:3] + [{}]))}
            if rng.random() < 0.3: a["minItems"] = rng.randint(0, 2)
            if rng.random() < 0.3: a["maxItems"] = rng.randint(1, 3)
            if rng.random() < 0.15: a["uniqueItems"] = True
            return a
        xs = [arr() for _ in range(n)]
    return {"tag": "ded:%d:%s" % (k, mode), "schemas": xs, "defs": reach_defs(defs, xs)}

def universe_cases(rng, k, size):
    import gen
    doc = gen.gen_universe(rng, size, set(gen.FEATURE_SETS["c09"]))
    defs = {n: strip_meta(s) for n, s in doc.get("definitions", {}).items()}
    out = []
    for ptr, s in gen.iter_schemas(doc):
        if isinstance(s, dict) and isinstance(s.get("allOf"), list) and len(s["allOf"]) >= 2 and len(s["allOf"]) <= 5:
            xs = [strip_meta(x) for x in s["allOf"]]
            out.append({"tag": "uni:%d:%s" % (k, ptr), "schemas": xs, "defs": reach_defs(defs, xs)})
    return out

def acyclic(case):
    """merge.rs resolves references without a visited set: a cyclic `$ref` chain overflows the stack (the
    source's TODO; listed under C01). Such cases are not sent to the in-process harness."""
    defs = case["defs"]
    def refs(s): return {x["$ref"].rsplit("/", 1)[1] for x in walk(s) if isinstance(x.get("$ref"), str)}
    g = {k: refs(v) & set(defs) for k, v in defs.items()}
    state = {}
    def dfs(k):
        if state.get(k) == 1: return False
        if state.get(k) == 2: return True
        state[k] = 1
        ok = all(dfs(x) for x in g[k])
        state[k] = 2
        return ok
    return all(dfs(k) for k in g)

def small(v):
    if isinstance(v, bool) or v is None or isinstance(v, str): return True
    if isinstance(v, int): return -2**63 <= v <= 2**63 - 1
    if isinstance(v, float): return v == v and abs(v) < 1e9 and (v * 64) == int(v * 64) and v != int(v)
    if isinstance(v, list): return all(small(x) for x in v)
    if isinstance(v, dict): return all(small(x) for x in v.values())
    return True

GENERIC = [None, True, 0, 7, "red", "zz", [], {}, ["red"], [1, 2]]

def candidates(rng, case, per=3):
    """per-branch valid instances, their member-wise unions, instances of the conjunction, mutants, generic values"""
    import gen
    doc = {"definitions": case["defs"]}
    vals = list(case.get("cands", []))
    per_branch = []
    for s in case["schemas"]:
        got = []
        for _ in range(per):
            try: got.append(gen.gen_valid(rng, doc, s))
            except Exception: break
        per_branch.append(got)
        vals += got
    objs = [[v for v in got if isinstance(v, dict)] for got in per_branch]
    if all(objs):
        for _ in range(per + 1):
            u = {}
            for got in rng.sample(objs, len(objs)):
                u.update(copy.deepcopy(rng.choice(got)))
            vals.append(u)
    whole = []
    for _ in range(per):
        try: whole.append(gen.gen_valid(rng, doc, {"allOf": case["schemas"]}))
        except Exception: break
    vals += whole
    muts = []
    for s, got in list(zip(case["schemas"], per_branch)) + [({"allOf": case["schemas"]}, whole)]:
        for v in got[:2]:
            try: muts += [m[1] for m in gen.mutants(rng, doc, s, v, precheck=False)]
            except Exception: pass
    rng.shuffle(muts)
    vals += muts[:10]
    vals += GENERIC
    seen, out = set(), []
    for v in vals:
        t = J(v)
        if t in seen or not small(v): continue
        seen.add(t); out.append(v)
    return out[:40]

def arrange(case, p):
    """the subschema list under an arrangement: a permutation of indices, some of them grouped — a nested tuple stands for a bare
    `allOf` of those members (the grouping of a conjunction carries no meaning)"""
    return [({"allOf": arrange(case, i)} if isinstance(i, tuple) else case["schemas"][i]) for i in p]

def regroupings(n):
    """arrangements that group two adjacent members of the identity / the reversed order into a nested allOf"""
    out = []
    if n >= 3:
        for base in (list(range(n)), list(reversed(range(n)))):
            for k in range(n - 1):
                out.append(tuple(base[:k]) + ((base[k], base[k + 1]),) + tuple(base[k + 2:]))
    return out

def perms_of(rng, n):
    if n <= 4: return list(itertools.permutations(range(n))) + (regroupings(n) if n == 3 else regroupings(n)[:2])
    base = [tuple(range(n)), tuple(reversed(range(n)))]
    while len(base) < 8:
        p = list(range(n)); rng.shuffle(p)
        if tuple(p) not in base: base.append(tuple(p))
    return base

def make_cases(ctx):
    rng = ctx.rng
    cases = [copy.deepcopy(c) for c in HAND] + unit_test_cases() + scalar_pair_cases()
    nded, nuni = (6000, 800) if ctx.tier == "thorough" else (420, 60)
    for k in range(nded): cases.append(gen_case(rng, k))
    for k in range(nuni): cases += universe_cases(rng, k, 3 + k % 6)
    cases = [c for c in cases if acyclic(c)]
    for c in cases:
        c["cands"] = candidates(rng, c)
        c["perms"] = perms_of(rng, len(c["schemas"]))
    return cases

# ------------------------------------------------------------------ evaluation of one set of cases
def req_line(case, p, with_cands=True):
    r = {"schemas": arrange(case, p), "defs": case["defs"]}
    if with_cands: r["cands"] = case["cands"]
    return json.dumps(r, ensure_ascii=False)

def evaluate(ctx, cases, model=True):
    """fills, per case and permutation: real answer, model answer, oracle accept-vectors"""
    import gen
    lines, idx = [], []
    for ci, c in enumerate(cases):
        for p in c["perms"]:
            lines.append(req_line(c, p)); idx.append((ci, p))
    real = vlib.run_side("impl", "c09", lines) if lines else []
    mod = vlib.run_side("model", "c09", lines) if (model and lines) else [None] * len(lines)
    for c in cases: c["real"], c["model"], c["mvec"] = {}, {}, {}
    for (ci, p), r, m in zip(idx, real, mod):
        cases[ci]["real"][p] = r
        if m is not None:
            f = (m.split("\t") + ["", "", ""])[:4]
            cases[ci]["model"][p] = {"ans": f[0], "gaps": [g for g in f[1].split(",") if g and f[0] not in ("unsupported",)], "vec": f[2], "all": f[3], "why": f[1]}
    # normalise the real results through the AST (syntactic comparison)
    nl, nidx = [], []
    for ci, c in enumerate(cases):
        for p, r in c["real"].items():
            if model and r not in ("never", "panic", "badrequest"):
                nl.append(json.dumps({"op": "norm", "schema": json.loads(r)}, ensure_ascii=False)); nidx.append((ci, p))
    for c in cases: c["norm"] = {}
    if nl:
        for (ci, p), a in zip(nidx, vlib.run_side("model", "c09", nl, tag="norm")): cases[ci]["norm"][p] = a
    # oracle
    oreq, oidx = [], []
    for ci, c in enumerate(cases):
        did = "c%d" % ci
        oreq.append({"doc_id": did, "doc": {"definitions": c["defs"]}}); oidx.append(None)
        for vi, v in enumerate(c["cands"]):
            oreq.append({"doc_id": did, "schema": {"allOf": c["schemas"]}, "value": v}); oidx.append((ci, "all", vi))
        seen = {}
        for p, r in c["real"].items():
            if r in ("never", "panic", "badrequest"): continue
            if r in seen: continue
            seen[r] = p
            ms = json.loads(r)
            for vi, v in enumerate(c["cands"]):
                oreq.append({"doc_id": did, "schema": ms, "value": v}); oidx.append((ci, r, vi))
        c["_seen"] = seen
    ans = gen.run_oracle(oreq) if oreq else []
    tmp = {}
    for k, a in zip(oidx, ans):
        if k is None: continue
        tmp.setdefault((k[0], k[1]), {})[k[2]] = a
    for ci, c in enumerate(cases):
        n = len(c["cands"])
        c["allvec"] = [tmp.get((ci, "all"), {}).get(i) for i in range(n)]
        for p, r in c["real"].items():
            if r == "never": c["mvec"][p] = [False] * n
            elif r in ("panic", "badrequest"): c["mvec"][p] = None
            else: c["mvec"][p] = [tmp.get((ci, r), {}).get(i) for i in range(n)]
        del c["_seen"]
    return cases

def vec_text(v): return "".join("1" if x is True else "0" if x is False else "?" for x in v)

def check_case(c):
    """-> (correspondence disagreements, property failures) of one evaluated case"""
    dis, fails = [], []
    ident = c["perms"][0]
    for p in c["perms"]:
        r, mv = c["real"][p], c["mvec"][p]
        m = c["model"].get(p)
        if m is not None and m["ans"] not in ("unsupported", "badrequest"):
            if r == "panic":
                # merge_so_string / merge_so_number hit `unimplemented!()` on two different validations (finding C09-validation-panic);
                # the model has no panic: where the real merge reaches that site before it reaches the conflict the model reports,
                # the two are not compared (the failure itself is attributed below)
                if not pred_validation_panic(c): dis.append({"perm": p, "what": "real panics, model answers", "model": m["ans"]})
            elif (r == "never") != (m["ans"] == "never"):
                dis.append({"perm": p, "what": "never flag", "real": r, "model": m["ans"]})
            elif "?" not in m["vec"] and mv is not None and all(isinstance(x, bool) for x in mv) and vec_text(mv) != m["vec"]:
                i = next(i for i in range(len(mv)) if vec_text(mv)[i] != m["vec"][i])
                dis.append({"perm": p, "what": "accept-vector", "real": r, "model": m["ans"], "instance": c["cands"][i],
                            "real_accepts": mv[i], "model_accepts": m["vec"][i] == "1"})
        if mv is None: continue
        for i, (a, b) in enumerate(zip(c["allvec"], mv)):
            if not isinstance(a, bool) or not isinstance(b, bool): continue
            if a and not b:
                fails.append({"kind": "reject-valid", "perm": p, "instance": c["cands"][i], "merged": r,
                              "what": "instance valid under every subschema is not valid under the merged schema" + (" (merge reports never)" if r == "never" else "")}); break
            if b and not a:
                fails.append({"kind": "permissive", "perm": p, "instance": c["cands"][i], "merged": r,
                              "what": "merged schema accepts an instance that is not valid under all subschemas"}); break
    vecs = {p: (None if c["mvec"][p] is None else vec_text(c["mvec"][p])) for p in c["perms"]}
    if len(set(vecs.values())) > 1:
        p0 = ident
        p1 = next(p for p in c["perms"] if vecs[p] != vecs[p0])
        inst = None
        if vecs[p0] is not None and vecs[p1] is not None:
            i = next(i for i in range(len(vecs[p0])) if vecs[p0][i] != vecs[p1][i]); inst = c["cands"][i]
        fails.append({"kind": "order", "perm": p0, "perm2": p1, "instance": inst, "merged": c["real"][p0], "merged2": c["real"][p1],
                      "what": "permuting the subschemas changes the accept-vector" if inst is not None else "one order panics, another does not"})
    return dis, fails

def closed_requires_undeclared(text):
    try: m = json.loads(text)
    except Exception: return False
    def go(x, n=6):
        if n <= 0 or not isinstance(x, dict): return False
        if x.get("additionalProperties") is False and any(r not in (x.get("properties") or {}) for r in x.get("required") or []): return True
        return any(go(v, n - 1) for v in (x.get("properties") or {}).values()) or any(go(v, n - 1) for k in ("allOf", "anyOf", "oneOf") for v in x.get(k) or [])
    return go(m)

def attribute(c, fail, dis):
    """finding id for a property failure, or None (-> VIOLATION). The model must reproduce the real answers on the
    permutations involved and report a gap of the right kind; inputs outside the AST: python predicates."""
    ps = [fail["perm"]] + ([fail["perm2"]] if "perm2" in fail else [])
    if any(c["real"].get(p) == "panic" for p in ps) and pred_validation_panic(c): return "C09-validation-panic"
    # the merge answers with a CLOSED object that requires a member it does not declare (no instance at all; the conflicting
    # declaration was dropped because the object is closed): the converter makes that member a field of any value
    if fail.get("stage") == "compiled" and fail["kind"] in ("order", "permissive", "never-accepts") and \
            any(closed_requires_undeclared(t) for t in (fail.get("merged"), fail.get("merged2"))): return "C09-closed-required-undeclared"
    bad = {tuple(d["perm"]) for d in dis}
    ms = [c["model"].get(p) for p in ps]
    if all(m is not None and m["ans"] not in ("unsupported", "badrequest") for m in ms) and not any(tuple(p) in bad for p in ps):
        gaps = set()
        for m in ms: gaps |= set(m["gaps"])
        hit = sorted(gaps & KIND_GAPS[fail["kind"]])
        if hit: return GAP_ID[hit[0]]
        if fail.get("stage") == "compiled" and fail["kind"] in ("reject-valid", "order"):
            if remerge_gaps(c, [fail.get("merged"), fail.get("merged2")]) & {"notRequired", "notDropped"}: return "C09-oneof-remerge"
        return None
    if any(m is not None and m["ans"] == "unsupported" for m in ms) or all(m is None for m in ms):
        if fail["kind"] in ("reject-valid", "order") and pred_format_conflict(c): return "C09-format-conflict"
        if pred_overlap(c): return "C09-anyof-subtract"
        if pred_not(c): return "C09-not-dropped"
        if fail["kind"] in ("reject-valid", "order") and pred_int_number(c): return "C09-int-number"
        if fail["kind"] in ("reject-valid", "order") and pred_array_items(c): return "C09-array-items"
        if fail["kind"] in ("reject-valid", "order"):
            if fail.get("stage") == "compiled" and remerge_gaps(c, [fail.get("merged"), fail.get("merged2")]) & {"notRequired", "notDropped"}: return "C09-oneof-remerge"
            if pred_remerge(c, fail.get("stage") == "compiled"): return "C09-oneof-remerge"
        if any(c["real"][p] == "panic" for p in c["perms"]) and pred_validation_panic(c): return "C09-validation-panic"
    return None

def remerge_gaps(c, merged_texts):
    """the converter merges again every `allOf` that try_merge_with_each_subschema emitted (convert.rs convert_all_of):
    the gaps the MODEL reports for those second merges"""
    lines = []
    for t in merged_texts:
        if not t or t in ("never", "panic", "badrequest"): continue
        for x in walk(json.loads(t)):
            if isinstance(x.get("allOf"), list) and x["allOf"]:
                lines.append(json.dumps({"schemas": x["allOf"], "defs": c["defs"], "cands": []}, ensure_ascii=False))
    gaps = set()
    if lines and os.path.exists(vlib.drv("c09")):
        for a in vlib.run_side("model", "c09", lines, tag="remerge"):
            f = (a.split("\t") + ["", ""])[:2]
            if f[0] not in ("unsupported", "badrequest"): gaps |= {g for g in f[1].split(",") if g}
    return gaps

# ------------------------------------------------------------------ (c) compiled code
def compiled_stage(ctx, cases, findings_hit, record_fail, name=None):
    from batch import Batch
    import batch as batchmod
    sel = [c for c in cases if not any(r in ("panic", "badrequest") for r in c["real"].values())]
    ncomp = 500 if (ctx is not None and ctx.tier == "thorough") else 60
    # keep the hand cases, then a spread of the generated ones
    hand = [c for c in sel if c["tag"].startswith("hand:")]
    rest = [c for c in sel if not c["tag"].startswith("hand:")]
    step = max(1, len(rest) // max(1, ncomp - len(hand)))
    sel = hand + rest[::step][: max(0, ncomp - len(hand))]
    b = Batch(name or ctx, assertions=False, ops=("de", "rt"), ops_for="named", allow_failed_calls=False, **({"verbose": False} if name else {}))
    bcs = []
    for c in sel:
        perms = c["perms"][:6]
        defs = dict(c["defs"])
        for i, p in enumerate(perms): defs["Perm%d" % i] = {"allOf": arrange(c, p)}
        doc = {"$schema": "http://json-schema.org/draft-07/schema#", "definitions": defs}
        bc = b.add_case([{"root": doc}], {}, tag=c["tag"], ops_types=["Perm%d" % i for i in range(len(perms))])
        bc.c9, bc.perms9, bc.doc9 = c, perms, doc
        bcs.append(bc)
    b.prepare(); b.build()
    live = [bc for bc in bcs if bc.compiled]
    reqs, meta = [], []
    for bc in live:
        for i, p in enumerate(bc.perms9):
            for vi, v in enumerate(bc.c9["cands"]):
                for op in ("de", "rt"):
                    reqs.append((bc, "Perm%d" % i, op, J(v))); meta.append((bc, i, vi, op))
    ans = b.run(reqs) if reqs else []
    table = {}
    for (bc, i, vi, op), a in zip(meta, ans): table[(id(bc), i, vi, op)] = a
    stats = {"cases": len(bcs), "compiled": len(live), "requests": len(reqs), "never_types_checked": 0,
             "skipped": sum(1 for bc in bcs if not bc.compiled)}
    for bc in live:
        c = bc.c9
        n = len(c["cands"])
        def acc(i, vi):
            a = table.get((id(bc), i, vi, "de"), "")
            return True if a.startswith("ok") else False if a.startswith("err") else None
        def rtv(i, vi):
            a = table.get((id(bc), i, vi, "rt"), "")
            if a.startswith("ok "):
                w = a[3:].split("\t")
                try: return "ok " + batchmod.canon(w[0])
                except Exception: return a
            return a.split(" ")[0]
        for vi in range(n):
            accs = [acc(i, vi) for i in range(len(bc.perms9))]
            if any(a is None for a in accs): continue
            if len(set(accs)) > 1:
                i1 = next(i for i in range(len(accs)) if accs[i] != accs[0])
                record_fail(c, {"kind": "order", "perm": bc.perms9[0], "perm2": bc.perms9[i1], "instance": c["cands"][vi], "stage": "compiled",
                                "merged": c["real"][bc.perms9[0]], "merged2": c["real"][bc.perms9[i1]],
                                "what": "compiled types of two permutations disagree on acceptance", "compiled": [table[(id(bc), 0, vi, "de")], table[(id(bc), i1, vi, "de")]]})
                break
            if c["allvec"][vi] is True and not accs[0]:
                record_fail(c, {"kind": "reject-valid", "perm": bc.perms9[0], "instance": c["cands"][vi], "stage": "compiled", "merged": c["real"][bc.perms9[0]],
                                "what": "compiled type rejects an instance valid under every subschema", "compiled": table[(id(bc), 0, vi, "de")]})
                break
            rts = [rtv(i, vi) for i in range(len(bc.perms9))]
            if accs[0] and len(set(rts)) > 1:
                i1 = next(i for i in range(len(rts)) if rts[i] != rts[0])
                record_fail(c, {"kind": "order", "perm": bc.perms9[0], "perm2": bc.perms9[i1], "instance": c["cands"][vi], "stage": "compiled",
                                "merged": c["real"][bc.perms9[0]], "merged2": c["real"][bc.perms9[i1]],
                                "what": "round trip differs between two permutations", "compiled": [rts[0], rts[i1]]})
                break
        # unsatisfiable: merge says never -> uninhabited type (enum without variants), every candidate rejected
        for i, p in enumerate(bc.perms9):
            if c["real"][p] != "never": continue
            stats["never_types_checked"] += 1
            ent = None
            for e in (bc.dump or {}).get("entries", {}).values():
                if e.get("name") == "Perm%d" % i: ent = e
            empty_enum = ent is not None and ent.get("kind") == "enum" and ent.get("variants") == []
            accepted = [vi for vi in range(n) if acc(i, vi)]
            if not any(x is True for x in c["allvec"]) and (accepted or not empty_enum):
                record_fail(c, {"kind": "permissive", "perm": p, "instance": c["cands"][accepted[0]] if accepted else None, "stage": "compiled",
                                "what": "unsatisfiable allOf does not yield an uninhabited type", "ir_entry": ent})
                break
    return stats

# ------------------------------------------------------------------ run / replay
def witness_fails(fd):
    """replay the canonical witness of a listed finding on the real merge_all"""
    import gen
    w = fd["witness"]
    c = {"schemas": w["schemas"], "defs": w.get("defs", {}), "cands": [w["instance"]], "tag": "witness"}
    n = len(c["schemas"])
    c["perms"] = [tuple(range(n))] + ([tuple(w["perm2"])] if "perm2" in w else [])
    evaluate(None, [c], model=False)
    dis, fails = check_case(c)
    if w.get("stage") == "compiled":
        got = []
        compiled_stage(None, [c], {}, lambda cc, f: got.append(f), name="c09_wit_" + fd["id"])
        return any(f["kind"] == w["kind"] for f in got)
    if w.get("expect") == "panic": return c["real"][c["perms"][0]] == "panic"
    return any(f["kind"] == w["kind"] for f in fails)

def run(ctx):
    findings = vlib.load_findings("C09")
    st = vlib.proof_stage(ctx, "C09", PROOF_TARGETS, PROOF_FILES, slices=["c09"])
    cases = make_cases(ctx)
    ctx.log("cases=%d permutations=%d candidates=%d" % (len(cases), sum(len(c["perms"]) for c in cases), sum(len(c["cands"]) for c in cases)))
    evaluate(ctx, cases, model=st["driver_ok"])
    stats = {"requests": 0, "model_supported": 0, "model_unsupported": 0, "syntactic_equal": 0, "syntactic_compared": 0, "semantic_compared": 0,
             "semantic_disagreements": 0, "real_never": 0, "real_panic": 0, "gap_runs": {}, "m4_compared": 0, "m4_disagreements": 0,
             "gapfree_supported": 0}
    known_hit, new_fails, all_dis, m4_dis = {}, [], [], []
    def record_fail(c, f):
        dis = c.get("_dis", [])
        fid = attribute(c, f, dis)
        if fid and any(fd["id"] == fid for fd in findings): known_hit[fid] = known_hit.get(fid, 0) + 1
        else: new_fails.append((c, f))
    for c in cases:
        dis, fails = check_case(c)
        c["_dis"] = dis
        for d in dis: all_dis.append((c, d))
        for p in c["perms"]:
            stats["requests"] += 1
            r = c["real"][p]
            if r == "never": stats["real_never"] += 1
            if r == "panic": stats["real_panic"] += 1
            m = c["model"].get(p)
            if m is None: continue
            if m["ans"] in ("unsupported", "badrequest"): stats["model_unsupported"] += 1; continue
            stats["model_supported"] += 1
            if not m["gaps"]: stats["gapfree_supported"] += 1
            for g in set(m["gaps"]): stats["gap_runs"][g] = stats["gap_runs"].get(g, 0) + 1
            if r not in ("panic",):
                stats["semantic_compared"] += 1
                stats["syntactic_compared"] += 1
                if (r == "never" and m["ans"] == "never") or (r != "never" and c["norm"].get(p) == m["ans"]): stats["syntactic_equal"] += 1
            if m["all"] and "?" not in m["all"] and all(isinstance(x, bool) for x in c["allvec"]):
                stats["m4_compared"] += len(m["all"])
                if m["all"] != vec_text(c["allvec"]):
                    i = next(i for i in range(len(m["all"])) if m["all"][i] != vec_text(c["allvec"])[i])
                    m4_dis.append({"case": c["tag"], "schemas": c["schemas"], "defs": c["defs"], "instance": c["cands"][i], "lean_valid": m["all"][i] == "1", "oracle": c["allvec"][i]})
        seen_kinds = set()
        for f in fails:
            if f["kind"] in seen_kinds: continue
            seen_kinds.add(f["kind"]); record_fail(c, f)
    stats["semantic_disagreements"] = len(all_dis)
    stats["m4_disagreements"] = len(m4_dis)
    ctx.log("M0: %s" % {k: v for k, v in stats.items()})
    cstats = compiled_stage(ctx, cases, known_hit, record_fail)
    ctx.log("compiled: %s; known findings hit %s; new failures %d" % (cstats, known_hit, len(new_fails)))
    # listed findings: canonical witnesses
    for fd in findings:
        try: fails_now = witness_fails(fd)
        except Exception as e: fails_now = True; ctx.notes.append("witness of %s could not be replayed: %s" % (fd["id"], e))
        if fails_now: vlib.known(ctx, fd)
        else: ctx.notes.append("known finding %s no longer reproduces" % fd["id"])
    broken = list(st["broken"])
    if all_dis: broken.append("correspondence c09 (merge_all): model and implementation disagree on %d requests" % len(all_dis))
    if m4_dis: broken.append("correspondence M4 (validity): Lean `valid` and python-jsonschema disagree on %d instances" % len(m4_dis))
    seen = set()
    for c, f in new_fails:
        key = (c["tag"], f["kind"])
        if key in seen or len(ctx.violations) >= 6: continue
        seen.add(key)
        vlib.violation(ctx, {"property": "C09", "kind": f["kind"], "what": f["what"], "case": c["tag"],
                             "input": {"schemas": c["schemas"], "defs": c["defs"]}, "perm": list(f["perm"]), "perm2": list(f.get("perm2", [])) or None,
                             "instance": f.get("instance"), "stage": f.get("stage", "merge_all"), "merged": f.get("merged"), "merged2": f.get("merged2"),
                             "compiled": f.get("compiled"), "ir_entry": f.get("ir_entry"),
                             "model": {str(list(p)): c["model"].get(p) for p in c["perms"][:6]},
                             "disagreements_on_this_case": [{**d, "perm": list(d["perm"])} for d in c.get("_dis", [])][:4],
                             "broken_obligations": broken})
    if broken and not new_fails:
        vlib.violation(ctx, {"property": "C09", "kind": "property no longer shown to hold", "broken_obligations": broken,
                             "first_disagreements": [{"case": c["tag"], "input": {"schemas": c["schemas"], "defs": c["defs"]}, **{**d, "perm": list(d["perm"])}} for c, d in all_dis[:4]],
                             "first_m4_disagreements": m4_dis[:3], "lean_log": st.get("log", "")}, no_input=True)
    nontrivial = sum(1 for c in cases if len({J(s) for s in c["schemas"]}) > 1)
    cov = {"obligations": st["obligations"], "discharged": st["discharged"],
           "checker_cmd": "cd /verif/lean && lake build TypifyModel.Proofs.C09 TypifyModel.Proofs.C09Findings && lake env lean TypifyModel/Audit/C09.lean",
           "trusted_base": vlib.TRUSTED_BASE + ["python-jsonschema Draft7Validator (tools/oracle.py) as the independent validity oracle",
                                                "Driver/SchemaJson.lean + Driver/C09.lean (JSON text <-> Schema AST; what the AST cannot express is answered `unsupported`)",
                                                "serde/rustc for the compiled stage"],
           "axioms": st.get("axioms", {}),
           "evaluations": stats["requests"] + cstats["requests"], "distinct_nontrivial": nontrivial,
           "rule": "a case is an allOf list with its definitions; every permutation (all for length <= 4) is one merge_all request on the real code and on the model; "
                   "candidates per case: per-branch valid instances, their member-wise unions, instances of the conjunction, single-constraint mutants, generic values; "
                   "non-trivial = at least two different subschemas",
           "samples": [{"case": c["tag"], "schemas": c["schemas"], "defs": c["defs"], "real": c["real"][c["perms"][0]][:300]} for c in cases[len(HAND):len(HAND) + 3]],
           "cases": len(cases), "merge_requests": stats["requests"], "model_supported_requests": stats["model_supported"],
           "model_unsupported_requests": stats["model_unsupported"], "model_gapfree_requests(theorems apply)": stats["gapfree_supported"],
           "model_gap_runs": stats["gap_runs"], "semantic_agreement": "%d/%d" % (stats["semantic_compared"] - len(all_dis), stats["semantic_compared"]),
           "syntactic_agreement(modulo AST)": "%d/%d" % (stats["syntactic_equal"], stats["syntactic_compared"]),
           "traces_validated_against_impl": stats["semantic_compared"], "model_disagreements": len(all_dis),
           "m4_instances_compared": stats["m4_compared"], "m4_disagreements": len(m4_dis),
           "real_never": stats["real_never"], "real_panic": stats["real_panic"], "compiled_stage": cstats,
           "impl_oracle_failures_new": len(new_fails), "impl_oracle_failures_known": known_hit}
    vlib.write_evidence(ctx, "proof", cov, [
        "the theorems cover runs of the model that go through no defective arm (GapFree); the runs that do are listed findings, exercised on the implementation only",
        "instance domain: integer literals within i64, dyadic non-integers, no duplicate keys; `integer` without format is read with the i64 range by Driver/SchemaJson",
        "that `convert_schema` turns the merged schema into a type accepting what the schema accepts is C02's subject; here it is observed on compiled code only (stage c)",
        "cyclic `$ref` chains overflow the stack inside merge.rs (its own TODO; listed under C01) and are not sent to the in-process harness"])

def replay(ctx, path):
    obj = json.load(open(path))
    if "input" not in obj:
        print("replay names broken obligations only:", obj.get("broken_obligations")); return 1
    c = {"tag": "replay", "schemas": obj["input"]["schemas"], "defs": obj["input"].get("defs", {}), "cands": [obj.get("instance")] + GENERIC}
    n = len(c["schemas"])
    perms = [tuple(obj.get("perm") or range(n))]
    if obj.get("perm2"): perms.append(tuple(obj["perm2"]))
    for p in perms_of(ctx.rng, n):
        if p not in perms and len(perms) < 24: perms.append(p)
    c["perms"] = perms
    evaluate(ctx, [c], model=os.path.exists(vlib.drv("c09")))
    dis, fails = check_case(c)
    for p in perms[:6]:
        print("perm", list(p), "| real:", c["real"][p][:200], "| real accepts:", vec_text(c["mvec"][p]) if c["mvec"][p] is not None else None,
              "| model:", (c["model"].get(p) or {}).get("ans", "")[:120], (c["model"].get(p) or {}).get("gaps"))
    print("oracle allOf accepts:", vec_text(c["allvec"]), "candidates:", J(c["cands"]))
    hit = [f for f in fails if f["kind"] == obj.get("kind")]
    if obj.get("stage") == "compiled":
        got = []
        compiled_stage(ctx, [c], {}, lambda cc, f: got.append(f))
        for f in got: print("compiled:", f["what"], J(f.get("instance")), f.get("compiled"))
        hit = hit or [f for f in got if f["kind"] == obj.get("kind")]
    for f in hit[:3]: print("FAILS:", f["kind"], "-", f["what"], "| instance", J(f.get("instance")))
    return 1 if hit else 0

"""C13 — x-rust-type substitution policy.
Theorems: lean/TypifyModel/Proofs/C13.lean (ext_policy, ext_malformed, ext_path, ext_def, semver_spec_*).
Correspondence: slice c13 — the real `semver` crate and the real typify path (TypeSpaceSettings::with_crate /
with_unknown_crates, TypeSpace::add_type / add_ref_types) vs the Lean model (Model/Semver.lean, Model/RustExt.lean).
Oracle: the property itself in Python over the implementation's answers, with an independent grammar-based
reading of Cargo's version-requirement syntax as intervals (`py_*` below)."""
import json, re, itertools
import vlib

PROOF_TARGETS = ["TypifyModel.Proofs.C13"]
PROOF_FILES = ["Proofs/C13.lean", "Proofs/Lemmas/SemverLemmas.lean", "Proofs/Lemmas/RustExtLemmas.lean"]
THEOREMS = ["ext_policy", "ext_policy_generate", "ext_malformed", "ext_path", "ext_deny_eq_generate", "ext_def",
            "semver_spec_release", "semver_spec_full", "semver_spec_req", "semver_pre_rule", "semver_pre_excluded",
            "semver_caret", "semver_tilde", "semver_star", "semver_parse_covered", "pre_order", "version_order"]

# ------------------------------------------------------------------ independent semver (Cargo's documented semantics)
U64 = 2**64 - 1
NUM = r"(?:0|[1-9][0-9]*)"
PREID = r"(?:0|[1-9][0-9]*|[0-9]*[A-Za-z-][0-9A-Za-z-]*)"
PRE = PREID + r"(?:\." + PREID + r")*"
BUILD = r"[0-9A-Za-z-]+(?:\.[0-9A-Za-z-]+)*"
WILD = r"[*xX]"
RE_VERSION = re.compile(r"(%s)\.(%s)\.(%s)(?:-(%s))?(?:\+(%s))?" % (NUM, NUM, NUM, PRE, BUILD))
RE_COMP = re.compile(
    r" *(?P<op>>=|<=|=|>|<|~|\^)? *(?P<maj>%s)"
    r"(?:\.(?:(?P<w1>%s)(?:\.(?P<w2>%s))?|(?P<min>%s)(?:\.(?:(?P<w3>%s)|(?P<pat>%s)(?:-(?P<pre>%s))?(?:\+(?P<build>%s))?))?))? *"
    % (NUM, WILD, WILD, NUM, WILD, NUM, PRE, BUILD))
RE_STAR = re.compile(r" *[*xX] *")

def pre_key(pre):
    """precedence key of a pre-release tag; a release sorts above every pre-release"""
    if pre is None: return (1,)
    ids = []
    for p in pre.split("."):
        ids.append((0, int(p), "") if re.fullmatch(r"[0-9]+", p) else (1, 0, p))
    return (0, tuple(ids))

def py_parse_version(s):
    m = RE_VERSION.fullmatch(s)
    if not m: return None
    a, b, c = int(m.group(1)), int(m.group(2)), int(m.group(3))
    if max(a, b, c) > U64: return None
    return (a, b, c, m.group(4))

def py_parse_req(s):
    """list of comparators (op, major, minor|None, patch|None, pre|None), [] for `*`, None if invalid"""
    if RE_STAR.fullmatch(s): return []
    if s.lstrip(" ")[:1] in ("*", "x", "X"): return None
    pieces = s.split(",")
    if len(pieces) > 32: return None
    out = []
    for p in pieces:
        m = RE_COMP.fullmatch(p)
        if not m: return None
        op = m.group("op")
        wild = bool(m.group("w1") or m.group("w3"))
        if op is None: op = "*" if wild else "^"
        maj = int(m.group("maj"))
        mi = int(m.group("min")) if m.group("min") is not None else None
        pa = int(m.group("pat")) if m.group("pat") is not None else None
        if max(maj, mi or 0, pa or 0) > U64: return None
        out.append((op, maj, mi, pa, m.group("pre")))
    return out

def caret_upper(I, J, K):
    if I > 0 or J is None: return (I + 1, 0, 0)
    if J > 0 or K is None: return (0, J + 1, 0)
    return (0, 0, K + 1)

def py_cmp_release(c, t):
    """Cargo's table for a release version t=(a,b,c): comparator as a half-open interval on triples"""
    op, I, J, K, _ = c
    lo = (I, J or 0, K or 0)
    nxt = (I + 1, 0, 0) if J is None else ((I, J + 1, 0) if K is None else (I, J, K + 1))   # first triple above the partial
    if op == "^": return lo <= t < caret_upper(I, J, K)
    if op == "~": return lo <= t < ((I + 1, 0, 0) if J is None else (I, J + 1, 0))
    if op in ("=", "*"): return lo <= t < nxt
    if op == ">": return t >= nxt
    if op == ">=": return t >= lo
    if op == "<": return t < lo
    if op == "<=": return t < nxt
    raise ValueError(op)

def py_cmp_full(c, v):
    """full comparator I.J.K[-pre] on any version: lower bounds and explicit bounds in precedence order,
       the implied upper bound of ^ and ~ on the release triple"""
    op, I, J, K, pre = c
    ck = (I, J, K, pre_key(pre)); vk = (v[0], v[1], v[2], pre_key(v[3])); t = v[:3]
    if op == "^": return ck <= vk and t < caret_upper(I, J, K)
    if op == "~": return ck <= vk and t < (I, J + 1, 0)
    if op == "=": return vk == ck
    if op == ">": return vk > ck
    if op == ">=": return vk >= ck
    if op == "<": return vk < ck
    if op == "<=": return vk <= ck
    raise ValueError(op)

def py_matches(req, v):
    """True / False / None (= the documented semantics do not settle it: a pre-release version that
       passes the pre-release rule and every full comparator, against a requirement that also
       contains a partial comparator)"""
    if v[3] is not None and not any(c[1:4] == v[:3] and c[4] is not None for c in req):
        return False              # the pre-release rule
    res = True
    for c in req:
        if c[3] is not None: r = py_cmp_full(c, v)
        elif v[3] is None: r = py_cmp_release(c, v[:3])
        else: r = None
        if r is False: return False
        if r is None: res = None
    return res

# ------------------------------------------------------------------ case generation
OPS = ["", "^", "~", "=", ">", ">=", "<", "<="]
PRES = ["alpha", "alpha.1", "0", "rc.1", "beta-2", "alpha.beta", "1", "10"]

def fmt(t, pre=None, build=None):
    s = "%d.%d.%d" % t
    if pre: s += "-" + pre
    if build: s += "+" + build
    return s

def req_forms(op, b):
    I, J, K = b
    forms = ["%d.%d.%d" % b, "%d.%d" % (I, J), "%d" % I, "%d.%d.*" % (I, J), "%d.*" % I, "%d.x.X" % I,
             "%d.%d.%d-alpha.1" % b, "%d.%d.%d-rc.1+b5" % b, "%d.%d.%d+b5" % b, "%d.%d.%d-0" % b]
    return [op + f for f in forms]

def pred(t):
    a, b, c = t
    if c > 0: return (a, b, c - 1)
    if b > 0: return (a, b - 1, 99)
    if a > 0: return (a - 1, 99, 99)
    return None

def edge_versions(b):
    """versions just below, at and just above every interval edge a requirement on base b can have"""
    I, J, K = b
    edges = {(I, J, K), (I, J, K + 1), (I, J + 1, 0), (I + 1, 0, 0), (I, 0, 0), (I, J, 0), (0, J + 1, 0), (0, 0, K + 1),
             (I + 2, 0, 0), (I, J + 2, 0)}
    out = set()
    for e in edges:
        out.add(e); out.add((e[0], e[1], e[2] + 1))
        p = pred(e)
        if p: out.add(p)
    return sorted(out)

def semver_cases(ctx):
    quick = ctx.tier == "quick"
    bases = [(0, 0, 0), (0, 0, 3), (0, 2, 0), (0, 2, 3), (1, 0, 0), (1, 2, 3)] + ([] if quick else [(1, 2, 0), (3, 0, 5), (0, 10, 9), (12, 9, 10)])
    vpres = [None, "alpha.1", "alpha", "rc.1"] if quick else [None] + PRES
    cases = []
    reqs_all = []
    for b in bases:
        reqs = [r for op in OPS for r in req_forms(op, b)] + ["*"]
        if not quick:
            reqs += [op + " " + fmt(b, p) for op in OPS for p in PRES]
        reqs_all += reqs
        vers = []
        for t in edge_versions(b):
            for p in vpres:
                if quick and p is not None and t not in ((b), (b[0], b[1], b[2] + 1), (b[0] + 1, 0, 0), (b[0], b[1] + 1, 0), (0, 0, b[2] + 1)):
                    continue
                vers.append(fmt(t, p))
        vers.append(fmt(b, None, "build.7"))
        vers.append(fmt(b, "alpha.1", "7"))
        for r in reqs:
            for v in vers:
                cases.append({"k": "semver", "req": r, "ver": v})
    # comma lists: random conjunctions from the pool, probed around the bases
    n = 1500 if quick else 60000
    allv = sorted({fmt(t, p) for b in bases for t in edge_versions(b) for p in (None, "alpha.1", "alpha", "rc.1", "0")})
    for _ in range(n):
        k = ctx.rng.choice([2, 2, 2, 3])
        r = ctx.rng.choice([", ", ",", " , "]).join(ctx.rng.choice(reqs_all) for _ in range(k))
        for v in ctx.rng.sample(allv, 2):
            cases.append({"k": "semver", "req": r, "ver": v})
    # documented examples and malformed inputs (both sides)
    bad_reqs = ["", " ", "1.2.3.4", "01.2.3", "1.02.3", "1.2.03", "1.2.3-", "1.2.3-01", "1.2.3-a..b", "1.2.3-.a", "1.2.3+", "1.2.3-a+",
                ">= 1.2.3", "> =1.2.3", "1.2.3 , 1.4", "1.2.3,", ",1.2.3", "* , 1", "*, 1", "*,", "x", "X", " * ", "x.1", "*.1", "1.*.3", "1.x.x", "1.*.*-a",
                "18446744073709551615", "18446744073709551616", "1.18446744073709551616", "1.2.18446744073709551616", "1.2.3-18446744073709551616",
                "1.2.3 - 2.0.0", "1.2-alpha", "1-alpha", "||", "1.2.3 || 2", "=", "^", "~>1.2", "v1.2.3", "1.2.3-é", "１.2.3",
                "  1.2.3  ", "\t1.2.3", "1 .2", "1. 2", "1.2.3 -a", "1.2.3- a", "^ 1", "^  1.2", ">=1.*", "<1.2.*", "~1.x", "=1.*.*", "^0", "^0.0", "~0", "^0.0.0",
                ">=1.2.3-alpha, <1.2.3", ">=1.2.3-alpha.1,<1.2.3-beta", ">=0.1.0, <1.0.0", "1.2.3--", "1.2.3-a-b", "1.2.3-0a", "1.2.3-00a", "1.2.3-00", "1.2.3+00",
                "1.2.3-a+b.c", "1.2.3+b-c", "1.2.*-a", "1.2.*+a", "1.2+a", "===1", ">>1", "<>1", "=>1", "1,2,3", "1.2.3.", ".1", "1.", "1..2", "-1", "+1", "1.2.3-a.", "1.2.3+a.", "1.2.3+.a",
                ", ".join(["1"] * 32), ", ".join(["1"] * 33), ", ".join([">=0.0.%d" % i for i in range(31)])]
    bad_vers = ["1", "1.2", "1.2.3.4", "01.2.3", "1.02.3", "1.2.03", "1.2.3-", "1.2.3-01", "1.2.3-0", "1.2.3-00a", "1.2.3+", "1.2.3+01", "", " 1.2.3", "1.2.3 ", "v1.2.3",
                "*", "1.2.x", "18446744073709551615.0.0", "18446744073709551616.0.0", "1.2.3-a+b", "1.2.3+b-a", "1.2.3-a.b.c", "1.2.3--", "1.2.3-a..b", "1.2.3-é",
                "1.2.3", "1.2.4-alpha.1", "1.2.3-alpha.1", "1.2.3-alpha.2", "1.2.3-alpha", "1.2.3-beta", "0.5.0", "1.0.0", "0.9.9", "0.1.0", "0.0.31", "0.0.1"]
    for r in bad_reqs:
        for v in bad_vers:
            cases.append({"k": "semver", "req": r, "ver": v})
    for v in bad_vers + ["!", "*", " *", "! "]:
        cases.append({"k": "cratevers", "s": v})
    return cases

INLINE = [{"type": "string"}, {"type": "integer"}, {"type": "boolean"},
          {"title": "Pp", "type": "object", "properties": {"q": {"type": "string"}}}]
REF = {"$ref": "#/definitions/Gizmo"}

def ext_cases(ctx, pairs):
    """decision table of the property: crate configuration x policy x requirement/version pairs x rename x
       parameters x malformed variants x anonymous/definition use"""
    quick = ctx.tier == "quick"
    rng = ctx.rng
    cases = []
    # both sides of the requirement equally often
    p_yes = [p for p in pairs if py_matches(py_parse_req(p[0]), py_parse_version(p[1])) is True]
    p_no = [p for p in pairs if py_matches(py_parse_req(p[0]), py_parse_version(p[1])) is not True]
    def sample_pairs(k):
        return [rng.choice(p_yes if i % 2 == 0 else p_no) for i in range(k)]
    crate_forms = [("util", "util"), ("my-util", "my_util"), ("my_util", "my_util"), ("a-b-c", "a_b_c"), ("U2", "U2")]
    renames = [None, "other", "new-util", "x-y-z"]
    policies = [None, "Generate", "Allow", "Deny"]
    def params_variants(defmode):
        v = [None, [], [INLINE[0]], [INLINE[1], INLINE[0]], [INLINE[3]], [INLINE[2], INLINE[3]]]
        if defmode: v += [[REF], [REF, INLINE[0]], [INLINE[1], REF]]
        return v
    def mk(crates, unknown, x, deff=None, gizmo_x=None, title="Foo"):
        d = {"k": "ext", "crates": crates, "unknown": unknown, "x": x, "title": title, "def": deff}
        if gizmo_x is not None: d["gizmo_x"] = gizmo_x
        return d
    def xval(crate, req, path, params=None, extra=None):
        x = {"crate": crate, "version": req, "path": path}
        if params is not None: x["parameters"] = params
        if extra: x.update(extra)
        return x
    # (1) the policy table, exhaustively: configuration x policy x crate-name form x rename x pairs (sampled per cell)
    per_cell = 2 if quick else 12
    for (cn, ci) in crate_forms:
        for pol in policies:
            for rn in renames:
                for conf in ["absent", "*", "!", "version", "other-crate"]:
                    ps = sample_pairs(per_cell) if conf in ("version",) else sample_pairs(1)
                    for (req, ver) in ps:
                        if conf == "absent": crates = []
                        elif conf == "other-crate": crates = [["zzz", "*", rn]]
                        elif conf == "version": crates = [[cn, ver, rn]]
                        else: crates = [[cn, conf, rn]]
                        cases.append(mk(crates, pol, xval(cn, req, ci + "::sub::Thing")))
    # (2) every requirement/version pair under a configured version (the semver tie through typify itself)
    sel = pairs if not quick else sample_pairs(2500)
    for (req, ver) in sel:
        cases.append(mk([["util", ver, None]], None, xval("util", req, "util::Thing")))
    # (3) parameters and definitions
    n3 = 1200 if quick else 30000
    for _ in range(n3):
        cn, ci = rng.choice(crate_forms)
        defmode = rng.random() < 0.7
        last = rng.choice(["Thing", "Sprocket", "GearBox", "IoThing"])      # (compound names: a word of them is a name of its own)
        # definition names equal to / unrelated to the last path segment, and names that are a suffix, a prefix or an extension
        # of it (the transparent newtype is decided by comparing the two names); all of them Pascal-case words already, so that the
        # type name is the key itself (re-cased keys are C08's subject)
        key = None if not defmode else rng.choice([last, last, "Other", "Thing", "Renamed", last[2:].capitalize(), last[-3:].capitalize(),
                                                   last[:3], last + "X", "X" + last] + re.findall(r"[A-Z][a-z0-9]*", last))
        params = rng.choice(params_variants(defmode))
        conf = rng.choice(["absent", "*", "!", "version", "version"])
        req, ver = sample_pairs(2)[rng.randrange(2)]
        rn = rng.choice(renames)
        crates = {"absent": [], "*": [[cn, "*", rn]], "!": [[cn, "!", rn]], "version": [[cn, ver, rn]]}[conf]
        gx = None
        if defmode and rng.random() < 0.6:
            g_last = rng.choice(["Gizmo", "Widget"])
            gx = xval(cn, rng.choice([req, "*", "^0"]), ci + "::" + g_last)
        mid = rng.choice(["::", "::a::", "::a::b_c::"])
        cases.append(mk(crates, rng.choice(policies), xval(cn, req, ci + mid + last, params), key, gx,
                        title=rng.choice(["Foo", last, "my title"])))
    # (4) malformed extensions under configurations that would otherwise substitute
    good = [["util", "*", None]]
    okx = xval("util", "1", "util::Thing")
    bad_x = [None, 1, "util::Thing", True, {}, {"crate": "util"}, {"crate": "util", "version": "1"}, {"crate": "util", "path": "util::Thing"},
             {"version": "1", "path": "util::Thing"}, xval("util", 1, "util::Thing"), xval(1, "1", "util::Thing"), xval("util", "1", None),
             xval("util", "1", ["util", "Thing"]), xval("util", "1", "util::Thing", {"type": "string"}), xval("util", "1", "util::Thing", "x"),
             xval("util", "1", "util::Thing", None, {"parameters": None}),
             xval("util", "1", "util::Thing", None, {"extra": 1}), xval("util", "1", "util::Thing", None, {"Crate": "x"}),
             xval("util", "not a req", "util::Thing"), xval("util", "", "util::Thing"), xval("util", "1.2.3.4", "util::Thing"), xval("util", "1.*.3", "util::Thing"),
             xval("util", "01", "util::Thing"), xval("util", "1.2-alpha", "util::Thing"), xval("util", ">=1, ", "util::Thing"), xval("util", "*, 1", "util::Thing"),
             xval("util", "1", "util"), xval("util", "1", "Thing"), xval("util", "1", "util:Thing"), xval("util", "1", "other::Thing"), xval("util", "1", "::util::Thing"),
             xval("util", "1", "utilx::Thing"), xval("util", "1", "uti::Thing"), xval("util", "1", "Util::Thing"), xval("util", "1", " util::Thing"), xval("util", "1", "util ::Thing"),
             xval("util", "1", "crate::util::Thing"), xval("util", "1", "util::"), xval("util", "1", "util::util::Thing"), xval("util", "1", "util::Thing::"),
             xval("util", "*", "util::Thing"), xval("util", " * ", "util::Thing"), xval("util", "x", "util::Thing"), okx]
    bad_hy = [xval("my-util", "1", "my-util::Thing"), xval("my-util", "1", "my_util::Thing"), xval("my_util", "1", "my-util::Thing"),
              xval("my-util", "1", "my::Thing"), xval("my-util", "1", "util::Thing"), xval("my--util", "1", "my__util::Thing"), xval("-", "1", "_::Thing")]
    for x in bad_x:
        for crates, pol in [(good, None), ([], "Allow"), ([["util", "1.5.0", "re-named"]], "Deny")]:
            for deff in [None, "Thing", "Other"]:
                cases.append(mk(crates, pol, x, deff))
    for x in bad_hy:
        for crates, pol in [([[x["crate"], "*", None]], None), ([], "Allow"), ([[x["crate"], "1.5.0", "re-named"]], "Generate"),
                            ([[x["crate"].replace("-", "_"), "*", None]], "Deny")]:
            cases.append(mk(crates, pol, x, None))
    # (5) configuration corner cases: duplicates (last insert wins), invalid configured versions
    for pol in policies:
        cases.append(mk([["util", "!", None], ["util", "*", "late"]], pol, okx))
        cases.append(mk([["util", "*", "early"], ["util", "!", None]], pol, okx))
        cases.append(mk([["util", "1.0.0", None], ["util", "2.0.0", None]], pol, okx))
        cases.append(mk([["util", "2.0.0", None], ["util", "1.0.0", None]], pol, okx))
        for badv in ["1", "1.2", "", "x", "01.0.0", "1.0.0 ", "^1.0.0"]:
            cases.append(mk([["util", badv, None]], pol, okx))
    return cases

def req_ver_pairs(sem_cases):
    seen = set(); out = []
    for c in sem_cases:
        if c["k"] != "semver": continue
        r = py_parse_req(c["req"]); v = py_parse_version(c["ver"])
        if v is None: continue
        k = (c["req"], c["ver"])
        if k in seen: continue
        seen.add(k); out.append(k)
    return out

# ------------------------------------------------------------------ the property over implementation answers
def param_ident(p, gizmo_ident):
    if "$ref" in p: return gizmo_ident
    if p.get("type") == "string": return "::std::string::String"
    if p.get("type") == "integer": return "i64"
    if p.get("type") == "boolean": return "bool"
    if p.get("type") == "object" and "title" in p: return p["title"]
    return None

def well_typed_ext(x):
    """does the value deserialise as the documented extension object? None = not settled here"""
    if isinstance(x, list): return None
    if not isinstance(x, dict): return False
    if not all(isinstance(x.get(k), str) for k in ("crate", "version", "path")): return False
    if "parameters" in x:
        if not isinstance(x["parameters"], list): return False
        if not all(isinstance(p, (dict, bool)) for p in x["parameters"]): return None
    return True

def expected_ext(cfg_crates, unknown, x):
    """the property's decision: ('generate', why) | ('use', native path) | None when not settled"""
    wt = well_typed_ext(x)
    if wt is None: return None
    if not wt: return ("generate", "extension value malformed")
    req = py_parse_req(x["version"])
    if req is None: return ("generate", "bad requirement")
    crate, path = x["crate"], x["path"]
    ident = crate.replace("-", "_")
    if not path.startswith(ident + "::"): return ("generate", "path does not start with the crate's identifier")
    conf = None
    for (n, v, rn) in cfg_crates:
        if n == crate: conf = (v, rn)
    if conf is None:
        if unknown == "Allow": return ("use", "::" + path)
        return ("generate", "crate unconfigured under %s" % (unknown or "Generate"))
    v, rn = conf
    first = rn.replace("-", "_") if rn is not None else ident
    native = "::" + first + path[len(ident):]
    if v == "!": return ("generate", "crate marked !")
    if v == "*": return ("use", native)
    pv = py_parse_version(v)
    if pv is None: return None
    m = py_matches(req, pv)
    if m is None: return None
    return ("use", native) if m else ("generate", "configured version does not satisfy the requirement")

def oracle(case, ans_line):
    """returns (list of failed clauses, settled?)"""
    ans, _, extra = ans_line.partition("\t")
    fails = []
    if case["k"] == "semver":
        r = py_parse_req(case["req"]); v = py_parse_version(case["ver"])
        exp = "err req" if r is None else "err ver" if v is None else None
        if exp is None:
            m = py_matches(r, v)
            if m is None: return [], False
            exp = "ok true" if m else "ok false"
        if ans != exp: fails.append("semver: crate answers %r, documented semantics give %r" % (ans, exp))
        return fails, True
    if case["k"] == "cratevers":
        s = case["s"]
        exp = "never" if s == "!" else "any" if s == "*" else ("version" if py_parse_version(s) else "none")
        if ans != exp: fails.append("CrateVers::parse answers %r, expected %r" % (ans, exp))
        return fails, True
    # ext
    crates = case["crates"]
    for (n, v, rn) in crates:
        if v not in ("!", "*") and py_parse_version(v) is None:
            if ans != "err cratevers": fails.append("CrateVers::parse accepted %r" % v)
            return fails, True
    exp = expected_ext(crates, case["unknown"], case["x"])
    if exp is None: return [], False
    info = json.loads(extra) if extra else {}
    items = info.get("items", [])
    key, title = case.get("def"), case.get("title")
    if exp[0] == "generate":
        if ans != "generate":
            fails.append("policy: expected generate (%s), implementation answers %r" % (exp[1], ans))
        elif key is None and title and re.fullmatch(r"[A-Z][A-Za-z0-9]*", title) and ("struct " + title) not in items:
            fails.append("generated alternative is not a struct named after the title: %r" % items)
        elif key is not None and ("struct " + key) not in items:
            fails.append("generated alternative is not a struct named after the definition: %r" % items)
        return fails, True
    native = exp[1]
    x = case["x"]
    params = x.get("parameters") or []
    if not re.fullmatch(r"::(?!_::)[A-Za-z_][A-Za-z0-9_]*(::(?!_(::|$))[A-Za-z_][A-Za-z0-9_]*)+", native):
        return [], False           # not a nameable Rust path; outside the documented extension schema
    if ans == "panic":
        if key is None and any(isinstance(p, dict) and "$ref" in p for p in params):
            return [], False       # `$ref` parameter outside a definition set: nothing to resolve (not the property's domain)
        return ["panic"], True
    # the Gizmo definition a `$ref` parameter points at
    gizmo_ident = "Gizmo"
    if key is not None and case.get("gizmo_x") is not None:
        g = expected_ext(crates, case["unknown"], case["gizmo_x"])
        if g is None: return [], False
        if g[0] == "use":
            gizmo_ident = g[1] if g[1].rsplit("::", 1)[-1] == "Gizmo" else None   # direct or wrapper `Gizmo`: both acceptable
    pids = [param_ident(p, gizmo_ident) for p in params]
    def render(ps): return native + ("<" + "".join(p + "," for p in ps) + ">" if ps else "")
    if gizmo_ident is None:
        accept = {render([("Gizmo" if (isinstance(p, dict) and "$ref" in p) else i) for p, i in zip(params, pids)]),
                  render([(g[1] if (isinstance(p, dict) and "$ref" in p) else i) for p, i in zip(params, pids)])}
    elif any(i is None for i in pids):
        return [], False
    else:
        accept = {render(pids)}
    kind, _, rest = ans.partition(" ")
    if kind == "use":
        if rest not in accept:
            fails.append("path/parameters: expected %s, implementation uses %r" % (sorted(accept), rest))
        # a definition whose name differs from the external type's is reached through a transparent newtype named after it
        # (an external type WITH type parameters stands for the definition directly whatever the names: type_entry.rs name_match)
        if key is not None and key != native.rsplit("::", 1)[-1] and not params:
            fails.append("the definition %r is named differently from %s but no newtype named after it is generated" % (key, native))
        used_as = rest
    elif kind == "wrap":
        nm, _, inner = rest.partition(" ")
        if key is None or nm != key: fails.append("wrapper newtype %r is not named after the definition %r" % (nm, key))
        if key is not None and key == native.rsplit("::", 1)[-1]: fails.append("wrapper although the definition's name equals the type's")
        if inner not in accept: fails.append("path/parameters: expected %s inside the wrapper, found %r" % (sorted(accept), inner))
        w = info.get("wrapper")
        if not w or not w.get("transparent") or w.get("inner") != inner:
            fails.append("wrapper is not a transparent newtype around the native path: %r" % (w,))
        used_as = nm
    else:
        fails.append("policy: expected use %s, implementation answers %r" % (native, ans))
        return fails, True
    # the schema's own structure is not generated
    own = [i for i in items if i.split(" ", 1)[1] in {title, key} - {None}]
    if kind == "wrap": own = [i for i in own if i != "struct " + key]
    if own: fails.append("schema's own structure generated although substituted: %r" % own)
    if key is not None and info.get("field") != used_as:
        fails.append("a referring struct uses %r, expected %r" % (info.get("field"), used_as))
    return fails, True

def nontrivial(case, ans):
    if case["k"] == "semver": return ans.startswith("ok")
    if case["k"] == "ext": return isinstance(case["x"], dict) and "crate" in case["x"]
    return False

# ------------------------------------------------------------------ the check
def gen_cases(ctx):
    sem = semver_cases(ctx)
    pairs = req_ver_pairs(sem)
    # pairs the typify path is probed with: valid requirement, both outcomes
    good = [(r, v) for (r, v) in pairs if py_parse_req(r) is not None]
    cases = sem + ext_cases(ctx, good)
    seen = set(); out = []
    for c in cases:
        l = json.dumps(c, sort_keys=True)
        if l not in seen:
            seen.add(l); out.append((c, l))
    return out

def multi_use(ctx):
    """"declared type parameters are converted and applied in order", when one external path is used more than once with
    different parameters (inline, so the uses are unnamed types that assign_type may share) and when a parameter refers
    back to the enclosing definition (so cycle breaking passes by)"""
    import m2, irutil
    rng = ctx.rng
    STR, U32, BOOL = {"type": "string"}, {"type": "integer", "format": "uint32"}, {"type": "boolean"}
    def x(path, params): return {"type": "array", "x-rust-type": {"crate": "std", "version": "1", "path": path, "parameters": params}}
    def m(path, params): return {"type": "object", "x-rust-type": {"crate": "std", "version": "1", "path": path, "parameters": params}}
    docs = []
    pools = [STR, U32, BOOL, {"$ref": "#/definitions/Leaf"}]
    for k in range(12 if ctx.tier == "thorough" else 4):
        a, b = rng.sample(pools, 2)
        holder = {"type": "object", "properties": {"first": x("std::collections::VecDeque", [a]), "second": x("std::collections::VecDeque", [b]),
                                                    "third": m("std::collections::BTreeMap", [a, b]), "fourth": m("std::collections::BTreeMap", [b, a]),
                                                    "items": {"type": "array", "items": x("std::collections::VecDeque", [b])}},
                  "required": ["first", "second"]}
        node = {"type": "object", "properties": {"kids": x("std::collections::VecDeque", [{"$ref": "#/definitions/Node"}]),
                                                  "index": m("std::collections::BTreeMap", [STR, {"$ref": "#/definitions/Node"}]),
                                                  "back": x("std::collections::VecDeque", [{"$ref": "#/definitions/Holder"}])}}
        docs.append({"definitions": {"Holder": holder, "Node": node, "Leaf": {"type": "object", "properties": {"v": U32}}}})
    reqs = [{"settings": {"crates": [{"name": "std", "version": "1.0.0", "rename": None}]}, "calls": [{"root": d}]} for d in docs]
    ans = m2.tvh_ir(reqs)
    fails = []; checked = 0
    def kind_of(es, i, fuel=6):
        e = es.get(i, {})
        if e.get("kind") in ("struct", "enum", "newtype"): return "named:" + e["name"]
        if e.get("kind") == "box": return "box:" + kind_of(es, e["id"], fuel - 1)
        if e.get("kind") == "integer": return "integer:" + str(e.get("name") or e.get("type_name") or "")
        return e.get("kind", "?")
    def want(s_):
        if "$ref" in s_: return "named:" + s_["$ref"].rsplit("/", 1)[1]
        if s_.get("type") == "integer": return "integer:"
        return {"string": "string", "boolean": "boolean"}[s_["type"]]
    for rq, a in zip(reqs, ans):
        if not (a.get("calls") and a["calls"][-1].startswith("ok")):
            fails.append({"request": rq, "what": "ingestion failed: %r" % (a.get("calls"),)}); continue
        es = irutil.entries(a["dump"]); nm = irutil.named(a["dump"]); doc = rq["calls"][0]["root"]
        for dname in ("Holder", "Node"):
            if dname not in nm: fails.append({"request": rq, "what": "no type " + dname}); continue
            for p in nm[dname][1]["props"]:
                sch = doc["definitions"][dname]["properties"].get(p["name"])
                if sch is None: continue
                if "x-rust-type" not in sch: sch = sch.get("items", {})
                e = es.get(p["type_id"], {})
                while e.get("kind") in ("option", "vec"): e = es.get(e["id"], {})
                checked += 1
                xr = sch["x-rust-type"]
                if e.get("kind") != "native" or not e["type_name"].endswith(xr["path"].split("::", 1)[1]):
                    fails.append({"request": rq, "what": "%s.%s: expected the external type %s, found %s" % (dname, p["name"], xr["path"], json.dumps(e)[:120])}); continue
                got = [kind_of(es, i) for i in e["parameters"]]
                exp = [want(q) for q in xr["parameters"]]
                if len(got) != len(exp) or any(not g.startswith(w) for g, w in zip(got, exp)):
                    fails.append({"request": rq, "what": "%s.%s: parameters of %s are %s, declared %s" % (dname, p["name"], xr["path"], got, exp)})
    ctx.log("multi-use: %d documents, %d external uses checked, %d failures" % (len(docs), checked, len(fails)))
    return {"fails": fails, "checked": checked}

def run(ctx):
    findings = vlib.load_findings("C13")
    st = vlib.proof_stage(ctx, "C13", PROOF_TARGETS, PROOF_FILES, slices=["c13"])
    cl = gen_cases(ctx)
    cases = [c for c, _ in cl]; lines = [l for _, l in cl]
    ctx.log("generated %d cases" % len(cases))
    impl = vlib.run_side("impl", "c13", lines)
    model = vlib.run_side("model", "c13", lines) if st["driver_ok"] else None
    disagreements = []; unsupported = 0
    if model is not None:
        for c, a, b in zip(cases, impl, model):
            if b == "unsupported": unsupported += 1; continue
            if a.partition("\t")[0] != b: disagreements.append({"input": c, "impl": a.partition("\t")[0], "model": b})
    ctx.log("cases=%d disagreements=%d unsupported=%d" % (len(cases), len(disagreements), unsupported))
    # implementation-side oracle: every case
    new_fail = []; unsettled = 0; dist = {}; nt = 0
    for c, a in zip(cases, impl):
        head = a.partition("\t")[0].split(" ")[0] + ("" if c["k"] == "ext" else " " + " ".join(a.split(" ")[1:2]))
        dist[c["k"] + ":" + head] = dist.get(c["k"] + ":" + head, 0) + 1
        if nontrivial(c, a): nt += 1
        fails, settled = oracle(c, a)
        if not settled: unsettled += 1
        if fails: new_fail.append((c, a, fails))
    # several uses in one document (implementation oracle on the IR dump): the same external path with different type
    # parameters at two inline places, and parameters that refer back to the enclosing definition
    mu = multi_use(ctx)
    for f_ in mu["fails"][:3]:
        vlib.violation(ctx, {"property": "C13", "kind": "implementation violates the property", "input": f_["request"],
                             "failed_clauses": [f_["what"]], "broken_obligations": list(st["broken"])})
    broken = list(st["broken"])
    if disagreements:
        broken.append("correspondence c13: model and implementation disagree on %d inputs" % len(disagreements))
    seen_kinds = set()
    for c, a, fails in new_fail:
        kind = (c["k"], fails[0].split(":")[0], a.split(" ")[0])
        if kind in seen_kinds: continue
        seen_kinds.add(kind)
        if len(ctx.violations) >= 5: break
        vlib.violation(ctx, {"property": "C13", "kind": "implementation violates the property", "input": c,
                             "impl_answer": a, "failed_clauses": fails, "broken_obligations": broken,
                             "first_disagreements": disagreements[:3], "replay": "./check C13 --replay <this file>"})
    if broken and not new_fail:
        vlib.violation(ctx, {"property": "C13", "kind": "property no longer shown to hold", "broken_obligations": broken,
                             "first_disagreements": disagreements[:5], "lean_log": st.get("log", "")}, no_input=True)
    for f in findings:
        ctx.notes.append("finding %s listed but C13 has no finding handling" % f["id"])
    ext_n = sum(1 for c in cases if c["k"] == "ext")
    mid = len(cases) // 2
    cov = {
        "obligations": st["obligations"], "discharged": st["discharged"],
        "checker_cmd": "cd /verif/lean && lake build TypifyModel.Proofs.C13 && lake env lean TypifyModel/Audit/C13.lean",
        "trusted_base": vlib.TRUSTED_BASE + [
            "the semver crate 1.0.26 is what `VersionReq::parse/matches` means (Model/Semver.lean mirrors parse.rs/eval.rs/impls.rs; tied by differential execution against the real crate)",
            "serde's derive(Deserialize) behaviour for the RustExtension struct (driver glue `parseExt`)"],
        "axioms": st.get("axioms", {}),
        "theorems": ["C13." + t for t in THEOREMS],
        "evaluations": len(cases), "distinct_nontrivial": nt,
        "rule": "semver: every operator {none,^,~,=,>,>=,<,<=} x partial/wildcard/prerelease/build forms x base versions (0.0.x, 0.x.y, x.y.z) probed with the versions just below, at and just above every interval edge, with and without prerelease tags; random comma lists; a malformed-requirement x malformed-version table. ext: crate configuration {absent,*,!,version,other crate} x unknown policy {default,Generate,Allow,Deny} x crate-name form {plain,hyphen,underscore} x rename {none,plain,hyphenated} x requirement/version pairs x parameters {absent,0,1,2; inline,$ref} x use {anonymous,definition same name,definition other name} x malformed-extension variants; distinct by JSON text; non-trivial = semver pair where both sides parse, or extension object naming a crate",
        "samples": [cases[0], cases[mid], cases[-1]] + [c for c in cases if c["k"] == "ext"][:3],
        "traces_validated_against_impl": len(cases) - unsupported,
        "model_disagreements": len(disagreements),
        "impl_oracle_failures_new": len(new_fail),
        "oracle_unsettled": unsettled,
        "out_of_model_domain": unsupported,
        "ext_cases": ext_n, "semver_cases": len(cases) - ext_n,
        "answer_distribution": dict(sorted(dist.items(), key=lambda kv: -kv[1])[:24]),
        "tables_regenerated": st["tables_ok"],
    }
    vlib.write_evidence(ctx, "proof", cov, [
        "version components fit u64 on the Rust side; the model uses Nat and rejects larger components at parse time as the crate does",
        "pre-release identifiers are ASCII (the crate rejects anything else)",
        "the schema carrying the extension is otherwise an ordinary titled object, so `generate` is observable as a named struct",
        "parameter schemas are scalars, titled objects or $ref to a definition of the same add_ref_types call",
    ])

def replay(ctx, path):
    obj = json.load(open(path))
    if "input" not in obj:
        print("replay file names broken obligations only:", obj.get("broken_obligations")); return 1
    line = json.dumps(obj["input"], sort_keys=True)
    a = vlib.run_side("impl", "c13", [line], "replay")[0]
    b = vlib.run_side("model", "c13", [line], "replay")[0] if vlib.os.path.exists(vlib.drv("c13")) else "n/a"
    fails, settled = oracle(obj["input"], a)
    print("input:", line); print("impl :", a); print("model:", b); print("oracle failures:", fails, "" if settled else "(oracle does not settle this input)")
    return 1 if fails or (b not in ("n/a", "unsupported") and a.partition("\t")[0] != b) else 0

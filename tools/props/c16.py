"""C16 — the type space stays consistent across any history of add_ref_types / add_root_schema / add_type_with_name.
Theorems: lean/TypifyModel/Proofs/C16.lean (inv_init, inv_step, inv_run, frame_acyclic, returned_stable, readd,
no_dup_defs_partial, split_inv; refutations of the full statements in Proofs/C16Findings.lean)
Correspondence: slice c16 — the real TypeSpace driven through its public API (`tvh_c16`, `verif_dump()` after EVERY
call) vs `Space.step` (`drv_c16`); compared call by call: the result (`ok:<id>` / `err:<Kind>` / `panic`) and the complete
dump with EXACT ids (entries with every field, name_to_id, ref_to_id, type_to_id, definitions, next_id).
Oracle: the property itself on the real dumps, for all histories (fragment and richer gen.py schemas)."""
import json, copy, os, itertools
import vlib

PROOF_TARGETS = ["TypifyModel.Proofs.C16"]
PROOF_FILES = ["Proofs/C16.lean", "Proofs/Lemmas/SpaceBasic.lean", "Proofs/Lemmas/SpaceInv.lean",
               "Proofs/Lemmas/SpaceStable.lean", "Proofs/Lemmas/SpaceNames.lean", "Proofs/Lemmas/SpaceDenote.lean",
               "Proofs/Lemmas/SpaceBatch.lean"]
FINDINGS_TARGET = "TypifyModel.Proofs.C16Findings"
THEOREMS = ["C16.inv_init", "C16.inv_step", "C16.inv_run", "C16.frame_acyclic", "C16.frame_run", "C16.returned_stable",
            "C16.readd", "C16.readd_step", "C16.no_dup_defs_partial", "C16.no_dup_defs_types",
            "C16.split_inv_general", "C16.split_inv", "C16.split_iso"]

# ------------------------------------------------------------------ generator for the model's fragment
KEYS = ["A", "B", "Cee", "Item", "Foo", "foo", "FooBar", "foo_bar", "a-b", "a_b", "Dee", "E1", "x", "Node"]
TITLES = ["A", "B", "Foo", "Bar", "FooBar", "My Type", "item", "T", "Inner", "AItem", "FooX", "foo bar", "Node"]
PROPS = ["x", "y", "id", "foo-bar", "fooBar", "type", "items", "next", "Name", "a_b"]
ENUMS = [["a", "b"], ["red", "green", "blue"], ["on", "off"], ["x"], ["kebab-case", "Snake_case"], ["1st", "type"]]
BAD_ENUMS = [["a-b", "a_b"], ["A", "a"], []]     # variant identifiers collide (panic) / empty (Err)
HINTS = [None, "hint", "A", "Foo", "foo_bar", "My hint", "T", "B"]

class FGen:
    """small schemas of the fragment; `keys` = definition keys a `$ref` may use"""
    def __init__(self, rng):
        self.rng = rng
        self.pool = []          # sub-schemas generated so far (shared sub-schemas)

    def title(self, d, p=0.3):
        if self.rng.random() < p: d["title"] = self.rng.choice(TITLES)
        return d

    def schema(self, depth, keys, byvalue_refs=True):
        r = self.rng
        if self.pool and r.random() < 0.15:
            return copy.deepcopy(r.choice(self.pool))
        kinds = ["string", "integer", "boolean", "enum"]
        if keys: kinds += ["ref", "ref"]
        if len([x for x in keys if x != "#"]) >= 2 and r.random() < 0.5: kinds += ["union"]
        if depth > 0: kinds += ["array", "nullable", "object", "object", "object"]
        k = r.choice(kinds)
        if k == "string": s = self.title({"type": "string"}, 0.15)
        elif k == "integer": s = self.title({"type": "integer"}, 0.1)
        elif k == "boolean": s = self.title({"type": "boolean"}, 0.1)
        elif k == "enum": s = self.title({"type": "string", "enum": list(r.choice(BAD_ENUMS if r.random() < 0.04 else ENUMS))})
        elif k == "ref":
            key = r.choice(keys)
            s = self.title({"$ref": "#" if key == "#" else "#/definitions/" + key}, 0.1)
        elif k == "union":
            # an untagged union of references: its finalisation looks at the finalised state of the types it refers to
            s = self.title({"oneOf": [{"$ref": "#/definitions/" + x} for x in r.sample([x for x in keys if x != "#"], 2)]}, 0.2)
        elif k == "array": s = self.title({"type": "array", "items": self.schema(depth - 1, keys)}, 0.2)
        elif k == "nullable":
            inner = self.schema(depth - 1, [], byvalue_refs)
            while "$ref" in inner or not isinstance(inner.get("type"), str):
                inner = self.schema(depth - 1, [], byvalue_refs)
            s = dict(inner); s["type"] = [inner["type"], "null"] if r.random() < .8 else ["null", inner["type"]]
        else:
            n = r.choice([0, 1, 1, 2, 2, 3])
            names = r.sample(PROPS, n)
            props = {p: self.schema(depth - 1, keys) for p in names}
            s = {"type": "object", "properties": props}
            req = [p for p in names if r.random() < 0.5]
            if req or r.random() < .3: s["required"] = req
            if n == 0 or r.random() < 0.2: s["additionalProperties"] = False
            self.title(s, 0.35)
        if depth > 0 and r.random() < 0.3: self.pool.append(copy.deepcopy(s))
        return s

_E1 = {"type": "string", "enum": ["a", "b"]}; _E2 = {"type": "string", "enum": ["on", "off"]}
_U = {"oneOf": [{"$ref": "#/definitions/Beta"}, {"$ref": "#/definitions/Gamma"}]}
# forward references inside a batch, then unrelated later calls (and the same additions in other orders / splits)
HAND_HISTORIES = [
    {"calls": [{"defs_list": [["Alpha", _U], ["Beta", _E1], ["Gamma", _E2]]}, {"type": {"type": "string", "maxLength": 3}, "name": "Later"}]},
    {"calls": [{"type": {"type": "string", "maxLength": 3}, "name": "Later"}, {"defs_list": [["Alpha", _U], ["Beta", _E1], ["Gamma", _E2]]}]},
    {"calls": [{"defs_list": [["Beta", _E1], ["Gamma", _E2], ["Alpha", _U]]}, {"type": {"type": "integer"}, "name": None}, {"type": {"type": "object", "properties": {"u": {"$ref": "#/definitions/Alpha"}}}, "name": "Holder"}]},
    {"calls": [{"root": {"title": "Circle", "type": "object", "properties": {"r": {"type": "integer"}}}},
               {"root": {"title": "Tree", "type": "object", "properties": {"children": {"type": "array", "items": {"$ref": "#"}}}}},
               {"type": {"type": "boolean"}, "name": None}]},
    {"calls": [{"root": {"title": "Tree", "type": "object", "properties": {"children": {"type": "array", "items": {"$ref": "#"}}}}},
               {"root": {"title": "Circle", "type": "object", "properties": {"r": {"type": "integer"}}}}]},
    # recursive definitions (their members rewritten in place by the cycle breaking), USED again by later additions that need the
    # very unnamed types the rewriting touched: Option<Node>, Option<Pair>, a tuple, a nullable union
    {"calls": [{"defs_list": [["Node", {"type": "object", "properties": {"value": {"type": "integer"}, "next": {"$ref": "#/definitions/Node"}}}]]},
               {"type": {"type": "object", "properties": {"head": {"$ref": "#/definitions/Node"}}}, "name": "Holder"},
               {"type": {"type": "object", "properties": {"head": {"$ref": "#/definitions/Node"}}, "required": ["head"]}, "name": "Holder2"}]},
    {"calls": [{"defs_list": [["Ping", {"type": "object", "properties": {"peer": {"oneOf": [{"$ref": "#/definitions/Pong"}, {"type": "null"}]}}}],
                              ["Pong", {"type": "object", "properties": {"peer": {"$ref": "#/definitions/Ping"}, "pair": {"type": "array", "items": [{"$ref": "#/definitions/Ping"}, {"type": "string"}], "minItems": 2, "maxItems": 2}}}]]},
               {"type": {"type": "object", "properties": {"a": {"$ref": "#/definitions/Ping"}, "b": {"oneOf": [{"$ref": "#/definitions/Pong"}, {"type": "null"}]},
                                                            "c": {"type": "array", "items": [{"$ref": "#/definitions/Ping"}, {"type": "string"}], "minItems": 2, "maxItems": 2}}}, "name": "Both"},
               {"defs_list": [["Later", {"type": "object", "properties": {"p": {"$ref": "#/definitions/Pong"}}}]]}]},
]

def gen_history(rng, max_calls):
    g = FGen(rng)
    calls, known = [], []       # known = definition keys added so far
    n = rng.randint(1, max_calls)
    while len(calls) < n:
        x = rng.random()
        if calls and x < 0.18:
            calls.append(copy.deepcopy(rng.choice(calls)))           # the same call again
            continue
        if calls and x < 0.26:
            prev = [c for c in calls if "type" in c]
            if prev:                                                  # same schema, other hint
                c = copy.deepcopy(rng.choice(prev)); c["name"] = rng.choice(HINTS); calls.append(c); continue
        if x < 0.55:
            m = rng.choice([1, 1, 2, 2, 3])
            ks = rng.sample(KEYS, m)
            if known and rng.random() < 0.15: ks[0] = rng.choice(known)      # a key that exists already
            avail = known + ks
            if rng.random() < 0.04: avail = avail + ["Missing"]
            defs = []
            for i, k in enumerate(ks):
                # mostly references to definitions that come earlier (no by-value cycle); sometimes any
                a = ([x for x in known if x not in ks[i:]] + ks[:i]) if rng.random() < 0.9 else avail
                defs.append([k, g.schema(rng.choice([0, 1, 2, 2]), a)])
            calls.append({"defs_list": defs}); known += [k for k in ks if k not in known]
        elif x < 0.7:
            m = rng.choice([0, 1, 2])
            ks = sorted(rng.sample(KEYS, m))
            avail = known + ks + (["#"] if rng.random() < 0.3 else [])
            defs = {}
            for i, k in enumerate(ks):
                earlier = [x for x in known if x not in ks[i:]] + ks[:i]
                defs[k] = g.schema(rng.choice([0, 1, 2]), earlier if rng.random() < .9 else avail)
            root = g.schema(rng.choice([1, 2]), known + ks)
            if rng.random() < 0.75: root["title"] = rng.choice(TITLES)
            else: root.pop("title", None)
            root = dict(root); root["definitions"] = defs
            if rng.random() < .5: root["$schema"] = "http://json-schema.org/draft-07/schema#"
            calls.append({"root": root}); known += [k for k in ks if k not in known]
        else:
            hint = rng.choice(HINTS + known[:2])
            calls.append({"type": g.schema(rng.choice([0, 1, 2, 2]), known), "name": hint})
    return {"calls": calls}

# ------------------------------------------------------------------ richer histories (oracle only)
def universe(rng, size, feats):
    """gen.gen_universe; a few feature combinations overflow gen.py's instance generator: draw again"""
    import gen
    for _ in range(20):
        try: return gen.gen_universe(rng, size, gen.FEATURE_SETS[feats])
        except (RecursionError, gen.Unsat): feats = "default"
    return {"title": "Root", "type": "object", "properties": {"x": {"type": "string"}}, "definitions": {}}

def rich_history(rng, max_calls):
    feats = rng.choice(["default", "recursive", "defaults", "all", "idioms", "hostile"])
    calls = []
    n = rng.randint(1, max(1, max_calls // 2))
    docs = []
    for _ in range(n):
        if docs and rng.random() < 0.3:
            doc = copy.deepcopy(rng.choice(docs))
        else:
            doc = universe(rng, rng.randint(1, 4), feats); docs.append(doc)
        x = rng.random()
        if x < 0.4:
            calls.append({"root": doc})
        elif x < 0.7:
            calls.append({"defs_list": [[k, v] for k, v in doc.get("definitions", {}).items()]})
            if rng.random() < 0.5:
                body = {k: v for k, v in doc.items() if k not in ("definitions", "$schema")}
                calls.append({"type": body, "name": rng.choice([None, "Hint", "Root"])})
        else:
            calls.append({"root": doc})
            defs = list(doc.get("definitions", {}).items())
            if defs:
                k, v = rng.choice(defs)
                calls.append({"type": copy.deepcopy(v), "name": rng.choice([None, k, "Other"])})
                if rng.random() < .5: calls.append(copy.deepcopy(calls[-1]))
    return {"calls": calls[:max_calls]}

# ------------------------------------------------------------------ running the two sides
def canon_dump(d):
    if d is None: return None
    d = dict(d)
    d["type_to_id"] = sorted(d.get("type_to_id", []))
    d["definitions"] = sorted(d.get("definitions", []))
    return d

def _impl_chunk(lines, timeout):
    import subprocess
    try:
        p = subprocess.run([vlib.tvh("c16")], input="\n".join(lines) + "\n", capture_output=True, text=True,
                           env=vlib.ENV, timeout=timeout)
    except subprocess.TimeoutExpired:
        return None, "timeout"
    out = [l for l in p.stdout.split("\n") if l]
    if p.returncode != 0 or len(out) != len(lines):
        return None, "crash: " + p.stderr.strip()[-120:]
    return out, None

def run_impl(lines, tag="impl"):
    """the real code on every history; a history on which the process dies (stack overflow in typify on a
    recursive type with a self-referential default, ..) or does not return is isolated by bisection and
    answered {"steps": [], "crash": why}"""
    res = [None] * len(lines)
    work = [list(range(k, min(k + 250, len(lines)))) for k in range(0, len(lines), 250)]
    while work:
        idx = work.pop()
        out, why = _impl_chunk([lines[k] for k in idx], 60 + len(idx))
        if out is not None:
            for k, l in zip(idx, out): res[k] = json.loads(l)
        elif len(idx) == 1:
            res[idx[0]] = {"steps": [], "crash": why, "render": "skipped", "parses": False, "items": []}
        else:
            h = len(idx) // 2
            work += [idx[:h], idx[h:]]
    return res

def run_model(lines, tag="model"):
    return [json.loads(l) for l in vlib.run_side("model", "c16", lines, tag)]

def compare(impl, model):
    """-> None if the model's steps agree with the implementation's, else a description"""
    ms, is_ = model["steps"], impl["steps"]
    if len(ms) > len(is_): return "model has %d steps, implementation %d" % (len(ms), len(is_))
    for k, (m, i) in enumerate(zip(ms, is_)):
        if m["r"] != i["r"]: return "call %d: result model=%s impl=%s" % (k, m["r"], i["r"])
        if "dump" in m:
            a, b = canon_dump(m["dump"]), canon_dump(i["dump"])
            if a != b:
                keys = [x for x in sorted(set(a) | set(b or {})) if (b or {}).get(x) != a.get(x)]
                return "call %d: dump differs in %s" % (k, keys)
    if model["end"] == "complete" and len(ms) != len(is_):
        return "model completed %d calls, implementation %d" % (len(ms), len(is_))
    if model["end"] == "failed" and len(ms) != len(is_) and is_[len(ms) - 1]["r"] != "panic":
        pass    # the implementation goes on after an Err; the model stops
    return None

# ------------------------------------------------------------------ oracle (the property on the real dumps)
ID_KEYS = ("type_id", "id", "key", "value")
def resolve(dump, tid, depth=0):
    """structure with names instead of ids"""
    e = dump["entries"].get(str(tid))
    if e is None: return {"$dangling": True}
    if e.get("name") is not None and e["kind"] in ("struct", "enum", "newtype"): return {"$named": e["name"]}
    if depth > 40: return {"$deep": True}
    return shape(dump, e, depth + 1)

def shape(dump, e, depth=0):
    def walk(v, key=None):
        if isinstance(v, dict):
            return {k: (resolve(dump, x, depth) if k in ID_KEYS and isinstance(x, int) else
                        [resolve(dump, y, depth) for y in x] if k in ("ids", "parameters", "tuple") and isinstance(x, list) else
                        resolve(dump, x, depth) if k == "item" and isinstance(x, int) else walk(x, k))
                    for k, x in v.items()}
        if isinstance(v, list): return [walk(x) for x in v]
        return v
    return walk({k: v for k, v in e.items()})

def named_defs(dump):
    """the set of (name, structure-with-names) of the named entries, as canonical strings"""
    out = set()
    for i, e in dump["entries"].items():
        if e["kind"] in ("struct", "enum", "newtype"):
            out.add(json.dumps([e["name"], shape(dump, e)], sort_keys=True))
    return out

def call_keys(c):
    """the RefKeys a call hands to add_ref_types_impl, in the order their ids are reserved (None: not a ref-adding call)"""
    if "defs_list" in c: return ["def:" + k for k, _ in c["defs_list"]]
    if "defs" in c: return ["def:" + k for k in c["defs"]]
    if "root" in c and isinstance(c["root"], dict):
        ks = ["def:" + k for k in sorted(c["root"].get("definitions") or {})]
        if "title" in c["root"]: ks.append("#")
        return ks
    return None

def ref_roots(hist, steps):
    """id -> (call index, RefKey text) for the ids pre-assigned to definitions: `base_id..base_id+len`"""
    roots, nxt = {}, 1
    for k, (c, s) in enumerate(zip(hist["calls"], steps)):
        ks = call_keys(c)
        if ks is not None and s["r"] != "unsupported":
            for j, key in enumerate(ks): roots[nxt + j] = (k, key)
        if s.get("dump") is None: break
        nxt = s["dump"]["next_id"]
    return roots

def oracle(hist, out):
    """-> list of (clause, call index, detail, finding id or None)"""
    fails = []
    steps = out["steps"]
    calls = hist["calls"]
    prev = None
    for k, s in enumerate(steps):
        d = s.get("dump")
        failed_before = any(x["r"].startswith("err") for x in steps[:k + 1])
        residue = "C16-failed-batch-residue" if failed_before else None
        if d is None:
            if s["r"] != "panic": fails.append(("dump-panic", k, "verif_dump panicked", residue))
            break
        if prev is not None:
            pd = prev["dump"]
            # (i) frame: every entry below the previous next_id is untouched, names/idents stable
            for i, e in pd["entries"].items():
                if d["entries"].get(i) != e:
                    fails.append(("frame", k, {"id": int(i), "before": e, "after": d["entries"].get(i)}, None)); break
            pn, nn = prev.get("names") or {}, s.get("names") or {}
            for i, v in pn.items():
                if v is not None and nn.get(i) != v:
                    fails.append(("frame-names", k, {"id": int(i), "before": v, "after": nn.get(i)}, None)); break
            if d["next_id"] < pd["next_id"]:
                fails.append(("frame", k, "next_id decreased", None))
            # (ii) the same call again
            if calls[k] == calls[k - 1] and prev["r"].startswith("ok") and s["r"].startswith("ok"):
                grew = d["next_id"] != pd["next_id"] or len(d["entries"]) != len(pd["entries"])
                if "type" in calls[k]:
                    if s["r"] != prev["r"]: fails.append(("readd-id", k, {"first": prev["r"], "second": s["r"]}, None))
                    if grew: fails.append(("readd-grows", k, {"next_id": [pd["next_id"], d["next_id"]]}, None))
                elif grew and (d["ref_to_id"] or pd["ref_to_id"]):
                    fails.append(("readd-grows", k, {"next_id": [pd["next_id"], d["next_id"]]}, "C16-readd-ref-types"))
        # a returned id resolves, and to the type of the schema that was added: a titled root / a hinted type whose
        # title is a plain PascalCase word is named by it (no settings rename in these histories)
        if s["r"].startswith("ok:"):
            rid = s["r"][3:]
            if rid not in d["entries"]:
                fails.append(("returned-id-dangling", k, rid, residue))
            else:
                import re as _re
                body = calls[k].get("root") if "root" in calls[k] else None
                t = body.get("title") if isinstance(body, dict) else None
                e = d["entries"][rid]
                if isinstance(t, str) and _re.fullmatch(r"[A-Z][a-z0-9]+", t) and "$ref" not in body and e.get("kind") in ("struct", "enum", "newtype") \
                        and e.get("name") != t and not (hist.get("settings") or {}):
                    fails.append(("returned-root-name", k, {"title": t, "returned": rid, "named": e.get("name")}, residue))
        prev = s
    # (iii) no two named entries with one name; the rendered items are distinct
    last = next((s for s in reversed(steps) if s.get("dump")), None)
    if last is not None:
        d = last["dump"]
        roots = ref_roots(hist, steps)
        by_name = {}
        for i, e in d["entries"].items():
            if e["kind"] in ("struct", "enum", "newtype"): by_name.setdefault(e["name"], []).append(int(i))
        for name, ids in sorted(by_name.items()):
            if len(ids) < 2: continue
            for a, b in itertools.combinations(sorted(ids), 2):
                ra, rb = roots.get(a), roots.get(b)
                if ra is None and rb is None: fid = None          # assign_type never makes two entries of one name
                elif ra is None or rb is None: fid = "C16-def-inline-collision"
                elif ra[1] == rb[1]: fid = "C16-readd-ref-types"
                else: fid = "C16-def-key-collision"
                fails.append(("dup-name", len(steps) - 1, {"name": name, "ids": [a, b], "keys": [ra, rb]}, fid))
        if out.get("render") == "ok" and out.get("parses") and steps[-1]["r"] != "panic":
            items = out.get("items", [])
            dups = sorted(set(x for x in items if items.count(x) > 1))
            import re as _re2
            snake = lambda n: _re2.sub(r"(?<=[a-z0-9])(?=[A-Z])", "_", n).lower()
            twice = [n for n, ids in by_name.items() if len(ids) >= 2]         # reported above as dup-name, with its finding
            for x in dups:
                if x in by_name and len(by_name[x]) >= 2: continue
                # an item inside a module that belongs to a type emitted twice (its builder, its default functions) is that
                # same duplicate, not another one
                last = x.split("::")[-1]
                if "::" in x and any(last == n or last.startswith(snake(n) + "_") for n in twice): continue
                fails.append(("dup-item", len(steps) - 1, {"item": x}, None))
    return fails

# ------------------------------------------------------------------ (iv) split / permutation
def rename_doc(doc, prefix):
    """prefix every definition key (and the references to it)"""
    text = json.dumps(doc)
    for k in sorted(doc.get("definitions", {}), key=len, reverse=True):
        text = text.replace(json.dumps("#/definitions/" + k), json.dumps("#/definitions/" + prefix + k))
    d = json.loads(text)
    d["definitions"] = {prefix + k: v for k, v in d.get("definitions", {}).items()}
    return d

KEYS_A = ["A", "Alpha", "Apple", "a-x", "Arc"]
KEYS_B = ["B", "Bravo", "Berry", "b_y", "Box2"]
def frag_defs(rng, keys, titles, n):
    g = FGen(rng)
    ks = rng.sample(keys, n)
    defs = []
    for i, k in enumerate(ks):
        s = g.schema(rng.choice([0, 1, 2]), ks[:i])      # references to earlier definitions only
        def retitle(x):
            if isinstance(x, dict):
                if "title" in x: x["title"] = rng.choice(titles)
                for v in x.values(): retitle(v)
            elif isinstance(x, list):
                for v in x: retitle(v)
        retitle(s)
        defs.append([k, s])
    return defs

def split_cases(ctx, n_frag, n_rich):
    rng = ctx.rng
    cases = []
    for _ in range(n_frag):
        a = frag_defs(rng, KEYS_A, ["TA", "Ta2", "AInner"], rng.choice([1, 2, 3]))
        b = frag_defs(rng, KEYS_B, ["TB", "Tb2", "BInner"], rng.choice([1, 2, 3]))
        cases.append(("fragment", a, b))
    for _ in range(n_rich):
        fa = rng.choice(["default", "recursive", "defaults", "all"])
        da = rename_doc(universe(rng, rng.randint(1, 4), fa), "Aa")
        db = rename_doc(universe(rng, rng.randint(1, 4), fa), "Bb")
        cases.append(("rich", [[k, v] for k, v in da["definitions"].items()], [[k, v] for k, v in db["definitions"].items()]))
    return cases

# one Rust path reached along different routes (a string format, the x-rust-type extension with and without parameters):
# independent definitions whose order of addition must not matter; settings under which the extension is honoured
def _xr(crate, path, params=None): return {"crate": crate, "version": "1.0.0", "path": path, **({"parameters": params} if params else {})}
NATIVE_ROUTES = {
    "ip": [{"type": "string", "format": "ip"}, {"type": "string", "x-rust-type": _xr("std", "std::net::IpAddr")},
           {"type": "object", "properties": {"addr": {"type": "string", "format": "ip"}}},
           {"type": "object", "properties": {"peer": {"type": "string", "x-rust-type": _xr("std", "std::net::IpAddr")}}}],
    "ipv4": [{"type": "string", "format": "ipv4"}, {"type": "string", "x-rust-type": _xr("std", "std::net::Ipv4Addr")},
             {"type": "array", "items": {"type": "string", "format": "ipv4"}}],
    "uuid": [{"type": "string", "format": "uuid"}, {"type": "string", "x-rust-type": _xr("uuid", "uuid::Uuid")},
             {"oneOf": [{"type": "string", "format": "uuid"}, {"type": "integer"}]}],
    "datetime": [{"type": "string", "format": "date-time"}, {"type": "string", "x-rust-type": _xr("chrono", "chrono::DateTime", [{"type": "string", "x-rust-type": _xr("chrono", "chrono::offset::Utc")}])},
                 {"type": "string", "x-rust-type": _xr("chrono", "chrono::DateTime<chrono::offset::Utc>")}],
}
NATIVE_SETTINGS = [{"unknown": "Allow"}, {"crates": [["std", "*", None], ["uuid", "*", None], ["chrono", "*", None]]}]

# definitions whose members have defaults served by the SHARED default functions (`defaults::default_bool`, `default_i64`,
# `default_u64`, `default_nzu64`: state the type space accumulates across calls), by bespoke functions, or by none
def _dprop(kind, rng):
    if kind == "bool": return {"type": "boolean", "default": True}
    if kind == "i64": return {"type": "integer", "default": rng.choice([-7, 3, 100])}
    if kind == "u64": return {"type": "integer", "minimum": 0, "default": rng.choice([1, 9, 4096])}
    if kind == "nz": return {"type": "integer", "minimum": 1, "default": rng.choice([1, 2, 77])}
    if kind == "str": return {"type": "string", "default": rng.choice(["x", "hello"])}
    if kind == "false": return {"type": "boolean", "default": False}
    return {"type": "integer"}
DEFAULT_KINDS = ["bool", "i64", "u64", "nz", "str", "false", "none"]
def default_split_cases(rng, n):
    out = []
    for k in range(n):
        def side(prefix):
            ds = []
            for j in range(rng.choice([1, 1, 2])):
                kinds = rng.sample(DEFAULT_KINDS, rng.choice([1, 2, 3]))
                ds.append(["%s%d" % (prefix, j), {"type": "object", "properties": {"%s%d" % (kd, i): _dprop(kd, rng) for i, kd in enumerate(kinds)}}])
            return ds
        out.append(("defaults", side("Aa"), side("Bb")))
    return out

# a definition, and a composition (allOf of two parts / a reference with sibling keywords) whose MERGE is structurally that
# definition: independent additions all the same — what one is must not depend on whether the other is already known
def compose_split_cases(rng, n):
    out = []
    scal = [{"type": "integer"}, {"type": "string"}, {"type": "boolean"}, {"type": "number"}]
    for k in range(n):
        names = rng.sample(["x", "y", "z", "w", "label"], rng.choice([2, 3]))
        props = {p: copy.deepcopy(rng.choice(scal)) for p in names}
        req = [p for p in names if rng.random() < 0.6]
        whole = {"type": "object", "properties": props}
        if req: whole["required"] = sorted(req)
        cut = rng.randrange(1, len(names))
        def part(ns):
            o = {"type": "object", "properties": {p: copy.deepcopy(props[p]) for p in ns}}
            r_ = sorted(p for p in ns if p in req)
            if r_: o["required"] = r_
            return o
        comp = {"allOf": [part(names[:cut]), part(names[cut:])]}
        out.append(("compose", [["AaPoint%d" % k, whole]], [["BbCoord%d" % k, comp]]))
    return out

def native_split_cases(rng, n):
    out = []
    for k in range(n):
        fam = rng.choice(sorted(NATIVE_ROUTES))
        ra, rb = rng.sample(NATIVE_ROUTES[fam], 2)
        out.append(("natives", [["Aa" + fam.capitalize(), copy.deepcopy(ra)]], [["Bb" + fam.capitalize(), copy.deepcopy(rb)]], NATIVE_SETTINGS[k % 2]))
    return out

def split_histories(a, b, settings=None):
    hs = [{"calls": [{"defs_list": a + b}]},
          {"calls": [{"defs_list": a}, {"defs_list": b}]},
          {"calls": [{"defs_list": b}, {"defs_list": a}]},
          {"calls": [{"defs_list": b + a}]}]
    if settings:
        for h in hs: h["settings"] = settings
    return hs

def split_oracle(outs):
    """all variants succeeded -> the sets of named definitions agree; -> (ok?, detail)"""
    finals = []
    for o in outs:
        if any(not s["r"].startswith("ok") for s in o["steps"]) or not o["steps"] or o["steps"][-1].get("dump") is None:
            finals.append(None)
        else:
            finals.append(named_defs(o["steps"][-1]["dump"]))
    if all(f is None for f in finals): return True, "all variants fail"
    if any(f is None for f in finals):
        return False, {"results": [[s["r"] for s in o["steps"]] for o in outs]}
    for k in range(1, len(finals)):
        if finals[k] != finals[0]:
            return False, {"variant": k, "only_first": sorted(finals[0] - finals[k])[:3], "only_other": sorted(finals[k] - finals[0])[:3]}
    # the rendered definitions, the shared default functions (`defaults::..`) and the builder module included
    if all(o.get("render") == "ok" and o.get("parses") for o in outs):
        its = [set(o.get("items", [])) for o in outs]
        for k in range(1, len(its)):
            if its[k] != its[0]:
                return False, {"variant": k, "rendered_only_first": sorted(its[0] - its[k])[:3], "rendered_only_other": sorted(its[k] - its[0])[:3]}
    return True, None

# ------------------------------------------------------------------ findings
def witness_fails(f):
    """does the canonical witness of a finding still fail the clause it describes?"""
    w = f["witness"]
    if f["id"] == "C16-inline-name-capture":
        hs = [{"calls": w["calls"]}, {"calls": list(reversed(w["calls"]))}]
        outs = run_impl([json.dumps(h) for h in hs], "wit")
        return not split_oracle(outs)[0]
    out = run_impl([json.dumps(w)], "wit")[0]
    return any(x[3] == f["id"] for x in oracle(w, out))

# ------------------------------------------------------------------ run
def run(ctx):
    findings = vlib.load_findings("C16")
    fids = {f["id"] for f in findings}
    st = vlib.proof_stage(ctx, "C16", PROOF_TARGETS, PROOF_FILES, slices=["c16"])
    fok, flog = vlib.lean_build(ctx, [FINDINGS_TARGET]) if st["proof_ok"] else (False, "")
    quick = ctx.tier != "thorough"
    n_frag, max_calls = (200, 6) if quick else (20000, 12)
    n_rich = 40 if quick else 1500
    n_split_f, n_split_r = (40, 8) if quick else (2000, 200)

    # corpus: the findings' witnesses first, then generated histories
    hists = [("witness", f["witness"]) for f in findings if "calls" in f["witness"]]
    hists += [("hand", h) for h in HAND_HISTORIES]
    hists += [("fragment", gen_history(ctx.rng, max_calls)) for _ in range(n_frag)]
    hists += [("rich", rich_history(ctx.rng, max_calls)) for _ in range(n_rich)]
    seen, uh = set(), []
    for kind, h in hists:
        l = json.dumps(h, sort_keys=True)
        if l not in seen: seen.add(l); uh.append((kind, h, json.dumps(h)))
    lines = [l for _, _, l in uh]
    impl = run_impl(lines)
    ctx.log("histories=%d (fragment %d, rich %d) calls=%d" % (len(uh), sum(1 for k, _, _ in uh if k != "rich"),
            sum(1 for k, _, _ in uh if k == "rich"), sum(len(h["calls"]) for _, h, _ in uh)))

    # correspondence (fragment histories and witnesses)
    disagreements, unsupported, validated_calls, full = [], 0, 0, 0
    ends = {}
    if st["driver_ok"]:
        idx = [k for k, (kind, _, _) in enumerate(uh) if kind != "rich"]
        model = run_model([lines[k] for k in idx])
        for k, m in zip(idx, model):
            ends[m["end"]] = ends.get(m["end"], 0) + 1
            if m["end"].startswith("unsupported"): unsupported += 1
            if m["end"] == "complete": full += 1
            validated_calls += len(m["steps"])
            why = compare(impl[k], m)
            if why: disagreements.append({"history": uh[k][1], "why": why})
    ctx.log("correspondence: model histories complete=%d calls compared=%d unsupported(prefix only)=%d disagreements=%d"
            % (full, validated_calls, unsupported, len(disagreements)))

    # oracle on every history
    new_fail, known_hit, clauses, crashed = [], {}, {}, 0
    for (kind, h, _), o in zip(uh, impl):
        if "error" in o: continue
        if "crash" in o: crashed += 1; continue
        for clause, k, det, fid in oracle(h, o):
            clauses[clause] = clauses.get(clause, 0) + 1
            if fid is not None and fid in fids: known_hit[fid] = known_hit.get(fid, 0) + 1
            else: new_fail.append({"history": h, "clause": clause, "call": k, "detail": det, "kind": kind})
    # (iv) split / permutation
    sc = split_cases(ctx, n_split_f, n_split_r) + default_split_cases(ctx.rng, 24 if quick else 600) + compose_split_cases(ctx.rng, 12 if quick else 300)
    nsc = native_split_cases(ctx.rng, 12 if quick else 200)
    shs = [split_histories(a, b) for _, a, b in sc] + [split_histories(a, b, st_) for _, a, b, st_ in nsc]
    sc = sc + [(k_, a, b) for k_, a, b, _ in nsc]
    souts = run_impl([json.dumps(h) for hs in shs for h in hs], "split")
    split_bad, split_ok, split_allfail = [], 0, 0
    for k, ((kind, a, b), hs) in enumerate(zip(sc, shs)):
        outs = souts[4 * k: 4 * k + 4]
        ok, det = split_oracle(outs)
        if ok and det is None: split_ok += 1
        elif ok: split_allfail += 1
        else:
            split_bad.append({"history": hs[0], "variants": hs, "clause": "split", "detail": det, "kind": kind})
        for h, o in zip(hs, outs):
            for clause, kk, d2, fid in oracle(h, o):
                clauses[clause] = clauses.get(clause, 0) + 1
                if fid is not None and fid in fids: known_hit[fid] = known_hit.get(fid, 0) + 1
                else: new_fail.append({"history": h, "clause": clause, "call": kk, "detail": d2, "kind": kind})
    new_fail += split_bad
    ctx.log("oracle: clause failures %s; known %s; new %d; split pairs ok=%d all-fail=%d bad=%d"
            % (clauses, known_hit, len(new_fail), split_ok, split_allfail, len(split_bad)))

    for f in findings:
        try: still = witness_fails(f)
        except Exception as e: still = False; ctx.notes.append("witness of %s could not be replayed: %s" % (f["id"], e))
        if still: vlib.known(ctx, f)
        else: ctx.notes.append("known finding %s no longer reproduces on its witness" % f["id"])
    if st["proof_ok"] and not fok:
        ctx.notes.append("Proofs/C16Findings.lean (refutation witnesses of known findings) no longer compiles: a finding may have been repaired")

    broken = list(st["broken"])
    if disagreements:
        broken.append("correspondence c16: model and implementation disagree on %d histories" % len(disagreements))
    seen_kinds = set()
    for nf in new_fail:
        key = (nf["clause"], nf["kind"])
        if key in seen_kinds: continue
        seen_kinds.add(key)
        if len(ctx.violations) >= 5: break
        vlib.violation(ctx, {"property": "C16", "kind": "implementation violates the property",
                             "failed_clause": nf["clause"], "call_index": nf.get("call"), "detail": nf["detail"],
                             "history": nf["history"], "variants": nf.get("variants"),
                             "broken_obligations": broken, "first_disagreements": disagreements[:2],
                             "replay": "./check C16 --replay <this file>"})
    if broken and not new_fail:
        vlib.violation(ctx, {"property": "C16", "kind": "property no longer shown to hold",
                             "broken_obligations": broken, "first_disagreements": disagreements[:3],
                             "history": disagreements[0]["history"] if disagreements else None,
                             "lean_log": st.get("log", "")}, no_input=True)
    nontrivial = sum(1 for _, h, _ in uh if len(h["calls"]) >= 2)
    cov = {
        "obligations": st["obligations"], "discharged": st["discharged"],
        "checker_cmd": "cd /verif/lean && lake build TypifyModel.Proofs.C16 && lake env lean TypifyModel/Audit/C16.lean",
        "trusted_base": vlib.TRUSTED_BASE, "axioms": st.get("axioms", {}), "theorems": THEOREMS,
        "evaluations": len(uh) + 4 * len(sc), "distinct_nontrivial": nontrivial + len(sc),
        "rule": "random interleavings of add_ref_types / add_root_schema / add_type_with_name over generated schemas of the model's fragment (small name pools so that keys, titles and hints collide; repeated calls; shared sub-schemas; references to earlier, later and missing definitions) plus richer gen.py universes (oracle only) plus pairs of independent definition sets run as one batch / two batches / swapped; distinct by JSON text; non-trivial = at least two calls (pairs: always)",
        "samples": [uh[k][1] for k in range(min(3, len(uh)))] + [uh[len(uh) // 2][1]],
        "traces_validated_against_impl": full, "calls_compared_exact_ids": validated_calls,
        "model_prefix_only_histories": unsupported, "model_end_distribution": ends,
        "model_disagreements": len(disagreements),
        "oracle_clause_failures": clauses, "impl_oracle_failures_known": known_hit,
        "impl_oracle_failures_new": len(new_fail),
        "split_pairs": {"ok": split_ok, "all_variants_fail": split_allfail, "bad": len(split_bad)},
        "tables_regenerated": st["tables_ok"],
    }
    vlib.write_evidence(ctx, "proof", cov, [
        "the model covers a fragment of convert_schema (strings, integers, booleans, $ref, arrays, nullable, objects, string enums with titles); histories outside it are checked by the oracle on the real dumps only",
        "break_cycles is modelled on by-value-acyclic batches (identity there, C07 break_minimal); cyclic batches are `unsupported` on the model side",
        "BTreeMap containers are modelled as association lists (first binding wins)",
    ])

def replay(ctx, path):
    obj = json.load(open(path))
    hs = obj.get("variants") or ([obj["history"]] if obj.get("history") else [])
    if not hs:
        print("replay file names broken obligations only:", obj.get("broken_obligations")); return 1
    outs = run_impl([json.dumps(h) for h in hs], "replay")
    bad = 0
    findings = {f["id"] for f in vlib.load_findings("C16")}
    for h, o in zip(hs, outs):
        print("history:", json.dumps(h))
        print("results:", [s["r"] for s in o["steps"]])
        for clause, k, det, fid in oracle(h, o):
            print("  oracle: clause=%s call=%d finding=%s detail=%s" % (clause, k, fid, json.dumps(det)[:400]))
            if fid not in findings: bad += 1
        if os.path.exists(vlib.drv("c16")):
            m = run_model([json.dumps(h)], "replay")[0]
            why = compare(o, m)
            print("  model: end=%s steps=%d %s" % (m["end"], len(m["steps"]), "DISAGREES: " + why if why else "agrees"))
            if why: bad += 1
    if len(hs) > 1:
        ok, det = split_oracle(outs)
        print("split/permutation:", "same definitions" if ok else "DIFFER %s" % json.dumps(det)[:600])
        if not ok: bad += 1
    return 1 if bad else 0

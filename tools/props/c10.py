"""C10 — built-in type selection can represent every value the schema admits.
Theorems: lean/TypifyModel/Proofs/C10.lean (int_fits, nz_only, bad_default, formats_spec_partial, formats_recognised)
Correspondence: slice c10 (convert_integer via TypeSpace::add_type  vs  Integer.convertInteger over the regenerated table)."""
import json, itertools
import vlib

PROOF_TARGETS = ["TypifyModel.Proofs.C10", "TypifyModel.Proofs.C10Strings", "TypifyModel.Proofs.C05Convert", "TypifyModel.Proofs.C05ConvertArray", "TypifyModel.Proofs.C05ConvertObject"]
PROOF_FILES = ["Proofs/C10.lean", "Proofs/C10Strings.lean", "Proofs/C05Convert.lean", "Proofs/C05ConvertArray.lean", "Proofs/C05ConvertObject.lean", "Proofs/Lemmas/IntegerLemmas.lean", "Proofs/Lemmas/F64.lean"]
# independent statement of the string-format clause: the documented formats and their types; anything else is a String
DOCUMENTED = {"uuid": "::uuid::Uuid", "date": "::chrono::naive::NaiveDate", "date-time": "::chrono::DateTime<::chrono::offset::Utc>",
              "ip": "::std::net::IpAddr", "ipv4": "::std::net::Ipv4Addr", "ipv6": "::std::net::Ipv6Addr"}
UNKNOWN_FORMATS = ["hostname", "idn-hostname", "uri", "uri-reference", "iri", "email", "idn-email", "time", "duration", "regex", "json-pointer",
                   "relative-json-pointer", "uri-template", "binary", "byte", "password", "partial-date-time", "date_time", "datetime", "DATE",
                   "Uuid", "UUID", " uuid", "uuid ", "ipv4 ", "IPv6", "ip-address", "cidr", "int32", "uint64", "double", "float", "", "x", "é"]

def string_formats(ctx, st):
    """T2 vs behaviour: every format of the regenerated table and a pool of formats no arm names go through the real
    add path (TypeSpace::add_root_schema via tvh_ir); the type selected must be the one the table model
    (Natives.selectStringFormat) gives; independently (no model): documented formats give the documented type and
    everything else a plain String, with and without string validation keywords next to the format"""
    from batch import Batch
    import irutil
    rows, fallback = vlib.string_formats_table()
    tbl = {f: (p, set(i)) for f, p, i in rows}
    pool = [f for f, _, _ in rows if not f.startswith("?")] + [f for f in UNKNOWN_FORMATS if f not in tbl] + [f for f in DOCUMENTED if f not in tbl]
    defs = {}; which = {}
    for i, f in enumerate(pool):
        defs["Sf%d" % i] = {"type": "string", "format": f}; which["Sf%d" % i] = (f, "bare")
        defs["Sv%d" % i] = {"type": "string", "format": f, "maxLength": 64}; which["Sv%d" % i] = (f, "maxLength")
        defs["Sn%d" % i] = {"type": ["string", "null"], "format": f}; which["Sn%d" % i] = (f, "nullable")
    doc = {"title": "R", "type": "object", "definitions": defs}
    b = Batch("C10_strfmt", assertions=False, verbose=False)
    c = b.add_case([{"root": doc}], {}, tag="string-formats"); b.prepare()
    dis = []; fails = []; n = 0; sel = {}
    if not c.dump:
        return {"evaluations": 0, "disagreements": [{"error": c.error or c.messages}], "fails": [], "selected": {}}
    es = irutil.entries(c.dump); nm = irutil.named(c.dump)
    def selected(name):
        if name not in nm: return None
        e = nm[name][1]
        while e and e["kind"] in ("newtype", "option"):
            if e["kind"] == "newtype" and e["constraints"]: break
            e = es.get(e["type_id"] if e["kind"] == "newtype" else e["id"])
        if e is None: return None
        if e["kind"] == "native": return (e["type_name"], set(e["impls"]) - {"Default"})
        if e["kind"] == "string": return ("String", set())
        if e["kind"] == "newtype": return ("String(constrained)", set())
        return (e["kind"], set())
    for name, (f, form) in sorted(which.items()):
        got = selected(name); n += 1
        if got is None: dis.append({"format": f, "form": form, "problem": "no type named " + name}); continue
        sel[f] = got[0]
        mp, mi = tbl.get(f, (fallback, set()))
        # the model describes the arm taken when a format is present; string validation next to an unrecognised format
        # is dropped by convert_string (the None arm is the only one that looks at it), so the answer is the same
        if (got[0], got[1]) != (mp, set(mi) - {"Default"}):
            dis.append({"format": f, "form": form, "impl": [got[0], sorted(got[1])], "table_model": [mp, sorted(mi)]})
        # a format some arm names but the documentation does not is judged by the table theorems only
        # (C10S.string_formats_known), not by this oracle: a newly recognised format is not by itself a violation
        want = DOCUMENTED.get(f, "String" if f not in tbl else got[0])
        # a String newtype that checks the schema's own length bound is not narrower than the schema
        if got[0] == "String(constrained)" and want == "String" and form == "maxLength": continue
        if got[0] != want:
            fails.append({"format": f, "form": form, "schema": defs[name], "selected": got[0], "documented": want})
    return {"evaluations": n, "disagreements": dis, "fails": fails, "selected": sel}
FINDINGS_TARGET = "TypifyModel.Proofs.C10Findings"

TYPES = {
    "i8": (-2**7, 2**7 - 1), "u8": (0, 2**8 - 1), "i16": (-2**15, 2**15 - 1), "u16": (0, 2**16 - 1),
    "i32": (-2**31, 2**31 - 1), "u32": (0, 2**32 - 1), "i64": (-2**63, 2**63 - 1), "u64": (0, 2**64 - 1),
    "::std::num::NonZeroU8": (1, 2**8 - 1), "::std::num::NonZeroU16": (1, 2**16 - 1),
    "::std::num::NonZeroU32": (1, 2**32 - 1), "::std::num::NonZeroU64": (1, 2**64 - 1),
}
# independent reading of formats as ranges (int/uint = isize/usize as emitted by schemars, 64-bit)
SPEC = {"int8": "i8", "uint8": "u8", "int16": "i16", "uint16": "u16", "int32": "i32", "uint32": "u32",
        "int64": "i64", "uint64": "u64", "int": "i64", "uint": "u64"}
FORMATS = [None, "bogus"] + list(SPEC)
KEYS = ["minimum", "maximum", "exclusiveMinimum", "exclusiveMaximum", "multipleOf", "default"]

def full_lattice():
    vals = set([0, 1, -1, 2, -2, 5, 100, -100, 2**40, -2**40, 2**53 + 2])
    for t in ["i8", "u8", "i16", "u16", "i32", "u32", "i64", "u64"]:
        lo, hi = TYPES[t]
        for b in (lo, hi):
            vals.update([b - 1, b, b + 1])
    # values above u64::MAX / below i64::MIN go through serde_json's float parser: keep those that
    # are within one of the limits (their f64 images are exact powers of two)
    return sorted(vals)

def reduced_lattice():
    vals = set([0, 1, -1, 2, 100])
    for t in ["i8", "u8", "i64", "u64", "i32", "u32"]:
        lo, hi = TYPES[t]
        vals.update([lo, hi])
    vals.update([-129, 256, 2**63, 2**64, -2**63 - 1])
    return sorted(vals)

def gen_cases(ctx):
    cases = []
    full, red = full_lattice(), reduced_lattice()
    defaults_extra = ["abc", True]
    def mk(fmt, kv):
        d = {"type": "integer"}
        if fmt is not None: d["format"] = fmt
        d.update(kv); return d
    # 0 and 1 keyword, full lattice
    for fmt in FORMATS:
        cases.append(mk(fmt, {}))
        for k in KEYS:
            vs = full if k != "multipleOf" else [1, 2, 5]
            for v in vs:
                cases.append(mk(fmt, {k: v}))
            if k == "default":
                for v in defaults_extra: cases.append(mk(fmt, {k: v}))
    # 2 keywords
    lat2 = full if ctx.tier == "thorough" else red
    for fmt in FORMATS:
        for k1, k2 in itertools.combinations(KEYS, 2):
            v1s = lat2 if k1 != "multipleOf" else [2]
            v2s = lat2 if k2 != "multipleOf" else [2]
            for v1 in v1s:
                for v2 in v2s:
                    cases.append(mk(fmt, {k1: v1, k2: v2}))
    # 3 and 4 keywords: random sample (thorough: more)
    n34 = 60000 if ctx.tier == "thorough" else 6000
    for _ in range(n34):
        fmt = ctx.rng.choice(FORMATS)
        ks = ctx.rng.sample(KEYS, ctx.rng.choice([3, 4]))
        kv = {}
        for k in ks:
            kv[k] = 2 if k == "multipleOf" else ctx.rng.choice(red if ctx.rng.random() < .7 else full)
        cases.append(mk(fmt, kv))
    return cases

def admits_bounds(s, n):
    if "minimum" in s and n < s["minimum"]: return False
    if "maximum" in s and n > s["maximum"]: return False
    if "exclusiveMinimum" in s and n <= s["exclusiveMinimum"]: return False
    if "exclusiveMaximum" in s and n >= s["exclusiveMaximum"]: return False
    return True

def admits(s, n):
    if not admits_bounds(s, n): return False
    if "multipleOf" in s and n % s["multipleOf"] != 0: return False
    return True

def baseline(s):
    return TYPES[SPEC.get(s.get("format"), "i64")]

def small(x): return -2**52 < x < 2**52

def oracle(s, ans, probes):
    """the property itself, evaluated on an implementation answer. Returns list of (kind, detail)."""
    fails = []
    lo, hi = baseline(s)
    d = s.get("default")
    if ans.startswith("ok "):
        ty = ans[3:]
        if ty not in TYPES:
            return [("unknown-type", ty)]
        tlo, thi = TYPES[ty]
        for n in probes:
            if lo <= n <= hi and admits(s, n) and not (tlo <= n <= thi):
                fails.append(("fits", n)); break
        if ty.startswith("::std::num::NonZero") and admits(s, 0):
            fails.append(("nonzero", 0))
        if isinstance(d, int) and not isinstance(d, bool) and not (admits_bounds(s, d) and lo <= d <= hi):
            fails.append(("default", d))
    elif ans == "panic":
        fails.append(("panic", None))
    return fails

def attribute(s, kind, findings):
    """attribute an implementation failure to a listed known finding by its mechanism predicate"""
    for f in findings:
        if f["id"] == "C10-uint-format" and kind == "fits" and s.get("format") in ("int", "uint"):
            return f
        if f["id"] == "C10-uint-format" and kind == "default" and s.get("format") in ("int", "uint") \
                and all(small(s[k]) for k in KEYS if k in s and isinstance(s[k], int)):
            return f
        if f["id"] == "C10-f64-default" and kind == "default" and \
                not all(small(s[k]) for k in KEYS if k in s and isinstance(s[k], int) and not isinstance(s[k], bool)):
            return f
    return None

def indirect_default_stage(ctx, findings):
    """'A numeric default outside the admitted range is reported as an error' when the default does NOT sit on the integer
    schema itself: on a property that refers to it, in an array default, under the nullable `type: [integer, null]` spelling.
    Real add path through tvh_ir, one document per (integer schema, site, value). Expected: Ok iff the value is admitted."""
    import m2, irutil
    rng = ctx.rng
    ints = [{"type": "integer"}, {"type": "integer", "format": "uint8"}, {"type": "integer", "format": "int32"}, {"type": "integer", "format": "uint64"},
            {"type": "integer", "minimum": 10, "maximum": 20}, {"type": "integer", "minimum": 1}, {"type": "integer", "format": "int64", "maximum": -1},
            {"type": "integer", "format": "uint32", "minimum": 1}, {"type": "integer", "minimum": 0, "maximum": 65535}]
    vals = [0, 1, -1, 5, 15, 20, 21, 255, 256, 65535, 65536, 2**31 - 1, 2**31, 2**32, 2**63 - 1, 2**63, 2**64 - 1, -2**31 - 1, -2**63]
    if ctx.tier != "thorough": vals = [v for i, v in enumerate(vals) if i % 2 == 0] + [2**63, 2**64 - 1, 256]
    reqs = []; meta = []
    for sc in ints:
        for v in vals:
            for site in ("ref", "array", "nullable", "nested"):
                if site == "ref": props = {"p": {"allOf": [{"$ref": "#/definitions/I"}], "default": v}}
                elif site == "array": props = {"p": {"type": "array", "items": {"$ref": "#/definitions/I"}, "default": [v]}}
                elif site == "nullable": props = {"p": dict(sc, type=["integer", "null"], default=v)}
                else: props = {"p": {"type": "object", "properties": {"q": {"$ref": "#/definitions/I"}}, "default": {"q": v}}}
                doc = {"title": "Root", "type": "object", "properties": props, "definitions": {"I": sc}}
                reqs.append({"settings": {}, "calls": [{"root": doc}]}); meta.append((sc, site, v))
    ans = m2.tvh_ir(reqs)
    fails = []; known = 0; stats = {"ok": 0, "err": 0, "other": 0}
    fd = next((f for f in findings if f["id"] == "C10-ref-default-bounds"), None)
    import gen
    for rq, (sc, site, v), a in zip(reqs, meta, ans):
        lo, hi = gen.int_bounds(sc)
        admitted = (lo is None or v >= lo) and (hi is None or v <= hi)
        call = (a.get("calls") or ["none"])[-1]
        k = "ok" if call.startswith("ok") else "err" if call.startswith("err") else "other"
        stats[k] += 1
        if k == "other": fails.append({"request": rq, "what": "add path neither Ok nor Err: %s" % call}); continue
        # without a 64-bit unsigned format an unbounded integer is read as i64 (the documented fallback): values beyond it
        # may be refused
        beyond = not (-2**63 <= v <= 2**63 - 1) and sc.get("format") != "uint64"
        if admitted and k == "err" and not beyond: fails.append({"request": rq, "what": "an admitted default %r is rejected (%s site)" % (v, site)})
        if not admitted and k == "ok":
            # listed finding: the value is inside the RUST type that was selected (only the schema's own bounds are missed)
            es = irutil.entries(a["dump"]); rty = next((e.get("name") or e.get("type_name") for e in es.values() if e["kind"] == "integer"), None)
            tlo, thi = TYPES.get(rty, (None, None))
            if fd and site != "nullable" and tlo is not None and tlo <= v <= thi: known += 1
            else: fails.append({"request": rq, "what": "a default %r outside the admitted range [%s, %s] is accepted through the %s site (selected type %s)" % (v, lo, hi, site, rty)})
    return {"evaluations": len(reqs), "fails": fails, "known": known, "answers": stats, "finding": fd}

def composed_integer_stage(ctx):
    """'every integer the schema admits fits the chosen type', for integer schemas whose bounds are spread over oneOf / anyOf /
    allOf branches (the merge path): real add path through tvh_ir; the representable set is read off the IR dump (integer
    types, NonZero types, untagged unions of them, Option); a composition typify refuses (Err / unimplemented) is not judged"""
    import m2, irutil, gen
    I = lambda **kw: dict({"type": "integer"}, **kw)
    bodies = [{}, {"format": "int32"}, {"format": "uint8"}, {"format": "int64"}]
    comps = [{"oneOf": [I(minimum=0, maximum=0, exclusiveMinimum=-1), I(minimum=1)]},
             {"oneOf": [I(minimum=0, maximum=0), I(minimum=1)]},
             {"anyOf": [I(maximum=-1), I(minimum=1)]},
             {"oneOf": [I(minimum=1, maximum=10), I(minimum=100, maximum=200)]},
             {"allOf": [I(minimum=0), I(maximum=255)]},
             {"allOf": [I(minimum=1), I(maximum=65535)]},
             {"allOf": [I(exclusiveMinimum=0), I(exclusiveMaximum=256)]},
             {"anyOf": [I(minimum=0, maximum=0), I(minimum=5, maximum=5), I(minimum=-1, maximum=-1)]},
             {"oneOf": [I(exclusiveMinimum=-1, exclusiveMaximum=1), I(minimum=2)]},
             # bounds stated by exclusion (`not` of a one-sided range), inclusive and exclusive, alone and next to a bound
             {"not": {"exclusiveMaximum": 0}}, {"not": {"maximum": -1}}, {"not": {"exclusiveMinimum": 256}, "minimum": 0},
             {"not": {"minimum": 256}, "minimum": 0}, {"not": {"exclusiveMaximum": 1}}, {"not": {"maximum": 0}},
             {"allOf": [I(minimum=0), {"not": {"exclusiveMinimum": 255}}]}, {"allOf": [I(), {"not": {"exclusiveMaximum": 0}}]}]
    schemas = [dict(I(**b), **c) for b in bodies for c in comps]
    ans = m2.tvh_ir([{"settings": {}, "calls": [{"root": {"definitions": {"T": sc}}}]} for sc in schemas])
    probes = [-2**31 - 1, -129, -128, -2, -1, 0, 1, 2, 5, 10, 11, 100, 127, 128, 200, 201, 255, 256, 65535, 65536, 2**31 - 1, 2**31, 2**32]
    fails = []; judged = 0; refused = 0
    for sc, a in zip(schemas, ans):
        if a.get("aborted") or not (a.get("calls") and a["calls"][-1].startswith("ok")): refused += 1; continue
        es = irutil.entries(a["dump"]); nm = irutil.named(a["dump"])
        if "T" not in nm: refused += 1; continue
        def ranges(i, fuel=8):
            e = es.get(i, {})
            if fuel <= 0: return None
            k = e.get("kind")
            if k == "integer": return [TYPES.get(e.get("name") or e.get("type_name"), (None, None))]
            if k in ("newtype", "box"): return ranges(e["type_id"] if k == "newtype" else e["id"], fuel - 1)
            if k == "option": return ranges(e["id"], fuel - 1)
            if k == "enum" and e.get("tag") == "untagged":
                out = []
                for v in e["variants"]:
                    if not (isinstance(v["details"], dict) and "item" in v["details"]): return None
                    r_ = ranges(v["details"]["item"], fuel - 1)
                    if r_ is None: return None
                    out += r_
                return out
            if k == "float": return [(-2**200, 2**200)]
            return None
        rs = ranges(nm["T"][0])
        if rs is None or any(lo is None for lo, hi in rs): continue
        judged += 1
        doc = {"definitions": {"T": sc}}
        # (validity by the draft-07 validator: `not` of a range is outside what gen.lite_valid reads)
        valid = gen.run_oracle([{"doc": doc, "schema": sc, "value": v} for v in probes]) if "not" in json.dumps(sc) else [gen.lite_valid(doc, sc, v) for v in probes]
        for v, ok in zip(probes, valid):
            if ok is True and not any(lo <= v <= hi for lo, hi in rs):
                fails.append({"schema": sc, "value": v, "representable": rs,
                              "what": "%r is admitted by the schema but no integer type of the generated type holds it (%s)" % (v, rs)}); break
    return {"evaluations": len(schemas), "judged": judged, "refused": refused, "fails": fails}

def convert_string_stage(ctx, st):
    """M0 for the model of convert_string (Model/ConvertString.lean, theorems Proofs/C05Convert.lean): the whole keyword
    lattice format x minLength x maxLength x pattern, one document per schema (the uses_ flags belong to the type space),
    real TypeSpace through tvh_ir vs the Lean driver (drv_c10)."""
    import m2, irutil
    rows, _ = vlib.string_formats_table()
    fmts = [None] + [f for f, _, _ in rows if not f.startswith("?")] + ["hostname", "email", "uri", "time", "Uuid", "x"]
    schemas = []
    for f in fmts:
        for mn in (None, 0, 2):
            for mx in (None, 0, 5):
                for pat in (None, "^[a-z]+$", "^.*$", "[a-"):
                    sc = {"type": "string"}
                    if f is not None: sc["format"] = f
                    if mn is not None: sc["minLength"] = mn
                    if mx is not None: sc["maxLength"] = mx
                    if pat is not None: sc["pattern"] = pat
                    schemas.append(sc)
    ans = m2.tvh_ir([{"settings": {}, "calls": [{"root": {"definitions": {"T": sc}}}]} for sc in schemas])
    real = []
    for sc, a in zip(schemas, ans):
        if a.get("aborted"): real.append("abort"); continue
        if not (a.get("calls") and a["calls"][-1].startswith("ok")):
            real.append("err " + (a["calls"][-1].split(":", 1)[1] if a.get("calls") and ":" in a["calls"][-1] else "?")); continue
        es = irutil.entries(a["dump"]); nm = irutil.named(a["dump"])
        uses = ",".join(sorted(k for k, v in a["dump"]["uses"].items() if v))
        if "T" not in nm: real.append("no-type"); continue
        e = nm["T"][1]; inner = es.get(e.get("type_id"), {})
        c = e.get("constraints")
        if c and "string" in c:
            q = c["string"]; o = lambda v: "-" if v is None else str(v)
            real.append("constrained max=%s min=%s pat=%s uses=%s" % (o(q["max"]), o(q["min"]), "-" if q["pattern"] is None else json.dumps(q["pattern"]), uses))
        elif inner.get("kind") == "native":
            real.append("native %s impls=%s uses=%s" % (inner["type_name"], ",".join(i for i in ("Display", "FromStr") if i in inner["impls"]), uses))
        elif inner.get("kind") == "string" and not c: real.append("plain uses=" + uses)
        else: real.append("other " + json.dumps(e)[:120])
    model = vlib.run_side("model", "c10", [json.dumps(sc, sort_keys=True) for sc in schemas], "strmodel") if st["driver_ok"] else None
    dis = []
    if model is not None:
        def norm(x):
            # the model lists uses in arm order, the dump alphabetically; impls likewise
            m_ = x.split(" uses=")
            if len(m_) == 2: x = m_[0] + " uses=" + ",".join(sorted(u for u in m_[1].split(",") if u))
            if x.startswith("native ") and " impls=" in x:
                h, rest = x.split(" impls=", 1); im, us = rest.split(" uses=", 1)
                x = h + " impls=" + ",".join(i for i in ("Display", "FromStr") if i in im.split(",")) + " uses=" + us
            return x
        for sc, r_, m_ in zip(schemas, real, model):
            if norm(r_) != norm(m_): dis.append({"schema": sc, "impl": r_, "model": m_})
    return {"evaluations": len(schemas), "disagreements": dis, "answers": {k: sum(1 for r_ in real if r_.split(" ")[0] == k) for k in ("plain", "constrained", "native", "err")}}

def convert_array_stage(ctx, st):
    """M0 for the model of convert_array (Model/ConvertArray.lean, theorems Proofs/C05ConvertArray.lean): the keyword lattice
    items x additionalItems x (minItems, maxItems) x uniqueItems x contains, one document per schema"""
    import m2, irutil
    S, I, B = {"type": "string"}, {"type": "integer"}, {"type": "boolean"}
    schemas = []
    for items in (None, S, [S], [S, I], [S, I, B]):
        for addl in (None, B):
            for mn, mx in ((None, None), (2, 2), (0, 0), (1, 2), (None, 2), (2, None), (3, 3), (1, 1),
                           (12, 12), (13, 13), (32, 32), (33, 33), (40, 40)):     # lengths on both sides of what std / serde implement traits for
                for uq in (None, True, False):
                    for ct in (None, S):
                        sc = {"type": "array"}
                        if items is not None: sc["items"] = items
                        if addl is not None: sc["additionalItems"] = addl
                        if mn is not None: sc["minItems"] = mn
                        if mx is not None: sc["maxItems"] = mx
                        if uq is not None: sc["uniqueItems"] = uq
                        if ct is not None: sc["contains"] = ct
                        schemas.append(sc)
    ans = m2.tvh_ir([{"settings": {}, "calls": [{"root": {"definitions": {"T": sc}}}]} for sc in schemas])
    real = []
    for sc, a in zip(schemas, ans):
        if a.get("aborted"): real.append("abort"); continue
        if not (a.get("calls") and a["calls"][-1].startswith("ok")):
            real.append("err " + (a["calls"][-1].split(":", 1)[1] if a.get("calls") and ":" in a["calls"][-1] else a["calls"][-1] if a.get("calls") else "?")); continue
        es = irutil.entries(a["dump"]); nm = irutil.named(a["dump"])
        if "T" not in nm: real.append("no-type"); continue
        inner = es.get(nm["T"][1].get("type_id"), {})
        kind = lambda i: "any" if es.get(i, {}).get("kind") == "json_value" else "typed"
        k = inner.get("kind")
        if k == "tuple":
            ids = inner["ids"]; n = len(ids); given = len(sc["items"]) if isinstance(sc.get("items"), list) else 0
            fi = min(given, n)
            rest = "-" if fi >= n else ("additional" if es.get(ids[-1], {}).get("kind") == "boolean" else "any" if es.get(ids[-1], {}).get("kind") == "json_value" else "?")
            real.append("tuple n=%d from_items=%d rest=%s" % (n, fi, rest))
        elif k == "array": real.append("array n=%d item=%s" % (inner.get("len", -1), kind(inner.get("id"))))
        elif k == "vec": real.append("vec item=" + kind(inner.get("id")))
        elif k == "set": real.append("set item=" + kind(inner.get("id")))
        else: real.append("other " + json.dumps(inner)[:120])
    model = vlib.run_side("model", "c10", [json.dumps(sc, sort_keys=True) for sc in schemas], "arrmodel") if st["driver_ok"] else None
    dis = []
    if model is not None:
        for sc, r_, m_ in zip(schemas, real, model):
            if r_ != m_: dis.append({"schema": sc, "impl": r_, "model": m_})
    return {"evaluations": len(schemas), "disagreements": dis, "answers": {k: sum(1 for r_ in real if r_.split(" ")[0] == k) for k in ("tuple", "array", "vec", "set", "err")}}

def convert_object_stage(ctx, st):
    """M0 for the model of convert_object (Model/ConvertObject.lean, theorems Proofs/C05ConvertObject.lean): map vs struct and
    what the map's keys / values are read by, over properties x required x patternProperties x additionalProperties x propertyNames"""
    import m2, irutil
    S, I = {"type": "string"}, {"type": "integer"}
    schemas = [{"type": "object"}]
    for props in (None, {}, {"a": S}):
        for req in (None, [], ["a"], ["zz"]):
            for pp in (None, {"^x-": I}, {"^x-": I, "^y-": I}, {"^x-": I, "^y-": S}):
                for ap in ("absent", True, False, I):
                    for pn in (None, {"pattern": "^[a-z]"}):
                        sc = {"type": "object"}
                        if props is not None: sc["properties"] = props
                        if req is not None: sc["required"] = req
                        if pp is not None: sc["patternProperties"] = pp
                        if ap != "absent": sc["additionalProperties"] = ap
                        if pn is not None: sc["propertyNames"] = pn
                        schemas.append(sc)
    ans = m2.tvh_ir([{"settings": {}, "calls": [{"root": {"definitions": {"T": sc}}}]} for sc in schemas])
    real = []
    for sc, a in zip(schemas, ans):
        if a.get("aborted"): real.append("abort"); continue
        if not (a.get("calls") and a["calls"][-1].startswith("ok")): real.append("err"); continue
        es = irutil.entries(a["dump"]); nm = irutil.named(a["dump"])
        if "T" not in nm: real.append("no-type"); continue
        e = nm["T"][1]
        if e["kind"] == "struct": real.append("struct"); continue
        inner = es.get(e.get("type_id"), {})
        if inner.get("kind") != "map": real.append("other " + json.dumps(inner)[:100]); continue
        k, v = es.get(inner["key"], {}), es.get(inner["value"], {})
        if k.get("kind") == "string": key = "string"
        else:
            pat = ((k.get("constraints") or {}).get("string") or {}).get("pattern")
            key = "patterns" if (pat is not None and "patternProperties" in sc and pat == "|".join(sorted(sc["patternProperties"]))) else "propertyNames"
        val = "any" if v.get("kind") == "json_value" else ("pattern" if key == "patterns" else "additional")
        real.append("map key=%s value=%s" % (key, val))
    model = vlib.run_side("model", "c10", [json.dumps(sc, sort_keys=True) for sc in schemas], "objmodel") if st["driver_ok"] else None
    dis = []
    if model is not None:
        for sc, r_, m_ in zip(schemas, real, model):
            if r_ != m_: dis.append({"schema": sc, "impl": r_, "model": m_})
    return {"evaluations": len(schemas), "disagreements": dis, "answers": {k: sum(1 for r_ in real if r_.split(" ")[0] == k) for k in ("map", "struct", "err")}}

def run(ctx):
    findings = vlib.load_findings("C10")
    st = vlib.proof_stage(ctx, "C10", PROOF_TARGETS, PROOF_FILES, slices=["c10"])
    fok, flog = vlib.lean_build(ctx, [FINDINGS_TARGET]) if st["proof_ok"] else (False, "")
    cases = gen_cases(ctx)
    lines = [json.dumps(c, sort_keys=True) for c in cases]
    seen = set(); ulines = []; ucases = []
    for c, l in zip(cases, lines):
        if l not in seen:
            seen.add(l); ulines.append(l); ucases.append(c)
    # corpus first
    corpus = [json.dumps(f["witness"], sort_keys=True) for f in findings]
    impl = vlib.run_side("impl", "c10", ulines)
    model = vlib.run_side("model", "c10", ulines) if st["driver_ok"] else None
    disagreements = []
    unsupported = 0
    if model is not None:
        for c, a, b in zip(ucases, impl, model):
            if b == "unsupported": unsupported += 1; continue
            if a != b: disagreements.append({"input": c, "impl": a, "model": b})
    ctx.log("cases=%d disagreements=%d unsupported=%d" % (len(ucases), len(disagreements), unsupported))
    # implementation oracle: on every case (cheap here)
    probes = full_lattice()
    impl_fail = []
    branches = {}
    for c, a in zip(ucases, impl):
        branches[a] = branches.get(a, 0) + 1
        for kind, det in oracle(c, a, probes):
            impl_fail.append((c, a, kind, det))
    new_fail = []; known_hit = {}
    for c, a, kind, det in impl_fail:
        f = attribute(c, kind, findings)
        if f is None: new_fail.append((c, a, kind, det))
        else: known_hit[f["id"]] = known_hit.get(f["id"], 0) + 1
    # known-finding witnesses: still failing?
    for f in findings:
        a = vlib.run_side("impl", "c10", [json.dumps(f["witness"])], "wit")[0]
        if oracle(f["witness"], a, probes + f.get("probes", [])):
            vlib.known(ctx, f)
        else:
            ctx.notes.append("known finding %s no longer reproduces on its witness" % f["id"])
    if st["proof_ok"] and not fok:
        ctx.notes.append("Proofs/C10Findings.lean (refutation witnesses of known findings) no longer compiles: a finding may have been repaired")
    broken = list(st["broken"])
    if disagreements:
        broken.append("correspondence c10: model and implementation disagree on %d inputs" % len(disagreements))
    sf = string_formats(ctx, st)
    ctx.log("string formats: %d evaluations, %d disagreements with the T2 table model, %d oracle failures" % (sf["evaluations"], len(sf["disagreements"]), len(sf["fails"])))
    if sf["disagreements"]:
        broken.append("correspondence T2 (string formats): the table regenerated from convert_string and the real add path disagree on %d schemas" % len(sf["disagreements"]))
    ind = indirect_default_stage(ctx, findings)
    ctx.log("indirect defaults: %d documents, answers %r, %d failures, %d attributed to C10-ref-default-bounds" % (ind["evaluations"], ind["answers"], len(ind["fails"]), ind["known"]))
    if ind["known"] and ind["finding"]: vlib.known(ctx, ind["finding"])
    for fl in ind["fails"][:3]:
        vlib.violation(ctx, {"property": "C10", "kind": "implementation violates the property", "failed_clause": "default outside the admitted range is an error (indirect sites)",
                             "input": fl["request"], "detail": fl["what"], "broken_obligations": broken})
    ci_ = composed_integer_stage(ctx)
    ctx.log("composed integer schemas: %d documents, %d judged, %d refused by typify, %d failures" % (ci_["evaluations"], ci_["judged"], ci_["refused"], len(ci_["fails"])))
    for fl in ci_["fails"][:3]:
        vlib.violation(ctx, {"property": "C10", "kind": "implementation violates the property", "failed_clause": "every admitted integer fits the chosen type (composed schema)",
                             "input": fl["schema"], "detail": fl["what"], "broken_obligations": broken})
    cs_ = convert_string_stage(ctx, st)
    ctx.log("convert_string model (M0): %d schemas, %d disagreements, answers %r" % (cs_["evaluations"], len(cs_["disagreements"]), cs_["answers"]))
    if cs_["disagreements"]:
        broken.append("correspondence M0 (convert_string): model and implementation disagree on %d string schemas, e.g. %s"
                      % (len(cs_["disagreements"]), json.dumps(cs_["disagreements"][0])[:300]))
    ca_ = convert_array_stage(ctx, st)
    ctx.log("convert_array model (M0): %d schemas, %d disagreements, answers %r" % (ca_["evaluations"], len(ca_["disagreements"]), ca_["answers"]))
    if ca_["disagreements"]:
        broken.append("correspondence M0 (convert_array): model and implementation disagree on %d array schemas, e.g. %s"
                      % (len(ca_["disagreements"]), json.dumps(ca_["disagreements"][0])[:300]))
    co_ = convert_object_stage(ctx, st)
    ctx.log("convert_object model (M0): %d schemas, %d disagreements, answers %r" % (co_["evaluations"], len(co_["disagreements"]), co_["answers"]))
    if co_["disagreements"]:
        broken.append("correspondence M0 (convert_object): model and implementation disagree on %d object schemas, e.g. %s"
                      % (len(co_["disagreements"]), json.dumps(co_["disagreements"][0])[:300]))
    for fl in sf["fails"][:3]:
        vlib.violation(ctx, {"property": "C10", "kind": "implementation violates the property", "failed_clause": "string format -> documented type / String",
                             "input": fl["schema"], "detail": fl, "broken_obligations": broken})
    # report
    seen_kinds = set()
    for c, a, kind, det in new_fail:
        key = (kind, c.get("format"), tuple(sorted(k for k in c if k in KEYS)))
        if key in seen_kinds: continue
        seen_kinds.add(key)
        if len(ctx.violations) >= 5: break
        vlib.violation(ctx, {"property": "C10", "kind": "implementation violates the property",
                             "input": c, "impl_answer": a, "failed_clause": kind, "witness_value": det,
                             "broken_obligations": broken, "first_disagreements": disagreements[:3],
                             "replay": "./check C10 --replay <this file>"})
    if broken and not new_fail and not sf["fails"] and not ind["fails"] and not ci_["fails"]:
        vlib.violation(ctx, {"property": "C10", "kind": "property no longer shown to hold",
                             "broken_obligations": broken, "first_disagreements": disagreements[:5],
                             "lean_log": st.get("log", "")}, no_input=True)
    nontrivial = sum(1 for c in ucases if len([k for k in c if k in KEYS]) >= 1)
    cov = {
        "obligations": st["obligations"], "discharged": st["discharged"],
        "checker_cmd": "cd /verif/lean && lake build TypifyModel.Proofs.C10 && lake env lean TypifyModel/Audit/C10.lean",
        "trusted_base": vlib.TRUSTED_BASE,
        "axioms": st.get("axioms", {}),
        "theorems": ["C10.table_ok", "C10.int_fits_tbl", "C10.int_fits", "C10.nz_only", "C10.bad_default",
                     "C10.formats_spec_partial", "C10.formats_recognised"],
        "evaluations": len(ucases), "distinct_nontrivial": nontrivial,
        "rule": "boundary lattice of the property (every integer type's MIN/MAX and +-1, 0, +-1, +-2, small, large) x 12 formats; all 0-,1-keyword cases over the full lattice, all 2-keyword cases over a reduced (quick) or full (thorough) lattice, random 3-4 keyword cases; distinct by JSON text; non-trivial = at least one numeric keyword or default present",
        "samples": ucases[:3] + ucases[len(ucases)//2: len(ucases)//2 + 3],
        "traces_validated_against_impl": len(ucases) - unsupported,
        "model_disagreements": len(disagreements),
        "impl_oracle_failures_new": len(new_fail), "impl_oracle_failures_known": known_hit,
        "out_of_model_domain": unsupported,
        "answer_distribution": dict(sorted(branches.items(), key=lambda kv: -kv[1])[:20]),
        "tables_regenerated": st["tables_ok"],
        "composed_integer_schemas": {"evaluations": ci_["evaluations"], "judged": ci_["judged"], "refused_by_typify": ci_["refused"], "failures": len(ci_["fails"])},
        "indirect_default_sites": {"evaluations": ind["evaluations"], "answers": ind["answers"], "failures": len(ind["fails"]), "attributed_to_finding": ind["known"]},
        "convert_string_model": {"evaluations": cs_["evaluations"], "disagreements": cs_["disagreements"][:5], "answers": cs_["answers"],
                                 "theorems": ["C05C.convert_string_exact", "C05C.convert_string_uses_regress", "C05C.convert_string_format_ignores_validation", "C05C.convert_string_format_drops"]},
        "convert_array_model": {"evaluations": ca_["evaluations"], "disagreements": ca_["disagreements"][:5], "answers": ca_["answers"],
                                "theorems": ["C05A.tuple_arity", "C05A.array_len", "C05A.positional_items_need_fixed_length"]},
        "convert_object_model": {"evaluations": co_["evaluations"], "disagreements": co_["disagreements"][:5], "answers": co_["answers"],
                                 "theorems": ["C05O.members_make_struct", "C05O.closed_without_patterns_is_struct", "C05O.map_values"]},
        "string_formats": {"evaluations": sf["evaluations"], "selected": sf["selected"], "table_model_disagreements": sf["disagreements"][:5],
                           "oracle_failures": len(sf["fails"]),
                           "theorems": ["C10S.string_formats_documented", "C10S.string_format_unrecognised", "C10S.string_formats_known", "C10S.string_formats_functional", "C10S.string_formats_uses"]},
    }
    vlib.write_evidence(ctx, "proof", cov, [
        "JSON integers within [i64::MIN-1, u64::MAX+1] are parsed by serde_json to the nearest f64 (modelled by roundF64)",
        "the Rust integer types have the ranges stated in Model/IntTypes.lean",
        "convert_integer is reached through TypeSpace::add_type for {type: integer} schemas",
    ])

def replay(ctx, path):
    obj = json.load(open(path))
    if "input" not in obj:
        print("replay file names broken obligations only:", obj.get("broken_obligations")); return 1
    line = json.dumps(obj["input"], sort_keys=True)
    a = vlib.run_side("impl", "c10", [line])[0]
    b = vlib.run_side("model", "c10", [line])[0] if vlib.os.path.exists(vlib.drv("c10")) else "n/a"
    fails = oracle(obj["input"], a, full_lattice())
    print("input:", line); print("impl :", a); print("model:", b); print("oracle failures:", fails)
    return 1 if fails or a != b else 0

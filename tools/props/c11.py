"""C11 — string conversions of generated types agree with their wire format.
Theorems: lean/TypifyModel/Proofs/C11.lean (base_fromstr_eq_de, tryfrom_eq_fromstr, untagged_fromstr_eq_de,
base_display_eq_ser, untagged_display_eq_ser) over Model/{Serde,SerdeSer,StrConv}.lean.
Correspondence M3: the models vs the compiled generated code (ops fromstr/tryfrom_*/de/display)."""
import json
import vlib, m3, irutil
from batch import Batch, J, canon, split_answer

PROOF_TARGETS = ["TypifyModel.Proofs.C11", "TypifyModel.Proofs.C11Natives", "TypifyModel.Proofs.C11Findings", "TypifyModel.Proofs.C11Templates"]
PROOF_FILES = ["Proofs/C11.lean", "Proofs/C11Natives.lean", "Proofs/C11Findings.lean", "Proofs/Lemmas/StrConvLemmas.lean", "Proofs/C11Templates.lean"]
DATETIME = "::chrono::DateTime<::chrono::offset::Utc>"

def table_formats(): return [(f, p) for f, p, _ in vlib.string_formats_table()[0]]

def formats_doc():
    fs = [f for f, _ in table_formats() if not f.startswith("?")]
    defs = {}
    for i, f in enumerate(fs):
        defs["Fmt%d" % i] = {"type": "string", "format": f}
    for i in range(len(fs)):
        j = (i + 1) % len(fs)
        if i != j: defs["Mix%d" % i] = {"oneOf": [{"type": "string", "format": fs[i]}, {"type": "string", "format": fs[j]}]}
    # unions in which an EARLIER alternative accepts what a later, more specific one accepts too (a plain string definition, then a
    # format), and the other way round: parsing must build the variant deserialisation builds
    defs["Plain"] = {"type": "string"}
    defs["Short"] = {"type": "string", "maxLength": 12}
    for i, f in enumerate(fs):
        defs["Pre%d" % i] = {"oneOf": [{"$ref": "#/definitions/Plain"}, {"type": "string", "format": f}]}
        defs["Post%d" % i] = {"oneOf": [{"type": "string", "format": f}, {"$ref": "#/definitions/Plain"}]}
        defs["Mid%d" % i] = {"oneOf": [{"$ref": "#/definitions/Short"}, {"type": "string", "format": f}, {"$ref": "#/definitions/Plain"}]}
    defs["Opaque"] = {"type": "string", "format": "no-such-format"}
    return {"title": "R", "type": "object", "properties": {"a": {"$ref": "#/definitions/Fmt0"}} if fs else {}, "definitions": defs}

HAND = [
  {"title": "R", "type": "object", "properties": {"e": {"$ref": "#/definitions/E"}}, "definitions": {
     "E": {"type": "string", "enum": ["a", "b-c", "B-C", "a{b", "{}", "}}{{", "x y", "é", "", "\"q\"", "back\\slash", "1", "Self", "type"]},
     "S": {"type": "string"},
     "N3": {"type": "string", "maxLength": 3},
     "M2": {"type": "string", "minLength": 2, "maxLength": 4},
     "P": {"type": "string", "pattern": "^[a-z]+$"},
     "PL": {"type": "string", "pattern": "^[0-9]{3}$", "minLength": 3},
     "U": {"oneOf": [{"$ref": "#/definitions/E2"}, {"$ref": "#/definitions/N3"}]},
     "E2": {"type": "string", "enum": ["abcd", "zzzzz"]},
     "NN": {"$ref": "#/definitions/E2"}}},
]

def cases(ctx):
    import gen
    out = [("hand:%d" % i, {"settings": {}, "calls": [{"root": d}]}) for i, d in enumerate(HAND)]
    out.append(("formats", {"settings": {}, "calls": [{"root": formats_doc()}]}))
    for name, doc in gen.fixture_docs():
        if name.startswith("github") and ctx.tier != "thorough": continue
        out.append(("fixture:" + name, {"settings": {}, "calls": [{"root": doc}]}))
    import corpus
    for cid, cdoc, _ in corpus.documents():
        if cid.startswith(("hand:", "file:")): out.append(("corpus:" + cid, {"settings": {}, "calls": [{"root": cdoc}]}))
    n = 300 if ctx.tier == "thorough" else 40
    for k in range(n):
        feats = set(gen.DEFAULT_FEATURES) | ({"hostile_names"} if k % 4 == 0 else set())
        out.append(("gen:%d" % k, {"settings": {}, "calls": [{"root": gen.gen_universe(ctx.rng, 4 + k % 6, feats)}]}))
    return out

def run(ctx):
    st = vlib.proof_stage(ctx, "C11", PROOF_TARGETS, PROOF_FILES, slices=["ir"])
    cs = cases(ctx)
    b = Batch(ctx, assertions=False, ops=("de", "fromstr", "tryfrom_str", "tryfrom_string", "tryfrom_refstring", "display", "de_dbg", "fromstr_dbg"), ops_for="named")
    bc = []
    for tag, rq in cs:
        c = b.add_case(rq["calls"], rq["settings"], tag=tag); c.settings = rq["settings"]; c.request = rq; bc.append(c)
    b.prepare()
    # only string-wire types get ops (keeps the build small)
    targets = []
    for c in bc:
        if not c.dump: continue
        nm = irutil.named(c.dump)
        sw = [(n, tid, irutil.string_wire(c.dump, tid)) for n, (tid, e) in nm.items()]
        sw = [x for x in sw if x[2]]
        c.ops_types = [x[0] for x in sw]
        targets.append((c, sw))
    b.build()
    reqs = []; meta = []; dbg_reqs = []
    for c, sw in targets:
        if not c.compiled: continue
        for name, tid, kind in sw[: (50 if ctx.tier == "thorough" or c.tag == "formats" else 12)]:
            probes = irutil.string_probes(c.dump, tid, ctx.rng)
            for s in probes[: (80 if ctx.tier == "thorough" or "native" in kind else 40)]:
                for op in ("fromstr", "de", "tryfrom_str", "tryfrom_string", "tryfrom_refstring", "display"):
                    reqs.append((c, name, op, J(s))); meta.append((kind, s))
                if "untagged" in kind:
                    # which VARIANT was built (Debug text of the value): the serialisations of two variants can coincide
                    dbg_reqs.append((c, name, "fromstr_dbg", J(s))); dbg_reqs.append((c, name, "de_dbg", J(s)))
    ctx.log("cases=%d compiled=%d string-wire types=%d requests=%d" % (len(bc), sum(1 for c in bc if c.compiled),
            sum(len(sw) for _, sw in targets), len(reqs)))
    r = m3.compare(b, [c for c in bc if c.dump], reqs) if st["driver_ok"] else {"real": b.run(reqs), "model": None, "disagreements": [], "skipped_model": 0, "skipped_real": 0, "real_status": {}}
    # implementation oracle: the property itself on the compiled code's answers
    by = {}
    for rq, ra in zip(reqs, r["real"]):
        by.setdefault((id(rq[0]), rq[1], rq[3]), {})[rq[2]] = ra
    fails = []; probes = 0; kinds = {}
    for (cid, ty, payload), a in by.items():
        probes += 1
        de_ = m3.norm_real("de", a["de"])
        fs = m3.norm_real("fromstr", a["fromstr"])
        if fs[0] in m3.SKIP_REAL or de_[0] in m3.SKIP_REAL: continue
        if fs != de_: fails.append((cid, ty, payload, "fromstr!=de", a["fromstr"], a["de"]))
        for op in ("tryfrom_str", "tryfrom_string", "tryfrom_refstring"):
            t = m3.norm_real(op, a[op])
            if t[0] in m3.SKIP_REAL: continue
            if t != fs: fails.append((cid, ty, payload, op + "!=fromstr", a[op], a["fromstr"]))
        d = m3.norm_real("display", a["display"])
        if d[0] == "ok" and de_[0] == "ok" and d[1] != de_[1]:
            fails.append((cid, ty, payload, "display!=serialized", a["display"], a["de"]))
    # parsing builds the SAME VALUE deserialisation builds (the Debug text of the two values; the serialisations of two variants
    # of an untagged enum of strings coincide)
    dbg = b.run(dbg_reqs) if dbg_reqs else []
    for i_ in range(0, len(dbg), 2):
        (c_, ty_, _, pl_), fsd, ded = dbg_reqs[i_], dbg[i_], dbg[i_ + 1]
        if fsd.startswith("ok ") and ded.startswith("ok ") and fsd != ded:
            fails.append((id(c_), ty_, pl_, "fromstr value != deserialized value", fsd, ded))
    cmap = {id(c): c for c in bc}
    findings = vlib.load_findings("C11"); known_hit = {}
    def attributed(cid, ty, what):
        c = cmap[cid]; tid = irutil.named(c.dump).get(ty, (None,))[0]
        if what == "display!=serialized" and tid is not None and DATETIME in irutil.native_paths(c.dump, tid):
            return next((f for f in findings if f["id"] == "C11-datetime-display"), None)
        return None
    new = []
    for fl in fails:
        fd = attributed(fl[0], fl[1], fl[3])
        if fd: known_hit[fd["id"]] = known_hit.get(fd["id"], 0) + 1
        else: new.append(fl)
    for fd in findings:
        if known_hit.get(fd["id"]): vlib.known(ctx, fd)
        else: ctx.notes.append("known finding %s did not reproduce on this run" % fd["id"])
    all_fails, fails = fails, new
    broken = list(st["broken"])
    if r["disagreements"]:
        broken.append("correspondence M3 (string conversions): model and compiled code disagree on %d requests" % len(r["disagreements"]))
    seen = set()
    for cid, ty, payload, what, x, y in fails:
        if (ty, what) in seen or len(ctx.violations) >= 5: continue
        seen.add((ty, what))
        vlib.violation(ctx, {"property": "C11", "kind": "implementation violates the property", "input": cmap[cid].request,
                             "case": cmap[cid].tag, "type": ty, "probe": json.loads(payload), "clause": what, "answers": [x, y],
                             "broken_obligations": broken})
    if broken and not fails:
        vlib.violation(ctx, {"property": "C11", "kind": "property no longer shown to hold", "broken_obligations": broken,
                             "first_disagreements": [{"case": rq[0].tag, "input": rq[0].request, "type": rq[1], "op": rq[2], "payload": rq[3], "compiled": ra, "model": ma}
                                                     for rq, ra, ma in r["disagreements"][:3]], "lean_log": st.get("log", "")}, no_input=True)
    for k, s in meta: kinds[k] = kinds.get(k, 0) + 1
    cov = {"obligations": st["obligations"], "discharged": st["discharged"],
           "checker_cmd": "cd /verif/lean && lake build TypifyModel.Proofs.C11 && lake env lean TypifyModel/Audit/C11.lean",
           "trusted_base": vlib.TRUSTED_BASE + ["serde_derive/serde_json/regress behaviour is modelled (Model/Serde*.lean), tied by M3 to the compiled code", "rustc"],
           "axioms": st.get("axioms", {}),
           "evaluations": len(reqs), "distinct_nontrivial": probes,
           "rule": "for every string-wire type (simple enums, string newtypes +/- constraints, untagged enums of those) of every compiled case: probe strings = members, case/space variants, non-members, boundary lengths in ASCII and multi-byte, pattern hits/misses; one evaluation = one op on one probe; distinct non-trivial = distinct (case, type, probe) triples",
           "samples": [{"type": rq[1], "op": rq[2], "probe": rq[3], "compiled": ra} for rq, ra in list(zip(reqs, r["real"]))[:6]],
           "traces_validated_against_impl": len(reqs) - r["skipped_model"] - r["skipped_real"],
           "model_disagreements": len(r["disagreements"]), "model_out_of_fragment": r["skipped_model"],
           "compiled_skipped": r["skipped_real"], "impl_oracle_failures": len(fails), "impl_oracle_failures_known": known_hit,
           "string_formats_table": table_formats(),
           "probe_kinds": kinds, "compiled_status": r.get("real_status", {})}
    vlib.write_evidence(ctx, "proof", cov, [
        "serde/serde_json/regress are third-party: their behaviour on the emitted items is modelled and validated differentially (M3), not verified",
        "newtypes over string-formatted natives: the forwarding templates are proved to agree with the wire format GIVEN the facts recorded per native in Model/Natives.lean (knownNatives); those facts are about chrono / uuid / std::net and are probed on compiled code on every run, for every format of the regenerated table T2, not proved",
        "newtypes over non-string inner types are outside the property"])

def replay(ctx, path):
    obj = json.load(open(path))
    if "input" not in obj: print("replay names broken obligations only:", obj.get("broken_obligations")); return 1
    b = Batch("c11_replay", assertions=False, ops_for="named")
    c = b.add_case(obj["input"]["calls"], obj["input"]["settings"]); b.prepare(); b.build(); c.settings = obj["input"]["settings"]
    s = J(obj["probe"])
    reqs = [(c, obj["type"], op, s) for op in ("fromstr", "de", "tryfrom_str", "tryfrom_string", "tryfrom_refstring", "display")]
    r = m3.compare(b, [c], reqs)
    for rq, ra, ma in zip(reqs, r["real"], r["model"]): print(rq[2], "| compiled:", ra, "| model:", ma)
    a = dict((rq[2], ra) for rq, ra in zip(reqs, r["real"]))
    bad = m3.norm_real("fromstr", a["fromstr"]) != m3.norm_real("de", a["de"])
    return 1 if bad or r["disagreements"] else 0

"""C18 — with struct builders enabled, the builder constructs exactly the valid structs.
Theorems: lean/TypifyModel/Proofs/C18.lean (build_unbuild, build_ok_iff, build_ok_iff_set, build_error_names_prop,
build_eq_members, build_eq_de) over Model/Builder.lean (+ Model/Serde*.lean, Model/StrConv.lean).
Correspondence M3: the Builder model (drv_ir ops build / build_str / build_refstr / unbuild / de / tryfrom_*) vs the
compiled generated code (batch pipeline, settings {"struct_builder": true}).

A *probe group* is the unit of work (JSON-serialisable, so a replay file can carry one):
  {"kind": "subset",  "type": T, "set": {ident: value}}                      build  vs de of the object with the same members
  {"kind": "str",     "type": T, "set": {..}, "prop": ident, "string": s}    build_str / build_refstr (setter handed String / &str)
  {"kind": "unbuild", "type": T, "value": instance}                          T -> builder::T -> T  vs  de round trip
Oracle clauses (the property itself, on the compiled code's answers):
  (a) ok-iff-set      build is ok  <=>  every property without a default is set and no conversion failed
  (b) built-eq-de     an ok build equals `de` of the JSON object with the same members (wire names)
  (c) error-names     a failed conversion -> "error converting supplied value for <ident>: .."; a missing property
                      -> "no value supplied for <ident>" with <ident> required and unset
  (d) unbuild-id      From<T> for builder, then try_into(), gives the value back
"""
import itertools, json
import vlib, m3, irutil, gen
from batch import Batch, J, canon

PROOF_TARGETS = ["TypifyModel.Proofs.C18"]
PROOF_FILES = ["Proofs/C18.lean"]
FINDINGS_TARGET = "TypifyModel.Proofs.C18Findings"
SETTINGS = {"struct_builder": True}
OPS = ("de", "build", "build_str", "build_refstr", "unbuild", "tryfrom_str", "tryfrom_string")
BUILD_OPS = ("build", "build_str", "build_refstr")

# ------------------------------------------------------------------------------------------ hand-written cases
_E = {"type": "string", "enum": ["x", "y", "b-c"]}
_N3 = {"type": "string", "maxLength": 3}
_PAT = {"type": "string", "pattern": "^[a-z]+$"}
_INNER = {"type": "object", "required": ["a"], "properties": {"a": {"type": "integer"}, "t": {"type": "string"}}}

HAND = [
  ("states", {"title": "States", "type": "object", "required": ["ri", "rs", "rn"], "properties": {
      "ri": {"type": "integer"}, "rs": {"type": "string"}, "rn": {"$ref": "#/definitions/Inner"},
      "os": {"type": "string"}, "oa": {"type": "array", "items": {"type": "integer"}},
      "om": {"type": "object", "additionalProperties": {"type": "string"}}, "on": {"$ref": "#/definitions/Inner"}},
    "definitions": {"Inner": _INNER}}),
  ("defaults-scalar", {"title": "DefScalar", "type": "object", "required": ["r"], "properties": {
      "r": {"type": "integer"},
      "bt": {"type": "boolean", "default": True}, "bf": {"type": "boolean", "default": False},
      "ip": {"type": "integer", "default": 5}, "im": {"type": "integer", "default": -3},
      "u8": {"type": "integer", "format": "uint8", "default": 200},
      "nz": {"type": "integer", "minimum": 1, "default": 7},
      "s": {"type": "string", "default": "hi"}, "f": {"type": "number", "default": 1.5}}}),
  ("defaults-compound", {"title": "DefCompound", "type": "object", "properties": {
      "arr": {"type": "array", "items": {"type": "integer"}, "default": [1, 2]},
      "obj": {"allOf": [{"$ref": "#/definitions/Inner"}], "default": {"a": 1, "t": "z"}},
      "map": {"type": "object", "additionalProperties": {"type": "string"}, "default": {"k": "v"}},
      "en": {"allOf": [{"$ref": "#/definitions/E"}], "default": "y"},
      "n3": {"allOf": [{"$ref": "#/definitions/N3"}], "default": "ab"},
      "os": {"type": ["string", "null"], "default": "dflt"}},
    "definitions": {"Inner": _INNER, "E": _E, "N3": _N3}}),
  ("conversions", {"title": "Conv", "type": "object", "required": ["e", "n3", "pat", "s"], "properties": {
      "e": {"$ref": "#/definitions/E"}, "n3": {"$ref": "#/definitions/N3"}, "pat": {"$ref": "#/definitions/Pat"},
      "s": {"$ref": "#/definitions/S"}, "oe": {"$ref": "#/definitions/E"},
      "de": {"allOf": [{"$ref": "#/definitions/E"}], "default": "x"},
      "dn": {"allOf": [{"$ref": "#/definitions/N3"}], "default": "ab"}, "i": {"type": "integer"}},
    "definitions": {"E": _E, "N3": _N3, "Pat": _PAT, "S": {"type": "string"}}}),
  ("conversions-order", {"title": "ConvOrder", "type": "object", "required": ["a", "e", "z"], "properties": {
      "a": {"type": "integer"}, "e": {"$ref": "#/definitions/E"}, "z": {"type": "string"},
      "m2": {"$ref": "#/definitions/M2"}}, "definitions": {"E": _E, "M2": {"type": "string", "minLength": 2, "maxLength": 4}}}),
  ("renamed", {"title": "Renamed", "type": "object", "required": ["foo-bar", "type", "1st"], "properties": {
      "foo-bar": {"type": "integer"}, "type": {"type": "string"}, "1st": {"type": "boolean"},
      "fooBaz": {"type": "integer"}, "Self": {"type": "string"}, "value": {"type": "string", "default": "v"},
      "T": {"type": "integer", "default": 3}, "a b": {"$ref": "#/definitions/E"}}, "definitions": {"E": _E}}),
  ("empty", {"title": "Empty", "type": "object", "properties": {}, "additionalProperties": False,
             "definitions": {"Holder": {"type": "object", "required": ["e"], "properties": {"e": {"$ref": "#"}, "oe": {"$ref": "#"}}}}}),
  ("deny", {"title": "Deny", "type": "object", "additionalProperties": False, "required": ["r"], "properties": {
      "r": {"type": "string"}, "o": {"type": "integer"}, "d": {"type": "integer", "default": 9},
      "foo-bar": {"type": "boolean", "default": True}}}),
  ("nullable", {"title": "Nullable", "type": "object", "required": ["n", "inl", "i"], "properties": {
      "n": {"$ref": "#/definitions/N"}, "inl": {"type": ["string", "null"]}, "i": {"type": "integer"},
      "on": {"$ref": "#/definitions/N"}, "oinl": {"type": ["integer", "null"]}},
    "definitions": {"N": {"oneOf": [{"type": "null"}, {"type": "string"}]}}}),
  ("flatten", {"title": "Flat", "type": "object", "required": ["r"], "properties": {"r": {"type": "string"}, "o": {"type": "integer"}},
               "additionalProperties": {"type": "integer"}}),
  ("nested", {"title": "Outer", "type": "object", "required": ["mid"], "properties": {
      "mid": {"$ref": "#/definitions/Mid"}, "mids": {"type": "array", "items": {"$ref": "#/definitions/Mid"}},
      "dm": {"allOf": [{"$ref": "#/definitions/Mid"}], "default": {"inner": {"a": 4}}}},
    "definitions": {"Mid": {"type": "object", "required": ["inner"], "properties": {"inner": {"$ref": "#/definitions/Inner"},
                                                                                      "tag": {"type": "string", "default": "m"}}},
                    "Inner": _INNER}}),
  ("wide", {"title": "Wide", "type": "object", "required": ["p0", "p3", "p6"], "properties": {
      "p0": {"type": "integer"}, "p1": {"type": "string"}, "p2": {"type": "boolean", "default": True},
      "p3": {"$ref": "#/definitions/E"}, "p4": {"type": "array", "items": {"type": "string"}},
      "p5": {"type": "integer", "default": -1}, "p6": {"type": "string"}, "p7": {"type": "number"},
      "p8": {"type": "string", "default": "w"}}, "definitions": {"E": _E}}),
]

def cases(ctx):
    out = [("hand:" + n, {"settings": dict(SETTINGS), "calls": [{"root": d}]}) for n, d in HAND]
    for name, doc in gen.fixture_docs():
        big = name.endswith("github.json") or name.endswith("vega.json")
        if big and ctx.tier != "thorough": continue
        out.append(("fixture:" + name, {"settings": dict(SETTINGS), "calls": [{"root": doc}]}))
    import corpus
    for cid, cdoc, _ in corpus.documents():
        if cid.startswith(("hand:", "file:")): out.append(("corpus:" + cid, {"settings": dict(SETTINGS), "calls": [{"root": cdoc}]}))
    n = 400 if ctx.tier == "thorough" else 14
    for k in range(n):
        feats = (gen.FEATURE_SETS["defaults"] if k % 3 != 2 else gen.FEATURE_SETS["default"]) | ({"null_props"} if k % 2 else set()) | ({"map_keys", "any"} if k % 5 == 1 else set())
        out.append(("gen:%d" % k, {"settings": dict(SETTINGS), "calls": [{"root": gen.gen_universe(ctx.rng, 3 + k % 5, feats)}]}))
    return out

# ------------------------------------------------------------------------------------------ IR helpers
def wire_of(p):
    """wire name of a dump property; None for a flattened one"""
    r = p.get("rename")
    if r is None or r == "none": return p["name"]
    if isinstance(r, dict) and "rename" in r: return r["rename"]
    return None

def struct_info(c, name):
    """what the oracle needs to know about a struct, from the introspection API (c.types) and the IR dump"""
    t = c.type(name)
    if not (t and t.get("kind") == "struct" and t.get("builder")): return None
    e = irutil.entries(c.dump).get(t["id"])
    if not e or e.get("kind") != "struct": return None
    tp, dp = t.get("props", []), e.get("props", [])
    if [p["name"] for p in tp] != [p["name"] for p in dp]: return None
    props = []
    for a, d in zip(tp, dp):
        pt = c.type(a["type_id"])
        stringy = bool(pt and pt.get("kind") in ("newtype", "enum") and pt.get("has_impl", {}).get("FromStr"))
        props.append({"ident": a["name"], "wire": wire_of(d), "required": bool(a["required"]), "state": d["state"],
                      "type_id": a["type_id"], "type_name": pt.get("name") if pt else None, "stringy": stringy})
    return {"name": name, "id": t["id"], "props": props, "deny": bool(e.get("deny")),
            "flatten": [p["ident"] for p in props if p["wire"] is None]}

def api_state_mismatch(info):
    """the `required` flag of the API and the IR state must say the same thing (C17's business; noted only)"""
    return [p["ident"] for p in info["props"] if p["required"] != (p["state"] == "required")]

def locate_schema(c, doc, info):
    """schema of a struct: by $ref (definition / root) or, for inline structs, the first object schema whose
    property names are exactly the struct's wire names"""
    inv = {}
    for ref, tid in (c.dump.get("ref_to_id") or {}).items(): inv.setdefault(tid, ref)
    ref = inv.get(info["id"])
    if ref == "#": return doc
    if ref and ref.startswith("def:"):
        k = ref[4:]
        for bag in ("definitions", "$defs"):
            if isinstance(doc.get(bag), dict) and k in doc[bag]: return doc[bag][k]
    wires = {p["wire"] for p in info["props"] if p["wire"] is not None}
    for _, s in gen.iter_schemas(doc):
        if isinstance(s, dict) and isinstance(s.get("properties"), dict) and set(s["properties"]) == wires and wires:
            return s
    return None

def candidate_instances(rng, doc, schema, info):
    out, seen = [], set()
    if schema is not None:
        for mode in ("all_present", "random", "max", "random", "min"):
            try: v = gen.gen_valid(rng, doc, schema, depth=3, mode=mode)
            except Exception: continue
            if not isinstance(v, dict): continue
            k = J(v)
            if k not in seen: seen.add(k); out.append(v)
    if not info["props"] and "{}" not in seen: out.append({})
    return out

def object_for(info, setv):
    """the JSON object with the same members as a builder's set (wire names; a flattened map's members inlined)"""
    obj = {}
    for p in info["props"]:
        if p["ident"] not in setv: continue
        if p["wire"] is not None: obj[p["wire"]] = setv[p["ident"]]
    for p in info["props"]:
        if p["ident"] in setv and p["wire"] is None and isinstance(setv[p["ident"]], dict):
            for k, v in setv[p["ident"]].items(): obj.setdefault(k, v)
    return obj

def sample_values(info, dump, instances):
    """ident -> value, read off instances the compiled type accepted"""
    es = irutil.entries(dump)
    vals = {}
    wires = {p["wire"] for p in info["props"] if p["wire"] is not None}
    for inst in instances:
        for p in info["props"]:
            if p["ident"] in vals: continue
            if p["wire"] is not None:
                if p["wire"] in inst: vals[p["ident"]] = inst[p["wire"]]
            elif es.get(p["type_id"], {}).get("kind") == "map":
                extra = {k: v for k, v in inst.items() if k not in wires}
                if extra: vals[p["ident"]] = extra
    return vals

def subsets(rng, idents, required, tier):
    n = len(idents)
    if n <= 6:
        return [frozenset(c) for k in range(n + 1) for c in itertools.combinations(idents, k)]
    req = [i for i in idents if i in required]
    out = [frozenset(), frozenset(idents), frozenset(req)]
    for r in req[:8]:
        out.append(frozenset(i for i in idents if i != r)); out.append(frozenset(i for i in req if i != r))
    for i in idents[:12]: out.append(frozenset([i]) | frozenset(req))
    for k in range(48 if tier == "thorough" else 16):
        pr = rng.choice((0.2, 0.5, 0.8))
        out.append(frozenset(i for i in idents if rng.random() < pr))
    seen, res = set(), []
    for s in out:
        if s not in seen: seen.add(s); res.append(s)
    return res

# ------------------------------------------------------------------------------------------ probe groups
def group_requests(c, info, g):
    T = g["type"]
    if g["kind"] == "subset":
        return [(c, T, "build", J({"set": g["set"]})), (c, T, "de", J(object_for(info, g["set"])))]
    if g["kind"] == "unbuild":
        return [(c, T, "unbuild", J(g["value"])), (c, T, "de", J(g["value"]))]
    if g["kind"] == "str":
        setv = dict(g["set"]); setv[g["prop"]] = g["string"]
        wirev = dict(g["set"]); wirev[g["prop"]] = g.get("wire", g["string"])      # what the converted value looks like on the wire
        p = next(p for p in info["props"] if p["ident"] == g["prop"])
        return [(c, T, "build_str", J({"set": setv})), (c, T, "build_refstr", J({"set": setv})),
                (c, T, "de", J(object_for(info, wirev))),
                (c, p["type_name"], "tryfrom_string", J(g["string"])), (c, p["type_name"], "tryfrom_str", J(g["string"]))]
    raise ValueError(g["kind"])

NOT_RUN = m3.SKIP_REAL | {"badvalue", "badpayload", "badrequest", "abort", "nocase"}

def _judge_build(info, op, a_build, a_de, setv, conv, conv_prop, fails, stats):
    """clauses (a) (b) (c) for one build answer. conv: None (no string conversion involved) | 'ok' | 'err'"""
    nb, nd = m3.norm_real(op, a_build), m3.norm_real("de", a_de)
    if nb[0] in NOT_RUN: stats["not_run:" + nb[0]] = stats.get("not_run:" + nb[0], 0) + 1; return
    if nb[0] == "panic":
        if nd[0] == "panic": stats["both_panic"] = stats.get("both_panic", 0) + 1
        else: fails.append(("panic", "%s panics, de of the same members answers %s" % (op, a_de[:200])))
        return
    missing = [p["ident"] for p in info["props"] if p["required"] and p["ident"] not in setv]
    expect_ok = not missing and conv != "err"
    stats["build_ok" if nb[0] == "ok" else "build_err"] = stats.get("build_ok" if nb[0] == "ok" else "build_err", 0) + 1
    if (nb[0] == "ok") != expect_ok:
        fails.append(("a:ok-iff-set", "%s answered %r; properties without default that are unset: %r; conversion of %r: %s"
                      % (op, a_build[:300], missing, conv_prop, conv)))
        return
    if nb[0] == "ok":
        if nd[0] in NOT_RUN: return
        if nd != nb:
            fails.append(("b:built-eq-de", "%s gives %s but de of the object with the same members gives %s" % (op, a_build[:400], a_de[:400])))
        return
    raw = a_build.partition(" ")[2]
    allowed = ["no value supplied for " + m for m in missing]
    named = raw in allowed
    if conv == "err":
        allowed.append("error converting supplied value for %s: .." % conv_prop)
        named = named or raw.startswith("error converting supplied value for %s: " % conv_prop)
    if not named:
        fails.append(("c:error-names", "%s failed with %r; expected one of %r" % (op, raw[:300], allowed)))
        return
    if nd[0] == "ok" and conv != "err": stats["de_more_lenient"] = stats.get("de_more_lenient", 0) + 1

def judge(info, g, ans, stats):
    """-> [(clause, detail)] oracle failures of one probe group on the compiled code's answers"""
    fails = []
    if g["kind"] == "subset":
        _judge_build(info, "build", ans[0], ans[1], g["set"], None, None, fails, stats)
    elif g["kind"] == "unbuild":
        nu, nd = m3.norm_real("unbuild", ans[0]), m3.norm_real("de", ans[1])
        if nu[0] in NOT_RUN or nd[0] in NOT_RUN or (nu[0] == "panic" and nd[0] == "panic"):
            stats["not_run:unbuild"] = stats.get("not_run:unbuild", 0) + 1
        elif nd[0] != "ok": stats["unbuild_invalid_instance"] = stats.get("unbuild_invalid_instance", 0) + 1
        elif nu != nd:
            fails.append(("d:unbuild-id", "struct -> builder -> struct gives %s, the value is %s" % (ans[0][:400], ans[1][:400])))
        else: stats["unbuild_ok"] = stats.get("unbuild_ok", 0) + 1
    elif g["kind"] == "str":
        setv = dict(g["set"]); setv[g["prop"]] = g["string"]
        for i, op, cop in ((0, "build_str", 3), (1, "build_refstr", 4)):
            nc = m3.norm_real("tryfrom_string", ans[cop])
            if nc[0] not in ("ok", "err"): stats["not_run:conv"] = stats.get("not_run:conv", 0) + 1; continue
            stats["conv_" + nc[0]] = stats.get("conv_" + nc[0], 0) + 1
            _judge_build(info, op, ans[i], ans[2], setv, nc[0], g["prop"], fails, stats)
    return fails

def str_plan(ctx, c, info):
    """[(property, [strings])] to hand to the setters of properties typed by a string newtype / enum"""
    out = []
    for p in info["props"]:
        if not p["stringy"] or p["type_name"] is None: continue
        probes = irutil.string_probes(c.dump, p["type_id"], ctx.rng)
        out.append((p, probes[:4] + probes[14:14 + (16 if ctx.tier == "thorough" else 8)]))
    return out

def groups_for(ctx, c, info, instances_ok, plan=(), conv={}):
    """probe groups of one struct, from the instances its compiled Deserialize accepted; conv: answers of
    tryfrom_string for the planned strings (the wire form of a converted value need not be the string)"""
    rng = ctx.rng
    T = info["name"]
    gs = []
    vals = sample_values(info, c.dump, instances_ok)
    idents = [p["ident"] for p in info["props"] if p["ident"] in vals]
    required = {p["ident"] for p in info["props"] if p["required"]}
    for s in subsets(rng, idents, required, ctx.tier):
        gs.append({"kind": "subset", "type": T, "set": {i: vals[i] for i in idents if i in s}})
    for inst in instances_ok[1:3]:          # other sample values: the full member set of further instances
        v2 = sample_values(info, c.dump, [inst])
        gs.append({"kind": "subset", "type": T, "set": v2})
    for inst in instances_ok[:3]:
        gs.append({"kind": "unbuild", "type": T, "value": inst})
    base = {i: vals[i] for i in idents if i in required}
    def sgroup(setv, p, s_):
        g = {"kind": "str", "type": T, "set": setv, "prop": p["ident"], "string": s_}
        a = conv.get((id(c), p["type_name"], s_), "")
        if a.startswith("ok "):
            try: g["wire"] = json.loads(a[3:])
            except ValueError: pass
        return g
    for p, keep in plan:
        for s_ in keep: gs.append(sgroup(base, p, s_))
        # a failing conversion next to a missing required property (error must name one of the two)
        others = [i for i in required if i != p["ident"] and i in base]
        if others and keep:
            gs.append(sgroup({i: v for i, v in base.items() if i != others[-1]}, p, keep[0]))
    return gs, len(info["props"]) - len(idents)

# ------------------------------------------------------------------------------------------ the check
PAIRS = {"subset": [(0, 1)], "unbuild": [(0, 1)], "str": [(0, 2), (1, 2)]}

def _model_skipped(nm): return nm[0] in m3.SKIP_MODEL or (nm[0].startswith("se-") and nm[0] != "se-err")

def compare_group(g, rq, real, model):
    """C18's projection of one probe group on both sides: per request the outcome class and error text, and
    whether the built value equals `de` of the object with the same members. -> (raw, proj): indexes of requests
    whose answers differ at all / differ on the projection. Values that differ although both sides relate them
    in the same way (f32 printing, how a default value is rendered: C03/C06's business) are raw only."""
    nr = [m3.norm_real(q[2], a) for q, a in zip(rq, real)]
    nm = [m3.norm_model(q[2], a) for q, a in zip(rq, model)]
    live = [not (_model_skipped(m) or r[0] in m3.SKIP_REAL) for r, m in zip(nr, nm)]
    raw = [i for i in range(len(rq)) if live[i] and nr[i] != nm[i]]
    proj = [i for i in raw if nr[i][0] != nm[i][0] or (nr[i][0] != "ok" and nr[i] != nm[i])]
    for i, j in PAIRS[g["kind"]]:
        if live[i] and live[j] and nr[i][0] == nm[i][0] == nr[j][0] == nm[j][0] == "ok" and (nr[i] == nr[j]) != (nm[i] == nm[j]):
            proj.append(i)
    return raw, sorted(set(proj))

def default_rejected_by_type(c, info, answers_by_req):
    """mechanism predicate of C18-eager-default (Lean: C18.Defect.undeserializableDefault) on the compiled code:
    some property has a schema default that `de` of the property's own type rejects"""
    for p in info["props"]:
        if isinstance(p["state"], dict) and "default" in p["state"]:
            a = answers_by_req.get((id(c), p["type_id"], J(p["state"]["default"])))
            if a is not None and (a.startswith("err") or a == "panic"): return p["ident"]
    return None

def attribute(findings, clause, pred_hits):
    """a listed finding explains an oracle failure only if its clause matches and its predicate holds on the input"""
    for f in findings:
        if f.get("clause") == clause and pred_hits.get(f.get("predicate_py")): return f
    return None

def run(ctx):
    st = vlib.proof_stage(ctx, "C18", PROOF_TARGETS, PROOF_FILES, slices=["ir"])
    fok, _ = vlib.lean_build(ctx, [FINDINGS_TARGET]) if st["proof_ok"] else (False, "")
    findings = vlib.load_findings("C18")
    cs = cases(ctx)
    for f in findings:
        if isinstance(f.get("witness"), dict) and "input" in f["witness"]:
            cs.insert(0, ("witness:" + f["id"], f["witness"]["input"]))
    b = Batch(ctx, assertions=False, ops=OPS, ops_for="all")
    bc = []
    for tag, rq in cs:
        c = b.add_case(rq["calls"], rq["settings"], tag=tag); c.settings = rq["settings"]; c.doc = rq["calls"][0]["root"]; bc.append(c)
    b.prepare()
    fixed = lambda c: c.tag.startswith("hand:") or c.tag.startswith("witness:")
    per_case = 60 if ctx.tier == "thorough" else 12
    budget = 3000 if ctx.tier == "thorough" else 150
    targets = []                       # (case, info)
    notes = {}
    for c in bc:
        if not c.dump or not c.types: continue
        names = []
        for t in c.types:
            if t.get("kind") == "struct" and t.get("builder") and t["name"] not in names: names.append(t["name"])
        if len(names) > per_case and not fixed(c):
            names = sorted(ctx.rng.sample(names, per_case))
        infos = [i for i in (struct_info(c, n) for n in names) if i]
        if not fixed(c): infos = infos[:max(budget, 0)]
        budget -= len(infos)
        ot = set()
        for i in infos:
            ot.add(i["name"])
            for p in i["props"]:
                if p["stringy"] and p["type_name"]: ot.add(p["type_name"])
                if isinstance(p["state"], dict) and "default" in p["state"]: ot.add(p["type_id"])     # for the finding's predicate
            mm = api_state_mismatch(i)
            if mm: notes.setdefault("api_required_flag_differs_from_ir_state", []).append("%s/%s:%s" % (c.tag, i["name"], ",".join(mm)))
        c.ops_types = ot
        for i in infos: targets.append((c, i))
    b.build()
    hand_broken = [c for c in bc if c.tag.startswith("hand:") and not c.compiled]
    # phase 1: which candidate instances does the compiled Deserialize accept; does each default deserialize
    cand = []; r1 = []
    for c, info in targets:
        if not c.compiled: continue
        schema = locate_schema(c, c.doc, info)
        for inst in candidate_instances(ctx.rng, c.doc, schema, info):
            cand.append((c, info, inst)); r1.append((c, info["name"], "de", J(inst)))
    r0 = []
    for c, info in targets:
        if not c.compiled: continue
        for p in info["props"]:
            if isinstance(p["state"], dict) and "default" in p["state"]: r0.append((c, p["type_id"], "de", J(p["state"]["default"])))
    plans = {}; r2 = []
    for c, info in targets:
        if not c.compiled: continue
        plans[(id(c), info["name"])] = pl = str_plan(ctx, c, info)
        for p, keep in pl:
            for s_ in keep: r2.append((c, p["type_name"], "tryfrom_string", J(s_)))
    a1 = b.run(r1 + r0 + r2)
    a0 = dict(((id(q[0]), q[1], q[3]), a) for q, a in zip(r0, a1[len(r1):]))
    conv = dict(((id(q[0]), q[1], json.loads(q[3])), a) for q, a in zip(r2, a1[len(r1) + len(r0):]))
    accepted = {}
    for (c, info, inst), a in zip(cand, a1):
        if a.startswith("ok "): accepted.setdefault((id(c), info["name"]), []).append(inst)
    # phase 2: the probe groups
    groups = []; reqs = []; spans = []; unsampled = 0; nstructs = 0; no_instance = 0
    for c, info in targets:
        if not c.compiled: continue
        ok = accepted.get((id(c), info["name"]), [])
        if not ok: no_instance += 1
        gs, miss = groups_for(ctx, c, info, ok, plans.get((id(c), info["name"]), ()), conv)
        if c.tag.startswith("witness:"):
            w = next(f for f in findings if "witness:" + f["id"] == c.tag)["witness"]
            if w.get("type") == info["name"]: gs.insert(0, w["request"])
        unsampled += miss; nstructs += 1
        for g in gs:
            rq = group_requests(c, info, g)
            spans.append((len(reqs), len(reqs) + len(rq))); reqs.extend(rq); groups.append((c, info, g))
    ctx.log("cases=%d compiled=%d structs=%d (no accepted instance: %d, properties without sample: %d) groups=%d requests=%d"
            % (len(bc), sum(1 for c in bc if c.compiled), nstructs, no_instance, unsampled, len(groups), len(reqs)))
    live = [c for c in bc if c.dump]
    if st["driver_ok"]:
        r = m3.compare(b, live, reqs)
    else:
        r = {"real": b.run(reqs), "model": None, "disagreements": [], "skipped_model": 0, "skipped_real": 0, "real_status": {}}
    # correspondence on C18's projection + implementation oracle
    stats = {}; fails = []; kinds = {}; distinct = set(); disagreements = []; value_only = []
    for (c, info, g), (lo, hi) in zip(groups, spans):
        kinds[g["kind"]] = kinds.get(g["kind"], 0) + 1
        if info["props"]: distinct.add((c.idx, g["type"], g["kind"], J(g.get("set", g.get("value"))), g.get("prop"), g.get("string")))
        if r["model"]:
            raw, proj = compare_group(g, reqs[lo:hi], r["real"][lo:hi], r["model"][lo:hi])
            for i in proj: disagreements.append((reqs[lo + i], r["real"][lo + i], r["model"][lo + i]))
            for i in raw:
                if i not in proj: value_only.append((reqs[lo + i], r["real"][lo + i], r["model"][lo + i]))
        for clause, detail in judge(info, g, r["real"][lo:hi], stats):
            fails.append((c, info, g, clause, detail, r["real"][lo:hi]))
    with open(vlib.os.path.join(vlib.CACHE, "c18_last_disagreements.json"), "w") as fh:      # diagnosis aid
        json.dump([{"which": w, "case": rq[0].tag, "type": rq[1], "op": rq[2], "payload": rq[3], "compiled": ra, "model": ma}
                   for w, l in (("projection", disagreements), ("value-only", value_only)) for rq, ra, ma in l[:200]], fh, indent=1)
    broken = list(st["broken"])
    if disagreements:
        broken.append("correspondence M3 (builder): model and compiled code disagree on %d requests" % len(disagreements))
    for c in hand_broken:
        broken.append("hand-written case %s no longer compiles with struct_builder: %s"
                      % (c.tag, "; ".join((e.get("message") or "")[:160] for e in c.rustc_errors[:2]) or c.skipped))
    seen = set(); known_hits = {}; witness_fails = set(); new_fails = []
    for c, info, g, clause, detail, answers in fails:
        f = attribute(findings, clause, {"default_rejected_by_type": default_rejected_by_type(c, info, a0)})
        if f:
            known_hits[f["id"]] = known_hits.get(f["id"], 0) + 1
            if c.tag == "witness:" + f["id"]: witness_fails.add(f["id"])
            continue
        new_fails.append((c, info, g, clause, detail, answers))
    for c, info, g, clause, detail, answers in new_fails:
        key = (c.tag, g["type"], clause)
        if key in seen or len(ctx.violations) >= 5: continue
        seen.add(key)
        vlib.violation(ctx, {"property": "C18", "kind": "implementation violates the property", "input": c.request,
                             "case": c.tag, "type": g["type"], "request": g, "clause": clause, "detail": detail,
                             "answers": answers, "broken_obligations": broken})
    for f in findings:
        if f["id"] in witness_fails: vlib.known(ctx, f)
        else: ctx.notes.append("known finding %s no longer reproduces on its witness" % f["id"])
    if st["proof_ok"] and not fok:
        ctx.notes.append("Proofs/C18Findings.lean (refutation of the full statement behind the known finding) no longer compiles")
    if broken and not new_fails:
        vlib.violation(ctx, {"property": "C18", "kind": "property no longer shown to hold", "broken_obligations": broken,
                             "first_disagreements": [{"case": rq[0].tag, "input": rq[0].request, "type": rq[1], "op": rq[2],
                                                      "payload": rq[3], "compiled": ra, "model": ma}
                                                     for rq, ra, ma in disagreements[:3]],
                             "lean_log": st.get("log", "")}, no_input=True)
    model_status = {}
    for ma in (r["model"] or []):
        k = ma.partition(" ")[0]; model_status[k] = model_status.get(k, 0) + 1
    samples = []
    for (c, info, g), (lo, hi) in list(zip(groups, spans))[:: max(1, len(groups) // 6)][:6]:
        samples.append({"case": c.tag, "group": g, "requests": [{"type": q[1], "op": q[2], "payload": q[3]} for q in reqs[lo:hi]],
                        "compiled": r["real"][lo:hi], "model": (r["model"][lo:hi] if r["model"] else None)})
    cov = {"obligations": st["obligations"], "discharged": st["discharged"],
           "checker_cmd": "cd /verif/lean && lake build TypifyModel.Proofs.C18 && lake env lean TypifyModel/Audit/C18.lean",
           "trusted_base": vlib.TRUSTED_BASE + ["serde_derive/serde_json/regress behaviour is modelled (Model/Serde*.lean), tied by M3 to the compiled code",
                                                "the emitted builder items are modelled by hand (Model/Builder.lean, from type_entry.rs:1241-1332), tied by M3 to the compiled code",
                                                "rustc"],
           "axioms": st.get("axioms", {}),
           "evaluations": len(reqs) + len(r1) + len(r0) + len(r2), "distinct_nontrivial": len(distinct),
           "rule": "per generated struct with a builder (hand-written schemas for every property state, repository fixtures, generated universes; "
                   "settings struct_builder=true): sample values are the members of instances the compiled Deserialize accepted; probe groups = "
                   "every subset of the sampled properties when there are <= 6 (empty/full/required/required-minus-one/singletons/random above) set "
                   "through the builder and the JSON object with the same members deserialised; struct -> builder -> struct on accepted instances; "
                   "for properties typed by a string newtype / enum, strings (members, non-members, boundary lengths, pattern hits/misses) handed to "
                   "the setter as String and &str. One evaluation = one operation on the compiled code; distinct non-trivial = distinct "
                   "(case, struct, kind, set/value, string) groups on structs with at least one property",
           "samples": samples,
           "traces_validated_against_impl": max(0, len(reqs) - r["skipped_model"] - r["skipped_real"]) if r["model"] else 0,
           "model_disagreements": len(disagreements), "model_value_only_differences": len(value_only),
           "model_value_only_samples": [{"case": rq[0].tag, "type": rq[1], "op": rq[2], "payload": rq[3][:300], "compiled": ra[:300], "model": ma[:300]}
                                        for rq, ra, ma in value_only[:3]],
           "model_out_of_fragment": r["skipped_model"],
           "compiled_skipped": r["skipped_real"], "impl_oracle_failures": len(fails), "impl_oracle_failures_new": len(new_fails),
           "known_finding_hits": known_hits, "findings_file_compiles": bool(fok),
           "cases": len(bc), "cases_compiled": sum(1 for c in bc if c.compiled), "structs": nstructs,
           "cases_not_compiled": [{"case": c.tag, "why": c.skipped or c.error or "; ".join(sorted({str(e.get("code")) + " " + (e.get("message") or "")[:120] for e in c.rustc_errors}))[:400]}
                                  for c in bc if not c.compiled][:20],
           "structs_without_accepted_instance": no_instance, "properties_without_sample": unsampled,
           "group_kinds": kinds, "oracle_stats": stats, "compiled_status": r.get("real_status", {}), "model_status": model_status,
           "candidate_instances": len(r1), "candidate_instances_accepted": sum(len(v) for v in accepted.values()),
           "notes": notes}
    vlib.write_evidence(ctx, "proof", cov, [
        "serde/serde_json/regress are third-party: their behaviour on the emitted items is modelled and validated differentially (M3), not verified",
        "the setters are generic (T: TryInto<PropType>): exercised with T = PropType (always converts), String and &str (may fail); other T are covered by the theorems' Arg.convFail only",
        "the text of an inner conversion error is not modelled: model and compiled code are compared up to 'error converting supplied value for <ident>'",
        "model and compiled code are compared on C18's projection (outcome class, error text, built value == de of the same members); values both sides relate "
        "alike but print differently (f32 digits, rendering of a default value: C03/C06) are counted under model_value_only_differences",
        "build_eq_de is proved for structs without flattened members; flattened maps are exercised on the compiled code only (oracle clause b)",
        "a required property of an Option-like type (nullable schema) is demanded by the builder although deserialization supplies None when it is absent "
        "(Agree's side condition); counted under oracle_stats.de_more_lenient, not a violation of the property as worded",
        "the theorems assume the builder state exists (slots = ok): a property default that its type does not deserialize makes T::builder() panic "
        "(known finding C18-eager-default, Proofs/C18Findings.lean)"])

def replay(ctx, path):
    obj = json.load(open(path))
    if "input" not in obj:
        print("replay names broken obligations only:", obj.get("broken_obligations"))
        for d in obj.get("first_disagreements", []): print("  disagreement:", d["case"], d["type"], d["op"], d["payload"], "| compiled:", d["compiled"], "| model:", d["model"])
        return 1
    g = obj["request"]
    b = Batch("c18_replay", assertions=False, ops=OPS, ops_for="named")
    c = b.add_case(obj["input"]["calls"], obj["input"]["settings"]); c.settings = obj["input"]["settings"]
    b.prepare()
    info = struct_info(c, g["type"]) if c.dump else None
    if info is None:
        print("replay: the case no longer yields struct %s with a builder (%s)" % (g["type"], c.error or c.calls)); return 1
    c.ops_types = {info["name"]} | {p["type_name"] for p in info["props"] if p["stringy"] and p["type_name"]}
    b.build()
    if not c.compiled:
        print("replay: generated code does not compile:", [e.get("message") for e in c.rustc_errors[:3]]); return 1
    reqs = group_requests(c, info, g)
    lean_ok, _ = vlib.lean_build(ctx, ["drv_ir"])
    r = m3.compare(b, [c], reqs) if lean_ok else {"real": b.run(reqs), "model": [None] * len(reqs), "disagreements": []}
    for rq, ra, ma in zip(reqs, r["real"], r["model"]): print(rq[1], rq[2], rq[3], "| compiled:", ra, "| model:", ma)
    fails = judge(info, g, r["real"], {})
    for clause, detail in fails: print("ORACLE FAILS clause", clause, ":", detail)
    for rq, ra, ma in r["disagreements"]: print("MODEL DISAGREES on", rq[2], "| compiled:", ra, "| model:", ma)
    return 1 if fails or r["disagreements"] else 0

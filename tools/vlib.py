"""Shared machinery for /verif/check: build, translate, correspond, audit, evidence, findings."""
import json, os, re, subprocess, sys, time, hashlib, random

VERIF = os.path.dirname(os.path.dirname(os.path.abspath(__file__)))
REPO = os.environ.get("VERIF_REPO", "/repo")
LEAN = os.path.join(VERIF, "lean")
HARNESS = os.path.join(VERIF, "harness")
CACHE = os.path.join(VERIF, ".cache")
def tvh(slice_): return os.path.join(HARNESS, "target", "debug", "tvh_" + slice_)
def drv(slice_): return os.path.join(LEAN, ".lake", "build", "bin", "drv_" + slice_)
EXTRACT = os.path.join(HARNESS, "target", "debug", "extract")
STD_AXIOMS = {"propext", "Classical.choice", "Quot.sound"}
ENV = dict(os.environ, CARGO_NET_OFFLINE="true")

def sh(cmd, cwd=None, inp=None, timeout=None, env=None):
    p = subprocess.run(cmd, cwd=cwd, input=inp, capture_output=True, text=True,
                       timeout=timeout, env=env or ENV, shell=isinstance(cmd, str))
    return p.returncode, p.stdout, p.stderr

class Ctx:
    def __init__(self, prop, tier, seed):
        self.prop, self.tier, self.seed = prop, tier, seed
        self.t0 = time.time()
        self.rng = random.Random(seed)
        self.notes = []
        self.violations = []      # list of (replay_path, no_input_found)
        self.known_seen = []
        self.cov = {}
        os.makedirs(CACHE, exist_ok=True)
        os.makedirs(os.path.join(VERIF, "replay"), exist_ok=True)
        os.makedirs(os.path.join(VERIF, "evidence"), exist_ok=True)

    def log(self, *a):
        print("[%s %6.1fs]" % (self.prop, time.time() - self.t0), *a, flush=True)

# ---------------------------------------------------------------- builds
def build_harness(ctx):
    """cargo build of the harness against /repo's working tree with hooks on."""
    if REPO != "/repo":
        raise SystemExit("VERIF_REPO other than /repo is not supported by the harness path dependency")
    lock_src = os.path.join(REPO, "Cargo.lock")
    lock_dst = os.path.join(HARNESS, "Cargo.lock")
    if not os.path.exists(lock_dst):
        import shutil; shutil.copy(lock_src, lock_dst)
    rc, out, err = sh(["cargo", "build", "--offline"], cwd=HARNESS)
    if rc != 0:
        ctx.log("harness build failed"); sys.stderr.write(err[-4000:])
        return False
    return True

def extract_tables(ctx):
    """Translator: regenerate Generated/Tables.lean from /repo source. Returns (ok, message)."""
    rc, out, err = sh([EXTRACT, REPO, os.path.join(LEAN, "TypifyModel", "Generated")])
    if rc != 0:
        return False, err.strip()
    return True, ""

def lean_build(ctx, targets):
    rc, out, err = sh(["lake", "build"] + targets, cwd=LEAN)
    return rc == 0, out + err

def failing_decls(log):
    """names/locations of failing proof obligations from a lake build log"""
    return sorted(set(re.findall(r"error: (TypifyModel/[^:]+:\d+:\d+)", log)))

def audit(ctx, prop):
    """#print axioms for every property theorem; returns (ok, {thm: [axioms]})"""
    f = os.path.join("TypifyModel", "Audit", prop + ".lean")
    rc, out, err = sh(["lake", "env", "lean", f], cwd=LEAN)
    res = {}
    for m in re.finditer(r"'([^']+)' depends on axioms: \[([^\]]*)\]", out.replace("\n", " ")):
        res[m.group(1)] = [a.strip() for a in m.group(2).split(",") if a.strip()]
    for m in re.finditer(r"'([^']+)' does not depend on any axioms", out):
        res[m.group(1)] = []
    ok = rc == 0 and res and all(set(v) <= STD_AXIOMS for v in res.values())
    return ok, res

ESCAPES = re.compile(r"\b(sorry|admit|native_decide|bv_decide|implemented_by|unsafe)\b|^axiom |maxHeartbeats 0")
def grep_escapes(files):
    hits = []
    for f in files:
        incomment = False
        for i, line in enumerate(open(f, encoding="utf-8")):
            # block comments and docstrings (`/-`, `/--`, `/-!` ... `-/`) are not code; text before the opener on the
            # same line is; a line comment `--` ends the code part of a line
            if not incomment and "/-" in line:
                code = line.split("/-")[0]; incomment = True
            elif incomment:
                code = ""
            else:
                code = line.split("--")[0]
            if ESCAPES.search(code):
                hits.append("%s:%d" % (f, i + 1))
            if incomment and "-/" in line:
                tail = line.split("-/")[-1]
                incomment = False
                if "/-" not in tail and ESCAPES.search(tail.split("--")[0]): hits.append("%s:%d" % (f, i + 1))
    return hits

def lean_files(rel_list):
    return [os.path.join(LEAN, "TypifyModel", r) for r in rel_list]

def count_obligations(files):
    n = 0
    for f in files:
        for line in open(f, encoding="utf-8"):
            if re.match(r"\s*(theorem|lemma|example|instance)\b", line):
                n += 1
    return n

# ---------------------------------------------------------------- correspondence
def run_side(side, slice_, lines, tag=None):
    """side: 'impl' (harness binary tvh_<slice>) or 'model' (Lean driver drv_<slice>)"""
    binary = tvh(slice_) if side == "impl" else drv(slice_)
    tag = tag or side
    path = os.path.join(CACHE, "in_%s_%s.txt" % (slice_, tag))
    with open(path, "w") as f:
        f.write("\n".join(lines) + "\n")
    with open(path) as fin:
        p = subprocess.run([binary], stdin=fin, capture_output=True, text=True, env=ENV)
    if p.returncode != 0:
        raise RuntimeError("%s %s failed: %s" % (binary, slice_, p.stderr[-2000:]))
    out = p.stdout.split("\n")
    if out and out[-1] == "": out.pop()
    return out

def run_isolating(binary, lines):
    """Run a line-protocol binary over `lines`; a request that kills the process (stack overflow in typify is not a
    catchable panic) gets the answer None and the rest is re-run after it. Returns a list as long as `lines`."""
    out = [None] * len(lines); start = 0
    def go(ls):
        p = subprocess.run([binary], input="".join(l + "\n" for l in ls), capture_output=True, text=True, env=ENV)
        got = p.stdout.split("\n")
        if got and got[-1] == "": got.pop()
        return p.returncode, got
    while start < len(lines):
        rc, got = go(lines[start:])
        if rc == 0 and len(got) == len(lines) - start:
            out[start:] = got; break
        got = got[:len(lines) - start]
        culprit = start + len(got)
        if culprit < len(lines) and go([lines[culprit]])[0] != 0:
            out[start:culprit] = got
        else:
            # answers were lost in a buffer, or the death depends on earlier requests: one by one from `start`
            culprit = None
            for i in range(start, len(lines)):
                rc1, g1 = go([lines[i]])
                if rc1 != 0 or len(g1) != 1: culprit = i; break
                out[i] = g1[0]
            if culprit is None: break
        out[culprit] = None; start = culprit + 1
    return out

def run_pair(ctx, slice_, lines):
    """feed the same request lines to the implementation harness and to the Lean driver"""
    impl = run_side("impl", slice_, lines)
    model = run_side("model", slice_, lines)
    if len(impl) != len(lines) or len(model) != len(lines):
        raise RuntimeError("line count mismatch: %d requests, %d impl, %d model" % (len(lines), len(impl), len(model)))
    return impl, model

# ---------------------------------------------------------------- findings / reporting
def load_findings(prop):
    p = os.path.join(VERIF, "KNOWN_FINDINGS.json")
    if not os.path.exists(p): return []
    return [f for f in json.load(open(p)).get("findings", []) if f["property"] == prop]

def write_replay(ctx, obj):
    n = len(ctx.violations)
    path = os.path.join(VERIF, "replay", "%s-%d.json" % (ctx.prop, n))
    with open(path, "w") as f:
        json.dump(obj, f, indent=1, sort_keys=True)
    return path

def violation(ctx, replay_obj, no_input=False):
    path = write_replay(ctx, replay_obj)
    ctx.violations.append((path, no_input))
    print("VIOLATION property=%s replay=%s%s" % (ctx.prop, path, " no-failing-input-found" if no_input else ""), flush=True)

def known(ctx, finding):
    ctx.known_seen.append(finding["id"])
    print("KNOWN-FINDING: property=%s %s" % (ctx.prop, finding["what"]), flush=True)

def write_evidence(ctx, level, coverage, assumptions):
    ev = {
        "property_id": ctx.prop, "tier": ctx.tier, "seed": ctx.seed, "level": level,
        "coverage": coverage, "assumptions": assumptions,
        "wall_s": round(time.time() - ctx.t0, 2), "violations": len(ctx.violations),
        "known_findings_seen": ctx.known_seen, "notes": ctx.notes,
    }
    with open(os.path.join(VERIF, "evidence", ctx.prop + ".json"), "w") as f:
        json.dump(ev, f, indent=1)

def string_formats_table():
    """rows (format, path, impls) of the T2 table regenerated from convert_string on this run, and the fallback path"""
    p = os.path.join(LEAN, "TypifyModel", "Generated", "StringFormats.lean")
    if not os.path.exists(p): return [], None
    txt = open(p, encoding="utf-8").read()
    row = re.compile(r'⟨("(?:[^"\\]|\\.)*"), ("(?:[^"\\]|\\.)*"), \[([^\]]*)\], \[([^\]]*)\]⟩')
    head, _, tail = txt.partition("def stringFormatFallback")
    rows = [(json.loads(m.group(1)), json.loads(m.group(2)), json.loads("[" + m.group(3) + "]")) for m in row.finditer(head)]
    fb = row.search(tail)
    return rows, (json.loads(fb.group(2)) if fb else None)

TRUSTED_BASE = [
    "Lean 4.33 kernel and elaborator (axioms per theorem listed under coverage.axioms; only propext, Classical.choice, Quot.sound accepted)",
    "the translator /verif/harness/src/bin/extract.rs (regenerates Generated/Tables.lean from /repo source on every run)",
    "the correspondence harness /verif/harness (tvh) and Lean driver (drv): differential tie of the hand-written model to the implementation, bounded by the generated cases",
    "the statement of the property theorems and the Python oracle /verif/tools/props/*.py used for the failing-input search",
]

def proof_stage(ctx, prop, proof_targets, proof_files, slices=()):
    """steps 1-2 of a check: translate, prove, audit. Returns dict with status."""
    st = {"tables_ok": True, "proof_ok": True, "audit_ok": True, "broken": []}
    ok, msg = extract_tables(ctx)
    if not ok:
        st["tables_ok"] = False; st["broken"].append("translator: " + msg)
        ctx.log("translator failed:", msg)
    dok, dlog = lean_build(ctx, ["drv_" + x for x in slices]) if slices else (True, "")
    st["driver_ok"] = dok
    if not dok:
        st["broken"].append("model driver does not build: " + ",".join(failing_decls(dlog)))
    ok, log = lean_build(ctx, proof_targets)
    if not ok:
        st["proof_ok"] = False
        st["broken"] += ["proof obligation fails at " + d for d in failing_decls(log)] or ["lake build failed"]
        ctx.log("lean build failed:", st["broken"])
        st["log"] = log[-3000:]
    files = lean_files(proof_files)
    st["obligations"] = count_obligations(files)
    st["discharged"] = st["obligations"] if ok else 0
    esc = grep_escapes(files)
    if esc:
        st["audit_ok"] = False; st["broken"].append("escape hatch in " + ",".join(esc))
    if ok:
        aok, ax = audit(ctx, prop)
        st["axioms"] = ax
        if not aok:
            st["audit_ok"] = False; st["broken"].append("axiom audit failed: %r" % ax)
    return st

"""Generator of universes of Rust type definitions (serde + schemars derives) for C04 (stdlib only).

A universe U is a JSON-able dict {"name", "types": [TypeDef], "roots": [type names]} (see the constructors
below). For the same U this module emits
  rust_source(U)   the Rust items (`#[derive(Serialize, Deserialize, JsonSchema, Debug, Clone, PartialEq)]`)
  ir_dump(U)       the SAME types as typify's IR, in exactly the shape of `TypeSpace::verif_dump()`, so that the
                   Lean driver reads it unchanged and `Serde.de` / `Serde.se` give the origin types their meaning
  gen_value(..)    sample values of a type in their `serde_json::to_value` form
All randomness comes from the `random.Random` handed in.

Type expressions (JSON lists):  ["bool"] ["int", "u8"|..|"usize"|"isize"] ["float", "f32"|"f64"] ["string"] ["unit"]
  ["option", T] ["vec", T] ["box", T] ["map", "BTreeMap"|"HashMap", T] ["set", "BTreeSet"|"HashSet", T]
  ["tuple", [T..]] ["array", T, n] ["ref", Name]    and, only in hand-written probes, ["char"]
TypeDefs: {"kind": "struct", "name", "rename_all", "deny", "fields": [Field]}
          {"kind": "tuple_struct", "name", "tys": [T..]}  {"kind": "newtype_struct", "name", "ty": T}  {"kind": "unit_struct", "name"}
          {"kind": "enum", "name", "tag": "external"|"untagged"|{"internal": t}|{"adjacent": [t, c]}, "rename_all", "deny",
           "variants": [{"ident", "rename", "kind": "unit"|"newtype"|"tuple"|"struct", "ty"|"tys"|"fields"}]}
Field: {"ident", "rename", "ty", "mode": "req"|"default"|"default_skip"|"default_fn"|"flatten"(probes only), "dvalue"}
"""
import json

INT_RANGE = {
    "i8": (-2**7, 2**7 - 1), "u8": (0, 2**8 - 1), "i16": (-2**15, 2**15 - 1), "u16": (0, 2**16 - 1),
    "i32": (-2**31, 2**31 - 1), "u32": (0, 2**32 - 1), "i64": (-2**63, 2**63 - 1), "u64": (0, 2**64 - 1),
    "usize": (0, 2**64 - 1), "isize": (-2**63, 2**63 - 1),
}
# what the origin IR says for the pointer-sized types (64-bit target): the Serde model has no `usize`
IR_INT_NAME = {"usize": "u64", "isize": "i64"}

FIELD_RULES = ["camelCase", "PascalCase", "SCREAMING_SNAKE_CASE", "kebab-case", "SCREAMING-KEBAB-CASE", "UPPERCASE", "snake_case", "lowercase"]
VARIANT_RULES = ["camelCase", "snake_case", "SCREAMING_SNAKE_CASE", "kebab-case", "SCREAMING-KEBAB-CASE", "lowercase", "UPPERCASE", "PascalCase"]


# --------------------------------------------------------------------------- serde's rename_all (serde_derive internals/case.rs)
def _variant_snake(v):
    out = ""
    for i, ch in enumerate(v):
        if i > 0 and ch.isupper():
            out += "_"
        out += ch.lower()
    return out


def rename_variant(rule, v):
    if rule in (None, "PascalCase"): return v
    if rule == "lowercase": return v.lower()
    if rule == "UPPERCASE": return v.upper()
    if rule == "camelCase": return v[:1].lower() + v[1:]
    if rule == "snake_case": return _variant_snake(v)
    if rule == "SCREAMING_SNAKE_CASE": return _variant_snake(v).upper()
    if rule == "kebab-case": return _variant_snake(v).replace("_", "-")
    if rule == "SCREAMING-KEBAB-CASE": return _variant_snake(v).upper().replace("_", "-")
    raise ValueError(rule)


def rename_field(rule, f):
    if rule in (None, "lowercase", "snake_case"): return f
    if rule == "UPPERCASE": return f.upper()
    if rule in ("PascalCase", "camelCase"):
        out, cap = "", True
        for ch in f:
            if ch == "_": cap = True
            elif cap: out += ch.upper(); cap = False
            else: out += ch
        return out if rule == "PascalCase" else out[:1].lower() + out[1:]
    if rule == "SCREAMING_SNAKE_CASE": return f.upper()
    if rule == "kebab-case": return f.replace("_", "-")
    if rule == "SCREAMING-KEBAB-CASE": return f.upper().replace("_", "-")
    raise ValueError(rule)


def ident_base(ident):
    """serde names a raw identifier `r#type` by its unraw form"""
    return ident[2:] if ident.startswith("r#") else ident


def field_wire(f, rule):
    return f["rename"] if f.get("rename") is not None else rename_field(rule, ident_base(f["ident"]))


def variant_wire(v, rule):
    return v["rename"] if v.get("rename") is not None else rename_variant(rule, v["ident"])


# --------------------------------------------------------------------------- Rust source
def rs_str(s):
    out = []
    for ch in s:
        if ch in '"\\': out.append("\\" + ch)
        elif ch < " " or ch == "\x7f": out.append("\\u{%x}" % ord(ch))
        else: out.append(ch)
    return '"' + "".join(out) + '"'


def rust_type(te):
    k = te[0]
    if k == "bool": return "bool"
    if k in ("int", "float"): return te[1]
    if k == "string": return "String"
    if k == "char": return "char"
    if k == "unit": return "()"
    if k == "option": return "Option<%s>" % rust_type(te[1])
    if k == "vec": return "Vec<%s>" % rust_type(te[1])
    if k == "box": return "Box<%s>" % rust_type(te[1])
    if k == "map": return "%s<String, %s>" % (te[1], rust_type(te[2]))
    if k == "set": return "%s<%s>" % (te[1], rust_type(te[2]))
    if k == "tuple": return "(%s,)" % ", ".join(rust_type(t) for t in te[1])
    if k == "array": return "[%s; %d]" % (rust_type(te[1]), te[2])
    if k == "ref": return te[1]
    raise ValueError(te)


def rust_literal(te, v):
    """Rust expression of type `te` for the JSON value v (only the shapes `default_fn` uses)"""
    k = te[0]
    if k == "bool": return "true" if v else "false"
    if k == "int": return "%d" % v if v >= 0 else "(%d)" % v
    if k == "float": return "%r_%s" % (float(v), te[1])
    if k == "string": return "%s.to_string()" % rs_str(v)
    if k == "option": return "None" if v is None else "Some(%s)" % rust_literal(te[1], v)
    if k == "vec": return "vec![%s]" % ", ".join(rust_literal(te[1], x) for x in v)
    if k == "map":
        return "::std::collections::%s::from([%s])" % (te[1], ", ".join("(%s.to_string(), %s)" % (rs_str(kk), rust_literal(te[2], x)) for kk, x in sorted(v.items())))
    raise ValueError(te)


SKIP_FN = {"option": "Option::is_none", "vec": "Vec::is_empty"}


def _field_attrs(f, fnname):
    a = []
    if f.get("rename") is not None: a.append("rename = %s" % rs_str(f["rename"]))
    m = f["mode"]
    if m == "default": a.append("default")
    elif m == "default_skip":
        k = f["ty"][0]
        skip = SKIP_FN.get(k) or ("%s::is_empty" % f["ty"][1])
        a += ["default", "skip_serializing_if = %s" % rs_str(skip)]
    elif m == "default_fn": a.append("default = %s" % rs_str(fnname))
    elif m == "flatten": a.append("flatten")
    return "#[serde(%s)] " % ", ".join(a) if a else ""


DERIVE = "#[derive(Serialize, Deserialize, JsonSchema, Debug, Clone, PartialEq)]"


def rust_source(U):
    out = []
    fns = []

    def fields_src(owner, fields, pub):
        lines = []
        for f in fields:
            fn = "dflt_%s_%s" % (owner.lower(), ident_base(f["ident"]))
            if f["mode"] == "default_fn":
                fns.append("fn %s() -> %s { %s }" % (fn, rust_type(f["ty"]), rust_literal(f["ty"], f["dvalue"])))
            lines.append("    %s%s%s: %s," % (_field_attrs(f, fn), "pub " if pub else "", f["ident"], rust_type(f["ty"])))
        return lines

    for d in U["types"]:
        k, name = d["kind"], d["name"]
        cont = []
        if d.get("rename_all"): cont.append("rename_all = %s" % rs_str(d["rename_all"]))
        if d.get("deny"): cont.append("deny_unknown_fields")
        if k == "enum":
            t = d["tag"]
            if t == "untagged": cont.append("untagged")
            elif isinstance(t, dict) and "internal" in t: cont.append("tag = %s" % rs_str(t["internal"]))
            elif isinstance(t, dict): cont.append("tag = %s, content = %s" % (rs_str(t["adjacent"][0]), rs_str(t["adjacent"][1])))
        out.append(DERIVE)
        if cont: out.append("#[serde(%s)]" % ", ".join(cont))
        if k == "struct":
            out.append("pub struct %s {" % name); out += fields_src(name, d["fields"], True); out.append("}")
        elif k == "tuple_struct":
            out.append("pub struct %s(%s);" % (name, ", ".join("pub " + rust_type(t) for t in d["tys"])))
        elif k == "newtype_struct":
            out.append("pub struct %s(pub %s);" % (name, rust_type(d["ty"])))
        elif k == "unit_struct":
            out.append("pub struct %s;" % name)
        elif k == "enum":
            out.append("pub enum %s {" % name)
            for v in d["variants"]:
                at = "    #[serde(rename = %s)]\n" % rs_str(v["rename"]) if v.get("rename") is not None else ""
                if v["kind"] == "unit": out.append("%s    %s," % (at, v["ident"]))
                elif v["kind"] == "newtype": out.append("%s    %s(%s)," % (at, v["ident"], rust_type(v["ty"])))
                elif v["kind"] == "tuple": out.append("%s    %s(%s)," % (at, v["ident"], ", ".join(rust_type(t) for t in v["tys"])))
                else:
                    out.append("%s    %s {" % (at, v["ident"]))
                    out += ["    " + l for l in fields_src(name + "_" + v["ident"], v["fields"], False)]
                    out.append("    },")
            out.append("}")
        else:
            raise ValueError(k)
        out.append("")
    return "\n".join(out + fns) + "\n"


# --------------------------------------------------------------------------- the same universe as typify IR
SKIP_VALUE = {"option": None, "vec": [], "map": {}}


def ir_dump(U):
    """-> (dump in verif_dump()'s shape, {type name: id}). Notes on the reading:
    tuple / newtype / unit structs are transparent newtypes over a tuple / the inner type / `()`; usize, isize are
    u64, i64; `char` is a string newtype of exactly one scalar value; sets are `set` entries (the Serde model reads
    them as sequences); field states: no attribute -> required, `default` (+ skip on Option/Vec/map) -> optional,
    `default` without skip on Option/Vec/map -> default(null/[]/{}), `default = "fn"` -> default(value)."""
    names = {d["name"]: i for i, d in enumerate(U["types"])}
    entries = {}
    memo = {}
    nxt = [len(U["types"])]

    def fresh(e):
        i = nxt[0]; nxt[0] += 1
        e.setdefault("impls", []); e.setdefault("extra_derives", [])
        entries[str(i)] = e
        return i

    def tid(te):
        if te[0] == "ref": return names[te[1]]
        key = json.dumps(te)
        if key in memo: return memo[key]
        k = te[0]
        if k == "bool": e = {"kind": "boolean"}
        elif k == "int": e = {"kind": "integer", "name": IR_INT_NAME.get(te[1], te[1])}
        elif k == "float": e = {"kind": "float", "name": te[1]}
        elif k == "string": e = {"kind": "string"}
        elif k == "unit": e = {"kind": "unit"}
        elif k == "char":
            e = {"kind": "newtype", "name": "Char", "rename": None, "default": None, "type_id": tid(["string"]),
                 "constraints": {"string": {"max": 1, "min": 1, "pattern": None}}}
        elif k in ("option", "vec", "box"): e = {"kind": k, "id": tid(te[1])}
        elif k == "map": e = {"kind": "map", "key": tid(["string"]), "value": tid(te[2])}
        elif k == "set": e = {"kind": "set", "id": tid(te[2])}
        elif k == "tuple": e = {"kind": "tuple", "ids": [tid(t) for t in te[1]]}
        elif k == "array": e = {"kind": "array", "id": tid(te[1]), "len": te[2]}
        else: raise ValueError(te)
        i = fresh(e); memo[key] = i
        return i

    def props(fields, rule):
        ps = []
        for f in fields:
            w = field_wire(f, rule)
            k = f["ty"][0]; m = f["mode"]
            if m == "req": st = "required"
            elif m == "default_skip": st = "optional"
            elif m == "default": st = {"default": SKIP_VALUE[k]} if k in SKIP_VALUE else "optional"
            elif m == "default_fn": st = {"default": f["dvalue"]}
            elif m == "flatten": st = "required"
            else: raise ValueError(m)
            rn = "flatten" if m == "flatten" else ({"rename": w} if w != f["ident"] else None)
            ps.append({"name": f["ident"], "rename": rn, "state": st, "type_id": tid(f["ty"])})
        return ps

    for i, d in enumerate(U["types"]):
        k = d["kind"]
        base = {"name": d["name"], "rename": None, "default": None, "impls": [], "extra_derives": []}
        if k == "struct":
            e = dict(base, kind="struct", props=props(d["fields"], d.get("rename_all")), deny=bool(d.get("deny")))
        elif k == "tuple_struct":
            e = dict(base, kind="newtype", type_id=tid(["tuple", d["tys"]]), constraints=None)
        elif k == "newtype_struct":
            e = dict(base, kind="newtype", type_id=tid(d["ty"]), constraints=None)
        elif k == "unit_struct":
            e = dict(base, kind="newtype", type_id=tid(["unit"]), constraints=None)
        elif k == "enum":
            vs = []
            for v in d["variants"]:
                if v["kind"] == "unit": det = "simple"
                elif v["kind"] == "newtype": det = {"item": tid(v["ty"])}
                elif v["kind"] == "tuple": det = {"tuple": [tid(t) for t in v["tys"]]}
                else: det = {"struct": props(v["fields"], None)}
                vs.append({"raw_name": variant_wire(v, d.get("rename_all")), "ident_name": v["ident"], "details": det})
            e = dict(base, kind="enum", tag=d["tag"], variants=vs, deny=bool(d.get("deny")), bespoke=[])
        else:
            raise ValueError(k)
        entries[str(i)] = e
    dump = {"next_id": nxt[0], "entries": entries, "name_to_id": dict(names),
            "ref_to_id": {"def:" + n: i for n, i in names.items()}, "type_to_id": [], "definitions": [],
            "uses": {"chrono": False, "uuid": False, "serde_json": False, "regress": False}, "defaults": []}
    return dump, names


# --------------------------------------------------------------------------- universe generation
TYPE_NAMES = ["Alpha", "Beta", "Gamma", "Delta", "Epsilon", "Zeta", "Eta", "Theta", "Iota", "Kappa", "Lambda", "Mu", "Nu",
              "Xi", "Omicron", "Pi", "Rho", "Sigma", "Tau", "Upsilon", "Phi", "Chi", "Psi", "Omega", "HttpRequest",
              "XMLNode", "Point2D", "Item", "Config", "TreeNode", "Shape", "Event", "UserId", "Marker", "Pair"]
FIELD_IDENTS = ["id", "name", "value", "count", "items", "first_name", "last_name", "is_active", "x", "y", "data", "kind_of",
                "created_at", "tags", "meta", "left", "right", "next", "children", "parent_id", "a", "b", "c", "level2_key",
                "r#type", "r#match", "size_kb", "opt", "flag", "inner"]
VARIANT_IDENTS = ["Unit", "Empty", "First", "Second", "Leaf", "Node", "Point", "Circle", "Square", "HttpError", "IoError",
                  "Text", "Number", "Flag", "Many", "Wrapped", "Named", "Pair", "A", "B", "C", "XmlDoc", "V2"]
RENAMES = ["foo-bar", "Foo Bar", "type", "fooBar", "$ref", "@id", "1st", "x.y", "snake_case_name", "ünï", "kebab-case-name",
           "UPPER", "with space", "self", "a/b", "Ok", "None", "_under", "value#1"]
TAGS = ["type", "kind", "t", "tag", "@type", "op"]
CONTENTS = ["content", "c", "value", "data", "payload"]
INT_NAMES = ["i8", "u8", "i16", "u16", "i32", "u32", "i64", "u64", "usize", "isize"]

DEFAULT_FEATURES = frozenset({
    "struct", "tuple_struct", "newtype_struct", "unit_struct", "enum_external", "enum_internal", "enum_adjacent", "enum_untagged",
    "rename", "rename_all", "default", "default_fn", "skip", "deny", "vec", "option", "box", "map", "set", "tuple", "array",
    "refs", "recursion", "float", "unit", "ptr_ints",
})


def _sanitized(s):
    return "".join(ch for ch in s.lower() if ch.isalnum())


class _Gen:
    def __init__(self, rng, name, n, features):
        self.rng, self.name, self.n, self.F = rng, name, n, set(features)
        self.skel = []          # [(name, kind, tag)]
        self.types = []

    # ---- skeleton: names and kinds first, so that forward references know what they point at
    def skeleton(self):
        r = self.rng
        names = r.sample(TYPE_NAMES, self.n)
        kinds = []
        w = [("struct", 42), ("enum", 36), ("tuple_struct", 7), ("newtype_struct", 9), ("unit_struct", 6)]
        w = [(k, x) for k, x in w if k in self.F or (k == "enum" and any(f.startswith("enum_") for f in self.F))]
        for i in range(self.n):
            k = r.choices([a for a, _ in w], [b for _, b in w])[0]
            tag = None
            if k == "enum":
                tw = [("external", 35, "enum_external"), ("internal", 20, "enum_internal"), ("adjacent", 25, "enum_adjacent"), ("untagged", 20, "enum_untagged")]
                tw = [(a, b) for a, b, f in tw if f in self.F]
                tag = r.choices([a for a, _ in tw], [b for _, b in tw])[0]
                if tag == "internal": tag = {"internal": r.choice(TAGS)}
                elif tag == "adjacent":
                    t = r.choice(TAGS); tag = {"adjacent": [t, r.choice([c for c in CONTENTS if c != t])]}
            kinds.append((names[i], k, tag))
        self.skel = kinds

    def may_be_null(self, te, i):
        """could a value of this type serialise as `null`? (then `Option<te>` is not a retraction in serde itself)"""
        k = te[0]
        if k in ("unit", "option"): return True
        if k == "box": return self.may_be_null(te[1], i)
        if k == "ref":
            j = [s[0] for s in self.skel].index(te[1])
            kind, tag = self.skel[j][1], self.skel[j][2]
            if kind == "unit_struct": return True
            if kind == "newtype_struct":
                return self.may_be_null(self.types[j]["ty"], i) if j < len(self.types) else True
            if kind == "enum" and tag == "untagged": return True
        return False

    # ---- type expressions
    def scalar(self, hashable=False):
        r = self.rng
        c = [("string", 5), ("int", 7), ("bool", 2)]
        if not hashable and "float" in self.F: c.append(("float", 2))
        k = r.choices([a for a, _ in c], [b for _, b in c])[0]
        if k == "int":
            if "ptr_ints" in self.F and r.random() < 0.06: return ["int", r.choice(["usize", "isize"])]
            return ["int", r.choice(INT_NAMES[:8])]
        if k == "float": return ["float", r.choice(["f64", "f64", "f32"])]
        return [k]

    def hashable(self, depth):
        r = self.rng
        if depth > 0 and "tuple" in self.F and r.random() < 0.2:
            return ["tuple", [self.hashable(0) for _ in range(r.randint(2, 3))]]
        return self.scalar(hashable=True)

    def ref_to(self, i, guarded):
        """a reference from the body of type i: earlier types freely, self / later types only where guarded"""
        r = self.rng
        if "refs" not in self.F: return None
        lo = list(range(0, i))
        hi = list(range(i, self.n)) if (guarded and "recursion" in self.F and r.random() < 0.3) else []
        pool = lo + hi * 2
        if not pool: return None
        return ["ref", self.skel[r.choice(pool)][0]]

    def te(self, i, depth, guarded=False, transparent=False):
        """a random type expression inside the body of type i. `transparent`: the position is read without consuming
        any JSON structure (untagged newtype variant, newtype struct): a forward reference through Option / Box there
        could close a loop serde never leaves, so none is made"""
        r = self.rng
        F = self.F
        c = [("scalar", 30)]
        if depth > 0:
            for k, w in (("option", 10), ("vec", 10), ("box", 3), ("map", 6), ("set", 4), ("tuple", 5), ("array", 4)):
                if k in F: c.append((k, w))
        c.append(("ref", 22 if depth > 0 else 12))
        if "unit" in F: c.append(("unit", 1))
        k = r.choices([a for a, _ in c], [b for _, b in c])[0]
        if k == "scalar": return self.scalar()
        if k == "unit": return ["unit"]
        if k == "ref":
            t = self.ref_to(i, guarded)
            return t if t else self.scalar()
        if k == "option":
            # Option<Box<Self>> is the classic recursive link
            if "recursion" in F and "box" in F and not transparent and r.random() < 0.15:
                t = self.ref_to(i, True)
                if t and not self.may_be_null(t, i): return ["option", ["box", t]]
            for _ in range(8):
                t = self.te(i, depth - 1, guarded, transparent)
                if not self.may_be_null(t, i): return ["option", t]
            return ["option", self.scalar()]
        if k == "vec": return ["vec", self.te(i, depth - 1, True)]
        if k == "box": return ["box", self.te(i, depth - 1, guarded, transparent)]
        if k == "map": return ["map", r.choice(["BTreeMap", "BTreeMap", "HashMap"]), self.te(i, depth - 1, True)]
        if k == "set": return ["set", r.choice(["BTreeSet", "BTreeSet", "HashSet"]), self.hashable(depth - 1)]
        if k == "tuple":
            n = r.choice([1, 2, 2, 2, 3, 3, 4])
            ts = [self.te(i, depth - 1, guarded) for _ in range(n)]
            if "recursion" in F and "box" in F and not transparent and r.random() < 0.25:
                # the recursive link inside a tuple: (.., Option<Box<Self or a later type>>, ..)
                t = self.ref_to(i, True)
                if t and not self.may_be_null(t, i): ts[r.randrange(n)] = ["option", ["box", t]]
            return ["tuple", ts]
        if k == "array":
            if "recursion" in F and "box" in F and not transparent and r.random() < 0.15:
                t = self.ref_to(i, True)
                if t and not self.may_be_null(t, i): return ["array", ["option", ["box", t]], r.randint(1, 3)]
            return ["array", self.te(i, depth - 1, guarded), r.randint(1, 4)]
        raise ValueError(k)

    # ---- fields
    def fields(self, i, n, reserved=(), allow_rename=True, guarded=False):
        r = self.rng
        F = self.F
        idents = r.sample([x for x in FIELD_IDENTS if ident_base(x) not in reserved], n)
        out = []
        used = set(_sanitized(x) for x in reserved)
        for ident in idents:
            f = {"ident": ident, "rename": None, "ty": self.te(i, 2, guarded), "mode": "req"}
            if allow_rename and "rename" in F and r.random() < 0.18:
                cand = r.choice(RENAMES)
                if _sanitized(cand) and _sanitized(cand) not in used and cand not in reserved: f["rename"] = cand
            k = f["ty"][0]
            roll = r.random()
            if k in ("option", "vec", "map") and "skip" in F and roll < 0.30: f["mode"] = "default_skip"
            elif "default" in F and roll < 0.50 and self.has_default(f["ty"]): f["mode"] = "default"
            elif "default_fn" in F and roll < 0.62 and k in ("int", "string", "bool", "float"):
                f["mode"] = "default_fn"; f["dvalue"] = self.scalar_value(f["ty"], nonzero=True)
            elif "default_fn" in F and roll < 0.66 and f["ty"] == ["vec", ["int", "u8"]]:
                f["mode"] = "default_fn"; f["dvalue"] = [1, 2]
            elif "default_fn" in F and roll < 0.75 and k == "map" and f["ty"][2][0] in ("int", "string", "bool"):
                # a NON-EMPTY map as the default: an explicitly empty map is then a value of its own, not "absent"
                f["mode"] = "default_fn"; f["dvalue"] = {"tier": self.scalar_value(f["ty"][2], nonzero=True)}
            elif "default_fn" in F and roll < 0.75 and k == "vec" and f["ty"][1][0] in ("string", "bool"):
                f["mode"] = "default_fn"; f["dvalue"] = [self.scalar_value(f["ty"][1], nonzero=True)]
            elif "default_fn" in F and roll < 0.80 and k == "option" and f["ty"][1][0] in ("int", "string", "bool"):
                # Some(value) as the default of a nullable member, the ZERO value of the wrapped type included
                zero = {"int": 0, "string": "", "bool": False}[f["ty"][1][0]]
                f["mode"] = "default_fn"; f["dvalue"] = zero if r.random() < 0.6 else self.scalar_value(f["ty"][1], nonzero=True)
            elif "default_fn" in F and roll < 0.84 and k in ("int", "string", "bool"):
                f["mode"] = "default_fn"; f["dvalue"] = {"int": 0, "string": "", "bool": False}[k]      # a function returning the zero value
            used.add(_sanitized(f["rename"] if f["rename"] is not None else ident))
            out.append(f)
        return out

    def has_default(self, te):
        """std `Default` without any derive on the universe's own types"""
        k = te[0]
        if k in ("bool", "int", "float", "string", "unit", "option", "vec", "map", "set"): return True
        if k == "box": return self.has_default(te[1])
        if k == "tuple": return all(self.has_default(t) for t in te[1])
        if k == "array": return self.has_default(te[1])
        return False

    def scalar_value(self, te, nonzero=False):
        r = self.rng
        k = te[0]
        if k == "bool": return True if nonzero else r.random() < 0.5
        if k == "int":
            lo, hi = INT_RANGE[te[1]]
            # a default beyond 32 bits on usize / isize would be the known narrowing defect at add time: keep defaults small
            return r.choice([1, 7, 42, 100, hi if hi < 2**31 else 1000] + ([-1, -5] if lo < 0 else []))
        if k == "float": return r.choice([1.5, -0.25, 2.0, 1024.0, 0.125])
        if k == "string": return r.choice(["dflt", "x", "hello world", "N/A"])
        raise ValueError(te)

    # ---- definitions
    def define(self, i):
        r = self.rng
        F = self.F
        name, kind, tag = self.skel[i]
        if kind == "struct":
            d = {"kind": "struct", "name": name, "rename_all": None, "deny": "deny" in F and r.random() < 0.3,
                 "fields": None}
            if "rename_all" in F and r.random() < 0.35: d["rename_all"] = r.choice(FIELD_RULES)
            d["fields"] = self.fields(i, 0 if r.random() < 0.06 else r.randint(1, 5))        # `struct S {}` now and then
            d["fields"] = self.dedupe_wires(d["fields"], d["rename_all"])
            return d
        if kind == "tuple_struct":
            tys = [self.te(i, 1) for _ in range(r.randint(2, 3))]
            if "recursion" in F and "box" in F and r.random() < 0.3:
                # a recursive tuple struct: struct History(u32, Option<Box<History>>)
                t = self.ref_to(i, True)
                if t and not self.may_be_null(t, i): tys[r.randrange(1, len(tys))] = ["option", ["box", t]]
            return {"kind": kind, "name": name, "tys": tys}
        if kind == "newtype_struct":
            return {"kind": kind, "name": name, "ty": self.te(i, 2, False, True)}
        if kind == "unit_struct":
            return {"kind": kind, "name": name}
        d = {"kind": "enum", "name": name, "tag": tag, "rename_all": None, "deny": "deny" in F and r.random() < 0.12, "variants": []}
        if "rename_all" in F and r.random() < 0.35: d["rename_all"] = r.choice(VARIANT_RULES)
        nv = r.randint(2, 5)
        idents = r.sample(VARIANT_IDENTS, nv)
        internal = isinstance(tag, dict) and "internal" in tag
        reserved = [tag["internal"]] if internal else []
        # look-alikes: an internally tagged enum whose struct variants all carry ONE field of the same name (what an
        # adjacently tagged enum looks like on the wire, except that the field may be omitted); an untagged enum over
        # integer / optional float / string payloads (type-disjoint only if integer and number are told apart)
        lookalike = internal and r.random() < 0.3
        shared = r.choice([x for x in ("body", "value", "data", "content", "payload") if x not in reserved]) if lookalike else None
        if tag == "untagged" and r.random() < 0.25:
            pays = [["int", r.choice(["u32", "i64", "u8"])], ["option", ["float", "f64"]], ["string"]]
            r.shuffle(pays)
            d["variants"] = [{"ident": idn, "rename": None, "kind": "newtype", "ty": ty} for idn, ty in zip(idents, pays)]
            return d
        for vi, ident in enumerate(idents):
            guarded = vi > 0          # variant 0 is the leaf every recursive value can bottom out in
            c = [("unit", 30 if vi == 0 else 22), ("newtype", 26), ("tuple", 14), ("struct", 28)]
            if internal: c = [("unit", 40), ("struct", 60)]
            if tag == "untagged": c = [("unit", 8), ("newtype", 45), ("tuple", 17), ("struct", 30)]
            k = r.choices([a for a, _ in c], [b for _, b in c])[0]
            v = {"ident": ident, "rename": None, "kind": k}
            if "rename" in F and r.random() < 0.15:
                cand = r.choice(RENAMES)
                if _sanitized(cand): v["rename"] = cand
            if k == "newtype":
                if guarded and tag != "untagged" and "recursion" in F and "box" in F and r.random() < 0.25:
                    v["ty"] = ["box", ["ref", name]]
                else:
                    v["ty"] = self.te(i, 2, False, tag == "untagged")
            elif k == "tuple":
                v["tys"] = [self.te(i, 1, False) for _ in range(r.randint(2, 3))]
            elif k == "struct" and lookalike:
                ty = self.te(i, 2, False)
                f = {"ident": shared, "rename": None, "ty": ty, "mode": "req"}
                roll = r.random()
                if ty[0] in ("option", "vec", "map") and "skip" in F and roll < 0.5: f["mode"] = "default_skip"
                elif "default" in F and roll < 0.7 and self.has_default(ty): f["mode"] = "default"
                v["fields"] = [f]
            elif k == "struct":
                # a field-less struct variant `V {}` now and then (an empty map on the wire, not a unit)
                v["fields"] = self.dedupe_wires(self.fields(i, 0 if r.random() < 0.12 else r.randint(1, 3), reserved=reserved), None)
            d["variants"].append(v)
        # distinct wire names (and distinct identifiers after typify's sanitisation)
        seen = set(); keep = []
        for v in d["variants"]:
            w = _sanitized(variant_wire(v, d["rename_all"]))
            if w in seen:
                v["rename"] = None
                w = _sanitized(variant_wire(v, d["rename_all"]))
                if w in seen: continue
            seen.add(w); keep.append(v)
        d["variants"] = keep
        if tag == "untagged":
            # at most one unit variant (they all serialise as null)
            units = [v for v in d["variants"] if v["kind"] == "unit"]
            for v in units[1:]: d["variants"].remove(v)
        return d

    def dedupe_wires(self, fields, rule):
        seen = set(); out = []
        for f in fields:
            w = _sanitized(field_wire(f, rule))
            if w in seen:
                f["rename"] = None
                w = _sanitized(field_wire(f, rule))
                if w in seen: continue
            seen.add(w); out.append(f)
        return out

    def run(self):
        self.skeleton()
        for i in range(self.n):
            self.types.append(self.define(i))
        U = {"name": self.name, "types": self.types}
        U["roots"] = pick_roots(self.rng, U)
        return U


def refs_in(te, acc):
    k = te[0]
    if k == "ref": acc.add(te[1])
    elif k in ("option", "vec", "box"): refs_in(te[1], acc)
    elif k in ("map", "set"): refs_in(te[2], acc)
    elif k == "tuple":
        for t in te[1]: refs_in(t, acc)
    elif k == "array": refs_in(te[1], acc)
    return acc


def type_exprs(d):
    """the type expressions a definition mentions directly"""
    k = d["kind"]
    if k == "struct": return [f["ty"] for f in d["fields"]]
    if k == "tuple_struct": return list(d["tys"])
    if k == "newtype_struct": return [d["ty"]]
    if k == "unit_struct": return []
    out = []
    for v in d["variants"]:
        if v["kind"] == "newtype": out.append(v["ty"])
        elif v["kind"] == "tuple": out += v["tys"]
        elif v["kind"] == "struct": out += [f["ty"] for f in v["fields"]]
    return out


def pick_roots(rng, U, k=3):
    """roots: the types nothing else mentions (they reach the most), then random others, at most k"""
    mentioned = set()
    for d in U["types"]:
        acc = set()
        for te in type_exprs(d): refs_in(te, acc)
        mentioned |= acc - {d["name"]}
    top = [d["name"] for d in U["types"] if d["name"] not in mentioned]
    rest = [d["name"] for d in U["types"] if d["name"] in mentioned]
    rng.shuffle(top); rng.shuffle(rest)
    return (top + rest)[:k]


def gen_universe(rng, name, size=6, features=DEFAULT_FEATURES):
    return _Gen(rng, name, size, features).run()


# --------------------------------------------------------------------------- sample values (their to_value form)
STRINGS = ["", "a", "hello world", "ünï cödé", "quote\"back\\slash", "line\nbreak", "0", "null", "日本語", "with/slash", "{}"]
KEYS = ["k", "key two", "", "a-b", "Z", "ü", "0", "type"]
FLOATS64 = [0.0, 1.0, -1.0, 0.5, -2.25, 1024.0, 3.0, 0.125, 65536.5, -0.0078125, 1e10]
FLOATS32 = [0.0, 1.0, -1.0, 0.5, -2.25, 1024.0, 3.0, 0.125, 4096.5]


def defs_by_name(U):
    return {d["name"]: d for d in U["types"]}


def gen_value(rng, U, te, depth=3, stats=None):
    """a random value of type `te` as serde_json would serialise it"""
    D = defs_by_name(U)
    st = stats if stats is not None else {}

    def note(k): st[k] = st.get(k, 0) + 1

    def val(te, depth):
        k = te[0]
        if k == "bool": return rng.random() < 0.5
        if k == "int":
            lo, hi = INT_RANGE[te[1]]
            c = [0, 1, hi, lo, rng.randint(lo, hi), rng.randint(max(lo, -100), min(hi, 100)), rng.randint(max(lo, -100), min(hi, 100))]
            v = rng.choice(c)
            if te[1] in ("usize", "isize") and not (-2**31 <= v <= 2**31 - 1): note("ptr_int_beyond_32_bits")
            return v
        if k == "float": return rng.choice(FLOATS64 if te[1] == "f64" else FLOATS32)
        if k == "string": return rng.choice(STRINGS)
        if k == "char": return rng.choice(["a", "Z", "ü", "0", "日", " "])
        if k == "unit": return None
        if k == "option":
            if depth <= 0 or rng.random() < 0.3: return None
            return val(te[1], depth)
        if k == "box": return val(te[1], depth)
        if k == "vec":
            if depth <= 0: return []
            return [val(te[1], depth - 1) for _ in range(rng.choice([0, 1, 1, 2, 3]))]
        if k == "map":
            if depth <= 0: return {}
            ks = rng.sample(KEYS, rng.choice([0, 1, 1, 2, 3]))
            if te[1] == "HashMap" and len(ks) > 1: note("hashmap_multi")
            return {kk: val(te[2], depth - 1) for kk in ks}
        if k == "set":
            xs = []; seen = set()
            for _ in range(rng.choice([0, 1, 1, 2, 3])):
                x = val(te[2], 0); s = json.dumps(x)
                if s not in seen: seen.add(s); xs.append(x)
            xs.sort(key=_ord_key)
            if te[1] == "HashSet" and len(xs) > 1: note("hashset_multi")
            return xs
        if k == "tuple": return [val(t, depth) for t in te[1]]
        if k == "array": return [val(te[1], depth) for _ in range(te[2])]
        if k == "ref": return named(D[te[1]], depth - 1)
        raise ValueError(te)

    def fields_obj(fields, rule, depth):
        o = {}
        for f in fields:
            v = val(f["ty"], depth)
            if f["mode"] == "flatten":
                o.update(v); continue
            if f["mode"] == "default_skip" and v == SKIP_VALUE[f["ty"][0]]:
                note("member_skipped"); continue
            o[field_wire(f, rule)] = v
        return o

    def named(d, depth):
        k = d["kind"]
        if k == "struct": return fields_obj(d["fields"], d.get("rename_all"), depth)
        if k == "tuple_struct": return [val(t, depth) for t in d["tys"]]
        if k == "newtype_struct": return val(d["ty"], depth)
        if k == "unit_struct": return None
        vs = d["variants"]
        v = vs[0] if depth <= 0 else rng.choice(vs)
        w = variant_wire(v, d.get("rename_all"))
        tag = d["tag"]
        if v["kind"] == "unit": body = None
        elif v["kind"] == "newtype": body = val(v["ty"], depth)
        elif v["kind"] == "tuple": body = [val(t, depth) for t in v["tys"]]
        else: body = fields_obj(v["fields"], None, depth)
        note("variant_" + v["kind"])
        if (tag == "external" or (isinstance(tag, dict) and "adjacent" in tag)) and v["kind"] == "newtype" and _null_only(D, v["ty"]): note("unit_payload_variant")
        if tag == "external": return w if v["kind"] == "unit" else {w: body}
        if tag == "untagged": return body
        if "internal" in tag:
            if v["kind"] == "unit": return {tag["internal"]: w}
            o = {tag["internal"]: w}; o.update(body); return o
        t, c = tag["adjacent"]
        return {t: w} if v["kind"] == "unit" else {t: w, c: body}

    return val(te, depth)


def _null_only(D, te):
    """a type whose only serialisation is `null` (unit, unit struct, wrappers of those)"""
    if te[0] == "unit": return True
    if te[0] == "box": return _null_only(D, te[1])
    if te[0] == "ref":
        d = D[te[1]]
        return d["kind"] == "unit_struct" or (d["kind"] == "newtype_struct" and _null_only(D, d["ty"]))
    return False


def _ord_key(x):
    """Rust's `Ord` on the hashable sample types (bool < , integers numeric, strings bytewise, tuples lexicographic)"""
    if isinstance(x, bool): return (0, int(x))
    if isinstance(x, int): return (1, x)
    if isinstance(x, str): return (2, x.encode("utf-8"))
    if isinstance(x, list): return (3, [_ord_key(y) for y in x])
    return (4, json.dumps(x))


# --------------------------------------------------------------------------- description (evidence)
def describe(U, acc=None):
    acc = acc if acc is not None else {}

    def n(k, d=1): acc[k] = acc.get(k, 0) + d

    def te_(te):
        k = te[0]
        n("type:" + (k if k not in ("int", "float", "map", "set") else "%s:%s" % (k, te[1])))
        if k in ("option", "vec", "box"): te_(te[1])
        elif k in ("map", "set"): te_(te[2])
        elif k == "tuple":
            n("tuple_arity:%d" % len(te[1]))
            for t in te[1]: te_(t)
        elif k == "array": te_(te[1])

    def fields_(fs):
        for f in fs:
            n("field_mode:" + f["mode"])
            if f.get("rename") is not None: n("field_rename")
            if f["mode"] == "req" and f["ty"][0] == "option": n("field_plain_option")
            te_(f["ty"])

    names = [d["name"] for d in U["types"]]
    for i, d in enumerate(U["types"]):
        k = d["kind"]
        n("def:" + k)
        if d.get("rename_all"): n("rename_all:" + ("struct" if k == "struct" else "enum"))
        if d.get("deny"): n("deny:" + k)
        acc_refs = set()
        for te in type_exprs(d): refs_in(te, acc_refs)
        if any(names.index(r) >= i for r in acc_refs if r in names): n("recursive_or_forward_ref")
        if k == "struct": fields_(d["fields"])
        elif k == "tuple_struct":
            for t in d["tys"]: te_(t)
        elif k == "newtype_struct": te_(d["ty"])
        elif k == "enum":
            tg = d["tag"] if isinstance(d["tag"], str) else list(d["tag"])[0]
            n("enum_tag:" + tg)
            for v in d["variants"]:
                n("variant:%s:%s" % (tg, v["kind"]))
                if v.get("rename") is not None: n("variant_rename")
                if v["kind"] == "newtype": te_(v["ty"])
                elif v["kind"] == "tuple":
                    for t in v["tys"]: te_(t)
                elif v["kind"] == "struct": fields_(v["fields"])
    return acc

"""M0 for the shape dispatch of convert.rs (`convert_schema_object`): the real TypeSpace (harness tvh_disp: the schema becomes the
definition `T`, what it became is read off the IR dump) against Model/Dispatch.lean (drv_disp: the arm of the `match` the schema
ends in) over the lattice
   type (absent, each single type, nullable pairs, one-element / two-element / all-seven lists)
 x format x enum (strings / integers / mixed) x const x string / number / array / object validation x $ref
 x subschemas (none, allOf, anyOf, oneOf, not, two keywords)
The real side cannot say which arm it took; compared is what each arm implies about the result (`EXPECT`): the kind of the type,
and above all whether ingestion PANICS — the model's `todo` arm is exactly the source's final `todo!()`."""
import itertools, json, random
import vlib

S, I = {"type": "string"}, {"type": "integer"}
TYPES = [None, "string", "integer", "number", "boolean", "object", "array", "null", ["string", "null"], ["null", "integer"], ["object", "null"],
         ["string"], ["string", "integer"], ["null", "null"], ["null", "boolean", "object", "array", "number", "string", "integer"],
         ["object", "array", "null"], ["number", "boolean"]]
ENUMS = [None, ["a", "b"], [1, 2], ["a", None], [None]]
SUBS = [None, {"allOf": [{"maxLength": 5}]}, {"anyOf": [S, I]}, {"oneOf": [S, {"type": "boolean"}]}, {"not": {"enum": ["z"]}},
        {"allOf": [S], "anyOf": [S, I]}]
# (`if` / `then` / `else` end in merge.rs `unimplemented!()` after a `println!` of the schema to STDOUT, which would corrupt the line
# protocol of the harness; the model sends them to `subschemasMerged` / `subschemasWithRest`, arms that imply nothing here)
GROUPS = {"format": {"format": "uuid"}, "const": {"const": "a"}, "str": {"maxLength": 8}, "num": {"minimum": 0}, "arr": {"items": S},
          "obj": {"properties": {"p": I}}, "ref": {"$ref": "#/definitions/A"}}

def build(ty, en, sub, groups):
    s = {}
    if ty is not None: s["type"] = ty
    if en is not None: s["enum"] = en
    if sub is not None: s.update(sub)
    for g in groups: s.update(GROUPS[g])
    return s

def schemas(rng, thorough):
    out = []; seen = set()
    def add(s):
        t = json.dumps(s, sort_keys=True)
        if t not in seen: seen.add(t); out.append(s)
    names = sorted(GROUPS)
    # every point with at most two (thorough: any number of) validation groups; plus, quick, a random sample of the rest
    for ty in TYPES:
        for en in ENUMS:
            for sub in SUBS:
                for k in (range(len(names) + 1) if thorough else (0, 1, 2)):
                    for gs in itertools.combinations(names, k): add(build(ty, en, sub, gs))
    if not thorough:
        for _ in range(3000):
            gs = [g for g in names if rng.random() < 0.5]
            add(build(rng.choice(TYPES), rng.choice(ENUMS), rng.choice(SUBS), gs))
    return out

SIMPLE = {"never", "permissive", "nullOnly", "null", "string", "stringUntyped", "enumString", "integer", "number", "boolean", "object", "objectUntyped",
          "array", "arrayUntyped", "arrayOfAny", "reference"}
def expect(arm, r):
    """is the real answer `r` what the arm implies? -> True / False / None (the arm says nothing about the result)"""
    a = arm.split(" ")[0]
    if a == "optionOf" and " -> " in arm:
        # Option of what the rest of the schema gives under the other type: the inner arm decides
        inner = arm.split(" -> ", 1)[1]
        if r == "panic" or r.get("r") == "err": return expect(inner, r)
        if r.get("kind") != "option": return None if inner.split(" ")[0] not in SIMPLE else (inner.split(" ")[0] in ("null", "nullOnly", "permissive") or None)
        ik = r.get("inner")
        fake = {"r": "ok", "kind": ik, "constraints": "string", "simple": True, "item": "json_value", "n": 0}
        e = expect(inner, fake) if inner.split(" ")[0] in SIMPLE - {"never", "arrayOfAny", "enumString", "reference"} else None
        return e
    if r == "panic": return True if a == "todo" else (False if a in SIMPLE else None)
    if a == "todo": return False
    if r.get("r") == "err": return None if a not in ("permissive", "null", "nullOnly", "boolean", "never", "arrayOfAny") else False
    k = r.get("kind")
    if a == "never": return k == "enum" and r.get("n") == 0
    if a == "permissive": return k == "json_value"
    if a in ("null", "nullOnly"): return k == "unit"
    if a in ("string", "stringUntyped"): return k in ("string", "native") or (k == "newtype" and r.get("constraints") == "string")
    if a == "enumString": return (k == "enum" and r.get("simple")) or k in ("option", "unit")        # `null` among / as the values
    if a == "integer": return k == "integer"
    if a == "number": return k == "float"
    if a == "boolean": return k == "boolean"
    if a in ("object", "objectUntyped"): return k in ("struct", "map")
    if a in ("array", "arrayUntyped"): return k in ("vec", "set", "array", "tuple")
    if a == "arrayOfAny": return k == "vec" and r.get("item") == "json_value"
    if a == "reference": return k == "struct"            # `A`
    if a == "optionOf": return None if k != "option" else True
    if a == "multiType": return None if not (k == "enum" and r.get("tag") == "untagged") else r.get("n") == len(arm.split(" ")) - 1
    return None

def stage(ctx, thorough=False):
    ss = schemas(ctx.rng, thorough)
    lines = [json.dumps(s) for s in ss]
    real = vlib.run_isolating(vlib.tvh("disp"), lines)
    model = vlib.run_side("model", "disp", lines, "disp")
    stats = {"schemas": len(ss), "arm_says_nothing": 0, "agree": 0, "real_panics": 0, "model_todo": 0, "aborted": 0, "arms": {}}
    dis = []
    for s, r, m in zip(ss, real, model):
        if r is None: stats["aborted"] += 1; continue
        rr = "panic" if r == "panic" else json.loads(r)
        stats["arms"][m.split(" ")[0]] = stats["arms"].get(m.split(" ")[0], 0) + 1
        stats["real_panics"] += rr == "panic"; stats["model_todo"] += m == "todo"
        e = expect(m, rr)
        if e is None: stats["arm_says_nothing"] += 1
        elif e: stats["agree"] += 1
        else: dis.append({"schema": s, "real": rr, "model": m})
    return stats, dis

if __name__ == "__main__":
    import sys, collections
    class Ctx: pass
    c = Ctx(); c.rng = random.Random(1)
    st, dis = stage(c, len(sys.argv) > 1)
    print(st); print(len(dis))
    g = collections.defaultdict(list)
    for d in dis: g[(d["model"], json.dumps(d["real"], sort_keys=True)[:80])].append(d["schema"])
    for k, v in sorted(g.items(), key=lambda kv: -len(kv[1]))[:40]:
        print(len(v), k, json.dumps(v[0])[:200])

"""M2: Render model (Lean) vs syn summary of the real to_stream() output."""
import json, re, subprocess, os
import vlib

def norm(x):
    if isinstance(x, str): return re.sub(r'\s+', '', x)
    if isinstance(x, list): return [norm(y) for y in x]
    if isinstance(x, dict): return {k: norm(v) for k, v in x.items() if k != 'doc'}
    return x

def canon_items(summary):
    names = {i['name'] for i in summary['items']}
    out = {}
    dup = []
    for it in summary['items']:
        it = dict(norm(it))
        it['impls'] = sorted(set(i for i in it['impls'] if not (i.startswith('for:') and i.split(':')[1] in names)))
        if it['name'] in out: dup.append(it['name'])
        out.setdefault(it['name'], it)
    # `impl From<Newtype> for Inner` (emitted by the newtype) is reported by tvh_m2 on Inner as well
    for it in list(out.values()):
        if it['kind'] == 'newtype' and it['fields'] and it['fields'][0]['ty'] in out:
            inner = out[it['fields'][0]['ty']]
            inner['impls'] = [i for i in inner['impls'] if i != 'From<%s>' % it['name']]
    return out, dup

def run_bin(path, lines):
    p = subprocess.run([path], input="\n".join(lines) + "\n", capture_output=True, text=True)
    if p.returncode != 0: raise RuntimeError(path + " failed: " + p.stderr[-2000:])
    return p.stdout.split("\n")[:-1]

ABORTED = {"calls": ["abort: the harness process died on this request (stack overflow)"], "render": None, "parses": False, "code": "",
           "dump": None, "types": [], "uses": {}, "pre_cycles": None, "messages": ["process died"], "render_message": None, "aborted": True}
def tvh_ir(reqs):
    """answers of the real typify (tvh_ir); a request that kills the process gets the ABORTED answer"""
    return [dict(ABORTED) if l is None else json.loads(l) for l in vlib.run_isolating(vlib.tvh("ir"), [json.dumps(r) for r in reqs])]

def real_summaries(codes):
    return [json.loads(l) for l in run_bin(vlib.tvh("m2"), [json.dumps(c) for c in codes])]

def model_summaries(pairs):
    """pairs: list of (dump, settings)"""
    lines = []
    for k, (dump, settings) in enumerate(pairs):
        lines.append("ir c%d %s" % (k, json.dumps({"dump": dump, "settings": settings})))
        lines.append("render c%d" % k)
    out = run_bin(vlib.drv("ir"), lines)
    return [json.loads(out[2 * k + 1]) if out[2 * k] == "ok" else None for k in range(len(pairs))]

def diff_case(real, model):
    """returns list of (item, key, real, model) differences"""
    R, rd = canon_items(real); M, md = canon_items(model)
    diffs = []
    for n in sorted(set(R) | set(M)):
        if n not in R or n not in M:
            diffs.append((n, "presence", n in R, n in M)); continue
        for k in sorted(set(R[n]) | set(M[n])):
            if R[n].get(k) != M[n].get(k):
                diffs.append((n, k, R[n].get(k), M[n].get(k)))
    if sorted(set(norm(real.get('builders')))) != sorted(set(norm(model.get('builders')))):     # as a set, see default_fns below
        diffs.append(("<builders>", "", real.get('builders'), model.get('builders')))
    # the summary names WHICH functions `mod defaults` holds (a set, as in Render.lean); a name emitted twice is C01's
    # conjunct default_fns_unique (finding C01-default-fn-clash), decided on the IR, not a difference of the render model
    if sorted(set(norm(real.get('default_fns')))) != sorted(set(norm(model.get('default_fns')))):
        diffs.append(("<default_fns>", "", real.get('default_fns'), model.get('default_fns')))
    return diffs
